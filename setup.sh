#!/bin/sh
# Builds the checker tools offline: the rustc driver (nightly, rustc_private) and the syn extractor (stable).
set -e
cd "$(dirname "$0")"
export CARGO_NET_OFFLINE=true
(cd drv && cargo +nightly build --release --offline)
(cd tpl && cargo build --release --offline)
mkdir -p .cache evidence violations
# warm the dependency build of /repo for the driver runs (facts are still rebuilt from the current tree on every check)
python3 -c "
import sys; sys.path.insert(0,'rules')
import facts
try:
    facts.load(('full',))
    print('facts ok')
except facts.CheckError as e:
    print('setup: warm-up failed:', e); sys.exit(1)
"
