//! zl-drv: rustc driver that dumps structured facts (pre-state-transform MIR, resolved callees,
//! coroutine saved locals, evaluated constants/statics, trait impls) of every crate it compiles
//! as one JSON file per rustc process.  Used as RUSTC_WORKSPACE_WRAPPER.
//!
//! All analysis is done from these facts by the python rule engine; the driver decides nothing.
#![feature(rustc_private)]
#![allow(clippy::all)]

extern crate rustc_abi;
extern crate rustc_driver;
extern crate rustc_hir;
extern crate rustc_interface;
extern crate rustc_middle;
extern crate rustc_session;
extern crate rustc_span;

mod json;
use json::J;

use rustc_driver::Compilation;
use rustc_hir::def::DefKind;
use rustc_hir::def_id::{DefId, LocalDefId, LOCAL_CRATE};
use rustc_middle::mir::{
    self, AggregateKind, AssertKind, Body, BorrowKind, Const, ConstValue, Operand, Place,
    PlaceElem, Rvalue, StatementKind, TerminatorKind, VarDebugInfoContents,
};
use rustc_middle::ty::print::PrintTraitRefExt;
use rustc_middle::ty::{self, Instance, Ty, TyCtxt, TypingEnv};
use rustc_middle::util::Providers;
use rustc_span::{ExpnKind, Span};
use std::sync::{Mutex, OnceLock};

type BorrowckFn = for<'tcx> fn(
    TyCtxt<'tcx>,
    LocalDefId,
) -> rustc_middle::queries::mir_borrowck::ProvidedValue<'tcx>;

static ORIG: OnceLock<BorrowckFn> = OnceLock::new();

struct Saved {
    def: LocalDefId,
    body: Body<'static>,
    witnesses: Option<Vec<(String, String)>>,
    promoted: Vec<Vec<String>>,
}
// Bodies are cloned inside the borrowck override (before `mir_promoted` is stolen) and
// serialised in `after_analysis`, where every query is available without cycles.
static BODIES: Mutex<Vec<Saved>> = Mutex::new(Vec::new());
unsafe impl Send for Saved {}

fn my_borrowck<'tcx>(
    tcx: TyCtxt<'tcx>,
    def: LocalDefId,
) -> rustc_middle::queries::mir_borrowck::ProvidedValue<'tcx> {
    let mut defs = vec![def];
    for n in tcx.nested_bodies_within(def).iter() {
        defs.push(n);
    }
    for d in defs {
        let (steal, prom) = tcx.mir_promoted(d);
        if steal.is_stolen() {
            continue;
        }
        // promoted constants (`&Some(true)` etc.): their statements as text, index = promoted[i]
        let promoted: Vec<Vec<String>> = if prom.is_stolen() {
            Vec::new()
        } else {
            prom.borrow()
                .iter()
                .map(|pb| {
                    pb.basic_blocks
                        .iter()
                        .flat_map(|bb| bb.statements.iter().map(|st| format!("{:?}", st)))
                        .filter(|t| !t.starts_with("StorageLive") && !t.starts_with("StorageDead"))
                        .collect()
                })
                .collect()
        };
        let body: Body<'tcx> = steal.borrow().clone();
        // SAFETY: the clone is only used again in `after_analysis` of the same compilation
        // session, while `tcx` (and its arenas) are still alive.
        let body: Body<'static> = unsafe { std::mem::transmute(body) };
        let witnesses = if tcx.is_coroutine(d.to_def_id()) {
            tcx.mir_coroutine_witnesses(d.to_def_id()).map(|layout| {
                layout
                    .field_tys
                    .iter_enumerated()
                    .map(|(i, f)| {
                        let name = layout
                            .field_names
                            .get(i)
                            .and_then(|n| n.map(|s| s.to_string()))
                            .unwrap_or_default();
                        (name, format!("{:?}", f.ty))
                    })
                    .collect()
            })
        } else {
            None
        };
        BODIES.lock().unwrap().push(Saved { def: d, body, witnesses, promoted });
    }
    (ORIG.get().unwrap())(tcx, def)
}

struct Cx<'tcx> {
    tcx: TyCtxt<'tcx>,
}

fn loc_of(tcx: TyCtxt<'_>, span: Span) -> (String, usize, usize) {
    let sm = tcx.sess.source_map();
    let lo = sm.lookup_char_pos(span.lo());
    let file = format!("{}", lo.file.name.prefer_local_unconditionally());
    (file, lo.line, lo.col.0 + 1)
}

/// (outermost user-visible line, outermost macro "crate::name", innermost desugaring kind)
fn span_info(tcx: TyCtxt<'_>, span: Span) -> (usize, Option<String>, Option<String>) {
    let mut mac = None;
    let mut ds = None;
    let mut sp = span;
    let mut guard = 0;
    while sp.from_expansion() && guard < 64 {
        let data = sp.ctxt().outer_expn_data();
        match data.kind {
            ExpnKind::Macro(_, name) => {
                let krate = data
                    .macro_def_id
                    .map(|d| tcx.crate_name(d.krate).to_string())
                    .unwrap_or_default();
                mac = Some(format!("{}::{}", krate, name));
            }
            ExpnKind::Desugaring(k) => {
                if ds.is_none() {
                    ds = Some(format!("{:?}", k));
                }
            }
            ExpnKind::AstPass(p) => {
                if ds.is_none() {
                    ds = Some(format!("AstPass:{:?}", p));
                }
            }
            ExpnKind::Root => break,
        }
        sp = data.call_site;
        guard += 1;
    }
    let (_, line, _) = loc_of(tcx, sp);
    (line, mac, ds)
}

impl<'tcx> Cx<'tcx> {
    fn path(&self, d: DefId) -> String {
        self.tcx.def_path_str(d)
    }

    fn ty_s(&self, t: Ty<'tcx>) -> String {
        format!("{}", t)
    }

    fn place(&self, body: &Body<'tcx>, p: &Place<'tcx>) -> J {
        let tcx = self.tcx;
        let mut pty = mir::PlaceTy::from_ty(body.local_decls[p.local].ty);
        let mut projs = Vec::new();
        let mut s = format!("_{}", p.local.as_usize());
        for elem in p.projection.iter() {
            match elem {
                PlaceElem::Deref => {
                    projs.push(J::s("*"));
                    s = format!("(*{})", s);
                }
                PlaceElem::Field(f, fty) => {
                    let mut name = format!("{}", f.as_usize());
                    let mut adt = None;
                    match pty.ty.kind() {
                        ty::Adt(def, _) => {
                            let v = pty.variant_index.unwrap_or(rustc_abi::FIRST_VARIANT);
                            if let Some(var) = def.variants().get(v) {
                                if let Some(fd) = var.fields.get(f) {
                                    name = fd.name.to_string();
                                }
                            }
                            adt = Some(self.path(def.did()));
                        }
                        ty::Closure(d, _) | ty::Coroutine(d, _) | ty::CoroutineClosure(d, _) => {
                            adt = Some(format!("upvars:{}", self.path(*d)));
                        }
                        _ => {}
                    }
                    projs.push(J::Obj(vec![
                        ("f", J::n(f.as_usize())),
                        ("name", J::s(name.clone())),
                        ("adt", J::opt(adt.map(J::s))),
                        ("ty", J::s(self.ty_s(fty))),
                    ]));
                    s = format!("{}.{}", s, name);
                }
                PlaceElem::Index(l) => {
                    projs.push(J::Obj(vec![("idx", J::n(l.as_usize()))]));
                    s = format!("{}[_{}]", s, l.as_usize());
                }
                PlaceElem::ConstantIndex { offset, min_length, from_end } => {
                    projs.push(J::Obj(vec![
                        ("cidx", J::n(offset)),
                        ("min", J::n(min_length)),
                        ("from_end", J::Bool(from_end)),
                    ]));
                    s = format!("{}[{}{}]", s, if from_end { "-" } else { "" }, offset);
                }
                PlaceElem::Subslice { from, to, from_end } => {
                    projs.push(J::Obj(vec![
                        ("sub_from", J::n(from)),
                        ("sub_to", J::n(to)),
                        ("from_end", J::Bool(from_end)),
                    ]));
                    s = format!("{}[{}..{}]", s, from, to);
                }
                PlaceElem::Downcast(name, v) => {
                    let n = name.map(|x| x.to_string()).unwrap_or_else(|| format!("{}", v.as_usize()));
                    projs.push(J::Obj(vec![("dc", J::s(n.clone())), ("v", J::n(v.as_usize()))]));
                    s = format!("({} as {})", s, n);
                }
                PlaceElem::OpaqueCast(_) | PlaceElem::UnwrapUnsafeBinder(_) => {
                    projs.push(J::s("cast"));
                }
            }
            pty = pty.projection_ty(tcx, elem);
        }
        J::Obj(vec![
            ("l", J::n(p.local.as_usize())),
            ("p", if projs.is_empty() { J::Null } else { J::Arr(projs) }),
            ("s", J::s(s)),
            ("ty", J::s(self.ty_s(pty.ty))),
        ])
    }

    fn const_op(&self, c: &mir::ConstOperand<'tcx>) -> J {
        let tcx = self.tcx;
        let ty = c.const_.ty();
        let mut fields: Vec<(&'static str, J)> = vec![("k", J::s("const")), ("ty", J::s(self.ty_s(ty)))];
        match ty.kind() {
            ty::FnDef(d, args) => {
                fields.push(("fn", J::s(self.path(*d))));
                fields.push(("fn_args", J::s(format!("{:?}", args))));
                fields.push(("fn_local", J::Bool(d.is_local())));
            }
            ty::Closure(d, _) | ty::Coroutine(d, _) => {
                fields.push(("closure", J::s(self.path(*d))));
            }
            _ => {}
        }
        match c.const_ {
            Const::Unevaluated(uv, _) => {
                fields.push(("def", J::s(self.path(uv.def))));
                if uv.promoted.is_some() {
                    fields.push(("promoted", J::Bool(true)));
                }
            }
            Const::Val(v, _) => {
                match v {
                    ConstValue::Scalar(sc) => {
                        // pointer to a static: name the static
                        if let rustc_middle::mir::interpret::Scalar::Ptr(ptr, _) = sc {
                            let (prov, _) = ptr.prov_and_relative_offset();
                            match tcx.try_get_global_alloc(prov.alloc_id()) {
                                Some(rustc_middle::mir::interpret::GlobalAlloc::Static(sd)) => {
                                    fields.push(("static", J::s(self.path(sd))));
                                }
                                Some(rustc_middle::mir::interpret::GlobalAlloc::Memory(alloc)) => {
                                    // `&[u8; N]` literal (b"..."): its bytes
                                    let is_u8_arr = match ty.kind() {
                                        ty::Ref(_, inner, _) => matches!(inner.kind(), ty::Array(t, _) if *t == tcx.types.u8),
                                        _ => false,
                                    };
                                    let a = alloc.inner();
                                    if is_u8_arr && a.len() <= 256 && a.provenance().ptrs().is_empty() {
                                        let b = a.inspect_with_uninit_and_ptr_outside_interpreter(0..a.len());
                                        fields.push(("bytes", J::Arr(b.iter().map(|x| J::n(*x)).collect())));
                                    }
                                }
                                _ => {}
                            }
                        }
                        if let Ok(i) = sc.try_to_scalar_int() {
                            let size = i.size();
                            let bits = i.to_bits(size);
                            let val: i128 = if ty.is_signed() {
                                i.to_int(size)
                            } else {
                                bits as i128
                            };
                            if ty.is_bool() {
                                fields.push(("val", J::Bool(bits != 0)));
                            } else if bits <= i128::MAX as u128 {
                                fields.push(("val", J::Num(val)));
                            }
                        }
                    }
                    ConstValue::Slice { .. } => {
                        if let ty::Ref(_, inner, _) = ty.kind() {
                            if inner.is_str() || matches!(inner.kind(), ty::Slice(t) if *t == tcx.types.u8) {
                                if let Some(b) = v.try_get_slice_bytes_for_diagnostics(tcx) {
                                    match std::str::from_utf8(b) {
                                        Ok(s) => fields.push(("str", J::s(s))),
                                        Err(_) => fields.push((
                                            "bytes",
                                            J::Arr(b.iter().map(|x| J::n(*x)).collect()),
                                        )),
                                    }
                                }
                            }
                        }
                    }
                    _ => {}
                }
            }
            Const::Ty(_, ct) => {
                if let Some(i) = ct.try_to_leaf() {
                    let size = i.size();
                    fields.push(("val", J::n(i.to_bits(size))));
                }
            }
        }
        fields.push(("s", J::s(format!("{}", c.const_))));
        J::Obj(fields)
    }

    fn operand(&self, body: &Body<'tcx>, o: &Operand<'tcx>) -> J {
        match o {
            Operand::Copy(p) => J::Obj(vec![("k", J::s("copy")), ("place", self.place(body, p))]),
            Operand::Move(p) => J::Obj(vec![("k", J::s("move")), ("place", self.place(body, p))]),
            Operand::Constant(c) => self.const_op(c),
            #[allow(unreachable_patterns)]
            other => J::Obj(vec![("k", J::s("other")), ("s", J::s(format!("{:?}", other)))]),
        }
    }

    fn rvalue(&self, body: &Body<'tcx>, rv: &Rvalue<'tcx>) -> J {
        match rv {
            Rvalue::Use(o, ..) => J::Obj(vec![("k", J::s("use")), ("op", self.operand(body, o))]),
            Rvalue::Repeat(o, n) => J::Obj(vec![
                ("k", J::s("repeat")),
                ("op", self.operand(body, o)),
                ("n", J::s(format!("{}", n))),
            ]),
            Rvalue::Ref(_, bk, p) => J::Obj(vec![
                ("k", J::s("ref")),
                ("mut", J::Bool(matches!(bk, BorrowKind::Mut { .. }))),
                ("bk", J::s(format!("{:?}", bk))),
                ("place", self.place(body, p)),
            ]),
            Rvalue::RawPtr(kind, p) => J::Obj(vec![
                ("k", J::s("rawptr")),
                ("mut", J::Bool(format!("{:?}", kind).contains("Mut"))),
                ("place", self.place(body, p)),
            ]),
            Rvalue::Cast(kind, o, t) => J::Obj(vec![
                ("k", J::s("cast")),
                ("kind", J::s(format!("{:?}", kind))),
                ("op", self.operand(body, o)),
                ("ty", J::s(self.ty_s(*t))),
            ]),
            Rvalue::BinaryOp(op, ab) => J::Obj(vec![
                ("k", J::s("bin")),
                ("op", J::s(format!("{:?}", op))),
                ("a", self.operand(body, &ab.0)),
                ("b", self.operand(body, &ab.1)),
            ]),
            Rvalue::UnaryOp(op, a) => J::Obj(vec![
                ("k", J::s("un")),
                ("op", J::s(format!("{:?}", op))),
                ("a", self.operand(body, a)),
            ]),
            Rvalue::Discriminant(p) => {
                J::Obj(vec![("k", J::s("discr")), ("place", self.place(body, p))])
            }
            Rvalue::Aggregate(kind, ops) => {
                let (ks, extra): (String, Vec<(&'static str, J)>) = match &**kind {
                    AggregateKind::Array(t) => ("array".into(), vec![("elem_ty", J::s(self.ty_s(*t)))]),
                    AggregateKind::Tuple => ("tuple".into(), vec![]),
                    AggregateKind::Adt(d, v, _, _, _) => {
                        let adt = self.tcx.adt_def(*d);
                        let var = adt.variant(*v);
                        let names: Vec<J> =
                            var.fields.iter().map(|f| J::s(f.name.to_string())).collect();
                        (
                            "adt".into(),
                            vec![
                                ("adt", J::s(self.path(*d))),
                                ("variant", J::s(var.name.to_string())),
                                ("fields", J::Arr(names)),
                            ],
                        )
                    }
                    AggregateKind::Closure(d, _) => ("closure".into(), vec![("def", J::s(self.path(*d)))]),
                    AggregateKind::Coroutine(d, _) => {
                        ("coroutine".into(), vec![("def", J::s(self.path(*d)))])
                    }
                    AggregateKind::CoroutineClosure(d, _) => {
                        ("coroutine_closure".into(), vec![("def", J::s(self.path(*d)))])
                    }
                    AggregateKind::RawPtr(..) => ("rawptr".into(), vec![]),
                };
                let mut f: Vec<(&'static str, J)> = vec![("k", J::s("aggr")), ("kind", J::s(ks))];
                f.extend(extra);
                f.push(("ops", J::Arr(ops.iter().map(|o| self.operand(body, o)).collect())));
                J::Obj(f)
            }
            Rvalue::CopyForDeref(p) => {
                J::Obj(vec![("k", J::s("use")), ("op", J::Obj(vec![("k", J::s("copy")), ("place", self.place(body, p))]))])
            }
            other => J::Obj(vec![("k", J::s("other")), ("s", J::s(format!("{:?}", other)))]),
        }
    }

    fn src(&self, span: Span) -> Vec<(&'static str, J)> {
        let (line, mac, ds) = span_info(self.tcx, span);
        vec![("line", J::n(line)), ("mac", J::opt(mac.map(J::s))), ("ds", J::opt(ds.map(J::s)))]
    }

    fn callee(&self, def_id: LocalDefId, func: &Operand<'tcx>, body: &Body<'tcx>) -> J {
        let tcx = self.tcx;
        let fty = func.ty(&body.local_decls, tcx);
        match fty.kind() {
            ty::FnDef(d, args) => {
                let mut f: Vec<(&'static str, J)> = vec![
                    ("def", J::s(self.path(*d))),
                    ("args", J::s(format!("{:?}", args))),
                    ("local", J::Bool(d.is_local())),
                    ("krate", J::s(tcx.crate_name(d.krate).to_string())),
                ];
                if let Some(tr) = tcx.trait_of_assoc(*d) {
                    f.push(("trait", J::s(self.path(tr))));
                    f.push(("name", J::s(tcx.item_name(*d).to_string())));
                    if let Some(self_ty) = args.types().next() {
                        f.push(("self_ty", J::s(self.ty_s(self_ty))));
                    }
                } else if let Some(name) = tcx.opt_item_name(*d) {
                    f.push(("name", J::s(name.to_string())));
                    if let Some(imp) = tcx.inherent_impl_of_assoc(*d) {
                        let st = tcx.type_of(imp).instantiate_identity().skip_norm_wip();
                        f.push(("impl_self", J::s(self.ty_s(st))));
                    }
                }
                let env = TypingEnv::post_analysis(tcx, def_id.to_def_id());
                if let Ok(Some(inst)) = Instance::try_resolve(tcx, env, *d, args) {
                    let rd = inst.def_id();
                    if rd != *d {
                        f.push(("resolved", J::s(self.path(rd))));
                        f.push(("resolved_local", J::Bool(rd.is_local())));
                    }
                    f.push(("inst", J::s(format!("{:?}", inst.def).split('(').next().unwrap_or("").to_string())));
                }
                J::Obj(f)
            }
            _ => J::Obj(vec![("indirect", self.operand(body, func)), ("ty", J::s(self.ty_s(fty)))]),
        }
    }

    fn body(&self, saved: &Saved) -> J {
        let tcx = self.tcx;
        let def = saved.def;
        let did = def.to_def_id();
        // SAFETY: see `my_borrowck`.
        let body: &Body<'tcx> = unsafe { std::mem::transmute(&saved.body) };
        let (file, lo_line, _) = loc_of(tcx, body.span);
        let hi_line = tcx.sess.source_map().lookup_char_pos(body.span.hi()).line;
        let kind = tcx.def_kind(did);
        let root = tcx.typeck_root_def_id(did);

        let mut names: Vec<Option<String>> = vec![None; body.local_decls.len()];
        let mut dbg = Vec::new();
        for v in body.var_debug_info.iter() {
            if let VarDebugInfoContents::Place(p) = &v.value {
                if p.projection.is_empty() {
                    if names[p.local.as_usize()].is_none() {
                        names[p.local.as_usize()] = Some(v.name.to_string());
                    }
                }
                dbg.push(J::Obj(vec![("name", J::s(v.name.to_string())), ("place", self.place(body, p))]));
            }
        }
        let locals: Vec<J> = body
            .local_decls
            .iter_enumerated()
            .map(|(l, d)| {
                J::Obj(vec![
                    ("i", J::n(l.as_usize())),
                    ("ty", J::s(self.ty_s(d.ty))),
                    ("name", J::opt(names[l.as_usize()].clone().map(J::s))),
                    ("mut", J::Bool(d.mutability.is_mut())),
                    ("user", J::Bool(d.is_user_variable())),
                    ("line", J::n(span_info(tcx, d.source_info.span).0)),
                ])
            })
            .collect();

        let mut blocks = Vec::new();
        for (_bb, data) in body.basic_blocks.iter_enumerated() {
            let mut stmts = Vec::new();
            for st in data.statements.iter() {
                let mut f: Vec<(&'static str, J)> = match &st.kind {
                    StatementKind::Assign(b) => vec![
                        ("k", J::s("assign")),
                        ("place", self.place(body, &b.0)),
                        ("rv", self.rvalue(body, &b.1)),
                    ],
                    StatementKind::SetDiscriminant { place, variant_index } => vec![
                        ("k", J::s("setdiscr")),
                        ("place", self.place(body, place)),
                        ("v", J::n(variant_index.as_usize())),
                    ],
                    StatementKind::StorageLive(l) => vec![("k", J::s("live")), ("l", J::n(l.as_usize()))],
                    StatementKind::StorageDead(l) => vec![("k", J::s("dead")), ("l", J::n(l.as_usize()))],
                    StatementKind::FakeRead(..)
                    | StatementKind::PlaceMention(..)
                    | StatementKind::AscribeUserType(..)
                    | StatementKind::Coverage(..)
                    | StatementKind::ConstEvalCounter
                    | StatementKind::Nop => continue,
                    other => vec![("k", J::s("other")), ("s", J::s(format!("{:?}", other)))],
                };
                f.extend(self.src(st.source_info.span));
                stmts.push(J::Obj(f));
            }
            let term = data.terminator();
            let mut t: Vec<(&'static str, J)> = match &term.kind {
                TerminatorKind::Goto { target } => vec![("k", J::s("goto")), ("t", J::n(target.as_usize()))],
                TerminatorKind::SwitchInt { discr, targets } => {
                    let arms: Vec<J> = targets
                        .iter()
                        .map(|(v, bb)| J::Arr(vec![J::n(v), J::n(bb.as_usize())]))
                        .collect();
                    vec![
                        ("k", J::s("switch")),
                        ("op", self.operand(body, discr)),
                        ("op_ty", J::s(self.ty_s(discr.ty(&body.local_decls, tcx)))),
                        ("arms", J::Arr(arms)),
                        ("otherwise", J::n(targets.otherwise().as_usize())),
                    ]
                }
                TerminatorKind::Return => vec![("k", J::s("return"))],
                TerminatorKind::Unreachable => vec![("k", J::s("unreachable"))],
                TerminatorKind::UnwindResume => vec![("k", J::s("resume"))],
                TerminatorKind::UnwindTerminate(_) => vec![("k", J::s("terminate"))],
                TerminatorKind::Drop { place, target, .. } => vec![
                    ("k", J::s("drop")),
                    ("place", self.place(body, place)),
                    ("t", J::n(target.as_usize())),
                ],
                TerminatorKind::Call { func, args, destination, target, fn_span, .. } => {
                    let (fl, _, _) = span_info(tcx, *fn_span);
                    vec![
                        ("k", J::s("call")),
                        ("callee", self.callee(def, func, body)),
                        ("args", J::Arr(args.iter().map(|a| self.operand(body, &a.node)).collect())),
                        ("dest", self.place(body, destination)),
                        ("t", J::opt(target.map(|t| J::n(t.as_usize())))),
                        ("fn_line", J::n(fl)),
                    ]
                }
                TerminatorKind::TailCall { func, args, .. } => vec![
                    ("k", J::s("tailcall")),
                    ("callee", self.callee(def, func, body)),
                    ("args", J::Arr(args.iter().map(|a| self.operand(body, &a.node)).collect())),
                ],
                TerminatorKind::Assert { cond, expected, msg, target, .. } => {
                    let (mk, extra): (String, Vec<(&'static str, J)>) = match &**msg {
                        AssertKind::BoundsCheck { len, index } => (
                            "bounds".into(),
                            vec![("len", self.operand(body, len)), ("index", self.operand(body, index))],
                        ),
                        AssertKind::Overflow(op, a, b) => (
                            format!("overflow:{:?}", op),
                            vec![("a", self.operand(body, a)), ("b", self.operand(body, b))],
                        ),
                        other => (format!("{:?}", other).split(|c: char| !c.is_alphanumeric()).next().unwrap_or("").to_string(), vec![]),
                    };
                    let mut v = vec![
                        ("k", J::s("assert")),
                        ("cond", self.operand(body, cond)),
                        ("expected", J::Bool(*expected)),
                        ("msg", J::s(mk)),
                        ("t", J::n(target.as_usize())),
                    ];
                    v.extend(extra);
                    v
                }
                TerminatorKind::Yield { value, resume, resume_arg, drop } => vec![
                    ("k", J::s("yield")),
                    ("value", self.operand(body, value)),
                    ("t", J::n(resume.as_usize())),
                    ("resume_arg", self.place(body, resume_arg)),
                    ("drop", J::opt(drop.map(|d| J::n(d.as_usize())))),
                ],
                TerminatorKind::CoroutineDrop => vec![("k", J::s("coroutine_drop"))],
                TerminatorKind::FalseEdge { real_target, imaginary_target } => vec![
                    ("k", J::s("goto")),
                    ("t", J::n(real_target.as_usize())),
                    ("imag", J::n(imaginary_target.as_usize())),
                ],
                TerminatorKind::FalseUnwind { real_target, .. } => {
                    vec![("k", J::s("goto")), ("t", J::n(real_target.as_usize())), ("loop_head", J::Bool(true))]
                }
                TerminatorKind::InlineAsm { .. } => vec![("k", J::s("asm"))],
            };
            t.extend(self.src(term.source_info.span));
            blocks.push(J::Obj(vec![
                ("stmts", J::Arr(stmts)),
                ("term", J::Obj(t)),
                ("cleanup", if data.is_cleanup { J::Bool(true) } else { J::Null }),
            ]));
        }

        // impl / trait context
        let mut ctx: Vec<(&'static str, J)> = Vec::new();
        let owner = if matches!(kind, DefKind::Closure | DefKind::InlineConst | DefKind::AnonConst) { root } else { did };
        if let Some(parent) = tcx.opt_parent(owner) {
            match tcx.def_kind(parent) {
                DefKind::Impl { of_trait } => {
                    let st = tcx.type_of(parent).instantiate_identity().skip_norm_wip();
                    ctx.push(("impl_self", J::s(self.ty_s(st))));
                    if of_trait {
                        let tr = tcx.impl_trait_ref(parent).instantiate_identity().skip_norm_wip();
                        ctx.push(("impl_trait", J::s(self.path(tr.def_id))));
                        ctx.push(("impl_trait_ref", J::s(format!("{}", tr.print_only_trait_path()))));
                    }
                }
                DefKind::Trait => {
                    ctx.push(("in_trait", J::s(self.path(parent))));
                }
                _ => {}
            }
        }
        let mut f: Vec<(&'static str, J)> = vec![
            ("path", J::s(self.path(did))),
            ("kind", J::s(format!("{:?}", kind))),
            ("root", J::s(self.path(root))),
            ("name", J::opt(tcx.opt_item_name(owner).map(|n| J::s(n.to_string())))),
            ("file", J::s(file)),
            ("lo", J::n(lo_line)),
            ("hi", J::n(hi_line)),
            ("coroutine", if tcx.is_coroutine(did) { J::Bool(true) } else { J::Null }),
            ("arg_count", J::n(body.arg_count)),
            ("ret_ty", J::s(self.ty_s(body.return_ty()))),
        ];
        if matches!(kind, DefKind::Fn | DefKind::AssocFn) {
            let v = tcx.visibility(did);
            f.push(("vis", J::s(if v.is_public() { "pub" } else { "restricted" })));
        }
        let (_, mac, _) = span_info(tcx, body.span);
        f.push(("mac", J::opt(mac.map(J::s))));
        f.extend(ctx);
        f.push(("locals", J::Arr(locals)));
        f.push(("dbg", J::Arr(dbg)));
        if let Some(w) = &saved.witnesses {
            f.push((
                "saved",
                J::Arr(w.iter().map(|(n, t)| J::Obj(vec![("name", J::s(n.clone())), ("ty", J::s(t.clone()))])).collect()),
            ));
        }
        if !saved.promoted.is_empty() {
            f.push((
                "promoted",
                J::Arr(saved.promoted.iter().map(|v| J::Arr(v.iter().map(|t| J::s(t.clone())).collect())).collect()),
            ));
        }
        f.push(("blocks", J::Arr(blocks)));
        J::Obj(f)
    }

    /// Evaluated integer / byte-array constants and statics of the local crate.
    fn consts(&self) -> J {
        let tcx = self.tcx;
        let mut out = Vec::new();
        for ld in tcx.hir_crate_items(()).definitions() {
            let did = ld.to_def_id();
            let kind = tcx.def_kind(did);
            let is_static = matches!(kind, DefKind::Static { .. });
            let is_const = matches!(kind, DefKind::Const { .. } | DefKind::AssocConst { .. });
            if !is_static && !is_const {
                continue;
            }
            if tcx.generics_of(did).own_requires_monomorphization() || tcx.generics_of(did).parent_count > 0 && tcx.generics_of(did).requires_monomorphization(tcx) {
                continue;
            }
            let ty = tcx.type_of(did).instantiate_identity().skip_norm_wip();
            let mut f: Vec<(&'static str, J)> = vec![
                ("path", J::s(self.path(did))),
                ("kind", J::s(if is_static { "static" } else { "const" })),
                ("ty", J::s(self.ty_s(ty))),
            ];
            let (file, line, _) = loc_of(tcx, tcx.def_span(did));
            f.push(("file", J::s(file)));
            f.push(("line", J::n(line)));
            if is_static {
                let elem_u8 = match ty.kind() {
                    ty::Array(t, _) => *t == tcx.types.u8,
                    _ => false,
                };
                if elem_u8 || ty.is_integral() || ty.is_bool() {
                    if let Ok(alloc) = tcx.eval_static_initializer(did) {
                        let a = alloc.inner();
                        let bytes = a.inspect_with_uninit_and_ptr_outside_interpreter(0..a.len());
                        f.push(("bytes", J::Arr(bytes.iter().map(|b| J::n(*b)).collect())));
                    }
                }
            } else if ty.is_integral() || ty.is_bool() || ty.is_char() {
                if let Ok(v) = tcx.const_eval_poly(did) {
                    if let Some(i) = v.try_to_scalar_int() {
                        let size = i.size();
                        let val: i128 = if ty.is_signed() { i.to_int(size) } else { i.to_bits(size) as i128 };
                        f.push(("val", J::Num(val)));
                    }
                }
            } else if let ty::Array(t, _) = ty.kind() {
                if *t == tcx.types.u8 {
                    if let Ok(v) = tcx.const_eval_poly(did) {
                        if let ConstValue::Indirect { alloc_id, offset } = v {
                            let a = tcx.global_alloc(alloc_id).unwrap_memory().inner();
                            let start = offset.bytes_usize();
                            let bytes = a.inspect_with_uninit_and_ptr_outside_interpreter(start..a.len());
                            f.push(("bytes", J::Arr(bytes.iter().map(|b| J::n(*b)).collect())));
                        }
                    }
                }
            }
            out.push(J::Obj(f));
        }
        J::Arr(out)
    }

    fn impls(&self) -> J {
        let tcx = self.tcx;
        let mut out = Vec::new();
        for ld in tcx.hir_crate_items(()).definitions() {
            let did = ld.to_def_id();
            if let DefKind::Impl { of_trait } = tcx.def_kind(did) {
                let st = tcx.type_of(did).instantiate_identity().skip_norm_wip();
                let mut f: Vec<(&'static str, J)> = vec![("path", J::s(self.path(did))), ("self_ty", J::s(self.ty_s(st)))];
                if of_trait {
                    let tr = tcx.impl_trait_ref(did).instantiate_identity().skip_norm_wip();
                    f.push(("trait", J::s(self.path(tr.def_id))));
                    f.push(("trait_ref", J::s(format!("{}", tr.print_only_trait_path()))));
                }
                let (file, line, _) = loc_of(tcx, tcx.def_span(did));
                let (_, mac, _) = span_info(tcx, tcx.def_span(did));
                f.push(("file", J::s(file)));
                f.push(("line", J::n(line)));
                f.push(("mac", J::opt(mac.map(J::s))));
                let items: Vec<J> = tcx
                    .associated_items(did)
                    .in_definition_order()
                    .map(|it| {
                        J::Obj(vec![
                            ("name", J::s(it.opt_name().map(|n| n.to_string()).unwrap_or_default())),
                            ("kind", J::s(format!("{:?}", it.kind).split(|c: char| !c.is_alphanumeric()).next().unwrap_or("").to_string())),
                            ("path", J::s(self.path(it.def_id))),
                        ])
                    })
                    .collect();
                f.push(("items", J::Arr(items)));
                out.push(J::Obj(f));
            }
        }
        J::Arr(out)
    }

    /// ADT definitions (field names, types, declaration order).
    fn adts(&self) -> J {
        let tcx = self.tcx;
        let mut out = Vec::new();
        for ld in tcx.hir_crate_items(()).definitions() {
            let did = ld.to_def_id();
            if !matches!(tcx.def_kind(did), DefKind::Struct | DefKind::Enum | DefKind::Union) {
                continue;
            }
            let adt = tcx.adt_def(did);
            let (file, line, _) = loc_of(tcx, tcx.def_span(did));
            let (_, mac, _) = span_info(tcx, tcx.def_span(did));
            let variants: Vec<J> = adt
                .variants()
                .iter()
                .map(|v| {
                    let fields: Vec<J> = v
                        .fields
                        .iter()
                        .map(|fd| {
                            let t = tcx.type_of(fd.did).instantiate_identity().skip_norm_wip();
                            J::Obj(vec![("name", J::s(fd.name.to_string())), ("ty", J::s(self.ty_s(t)))])
                        })
                        .collect();
                    J::Obj(vec![
                        ("name", J::s(v.name.to_string())),
                        ("ctor", J::s(format!("{:?}", v.ctor_kind()))),
                        ("fields", J::Arr(fields)),
                    ])
                })
                .collect();
            out.push(J::Obj(vec![
                ("path", J::s(self.path(did))),
                ("kind", J::s(format!("{:?}", tcx.def_kind(did)))),
                ("file", J::s(file)),
                ("line", J::n(line)),
                ("mac", J::opt(mac.map(J::s))),
                ("variants", J::Arr(variants)),
            ]));
        }
        J::Arr(out)
    }
}

struct Cb {
    args: Vec<String>,
}

impl rustc_driver::Callbacks for Cb {
    fn config(&mut self, config: &mut rustc_interface::Config) {
        config.override_queries = Some(|_sess, providers: &mut Providers| {
            let _ = ORIG.set(providers.queries.mir_borrowck);
            providers.queries.mir_borrowck = my_borrowck;
        });
    }

    fn after_analysis<'tcx>(
        &mut self,
        _c: &rustc_interface::interface::Compiler,
        tcx: TyCtxt<'tcx>,
    ) -> Compilation {
        let out_dir = match std::env::var("ZL_FACTS_DIR") {
            Ok(d) => d,
            Err(_) => return Compilation::Continue,
        };
        let krate = tcx.crate_name(LOCAL_CRATE).to_string();
        let is_test = self.args.iter().any(|a| a == "--test");
        let mut features = Vec::new();
        let mut cfgs = Vec::new();
        let mut it = self.args.iter();
        while let Some(a) = it.next() {
            if a == "--cfg" {
                if let Some(v) = it.next() {
                    if let Some(rest) = v.strip_prefix("feature=") {
                        features.push(J::s(rest.trim_matches('"')));
                    } else {
                        cfgs.push(J::s(v.clone()));
                    }
                }
            }
        }
        let src = self.args.iter().find(|a| a.ends_with(".rs")).cloned().unwrap_or_default();
        let crate_type = {
            let mut ct = String::new();
            let mut it = self.args.iter();
            while let Some(a) = it.next() {
                if a == "--crate-type" {
                    if let Some(v) = it.next() {
                        ct = v.clone();
                    }
                }
            }
            ct
        };
        let cx = Cx { tcx };
        let skip_bodies = is_test && std::env::var("ZL_DUMP_TESTS").is_err();
        let saved = std::mem::take(&mut *BODIES.lock().unwrap());
        let n_saved = saved.len();
        let bodies: Vec<J> = if skip_bodies { Vec::new() } else { saved.iter().map(|s| cx.body(s)).collect() };
        let doc = J::Obj(vec![
            ("crate", J::s(krate.clone())),
            ("src", J::s(src.clone())),
            ("crate_type", J::s(crate_type)),
            ("test", J::Bool(is_test)),
            ("features", J::Arr(features)),
            ("cfgs", J::Arr(cfgs)),
            ("n_bodies_seen", J::n(n_saved)),
            ("bodies", J::Arr(bodies)),
            ("consts", if skip_bodies { J::Arr(vec![]) } else { cx.consts() }),
            ("impls", if skip_bodies { J::Arr(vec![]) } else { cx.impls() }),
            ("adts", if skip_bodies { J::Arr(vec![]) } else { cx.adts() }),
        ]);
        let mut s = String::new();
        doc.write(&mut s);
        // one file per rustc process; name is unique per (crate, source root, test flag, features)
        let mut h: u64 = 1469598103934665603;
        for a in self.args.iter() {
            for b in a.bytes() {
                h ^= b as u64;
                h = h.wrapping_mul(1099511628211);
            }
        }
        std::fs::create_dir_all(&out_dir).ok();
        let fname = format!("{}/{}-{}{:016x}.json", out_dir, krate, if is_test { "t-" } else { "" }, h);
        let tmp = format!("{}.tmp{}", fname, std::process::id());
        std::fs::write(&tmp, s).expect("write facts");
        std::fs::rename(&tmp, &fname).expect("rename facts");
        Compilation::Continue
    }
}

fn main() {
    let mut args: Vec<String> = std::env::args().collect();
    // RUSTC_WORKSPACE_WRAPPER passes the real rustc path as argv[1].
    if args.len() > 1 && (args[1].ends_with("rustc") || args[1].contains("/rustc")) {
        args.remove(1);
    }
    let mut cb = Cb { args: args.clone() };
    rustc_driver::run_compiler(&args, &mut cb);
}
