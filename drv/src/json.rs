//! Tiny JSON value + writer (the driver has no dependencies).

#[derive(Clone, Debug)]
pub enum J {
    Null,
    Bool(bool),
    Num(i128),
    Str(String),
    Arr(Vec<J>),
    Obj(Vec<(&'static str, J)>),
}

impl J {
    pub fn s(x: impl Into<String>) -> J {
        J::Str(x.into())
    }
    pub fn n(x: impl TryInto<i128>) -> J {
        match x.try_into() {
            Ok(v) => J::Num(v),
            Err(_) => J::Null,
        }
    }
    pub fn opt(x: Option<J>) -> J {
        x.unwrap_or(J::Null)
    }
    pub fn write(&self, out: &mut String) {
        match self {
            J::Null => out.push_str("null"),
            J::Bool(b) => out.push_str(if *b { "true" } else { "false" }),
            J::Num(n) => out.push_str(&n.to_string()),
            J::Str(s) => write_str(s, out),
            J::Arr(v) => {
                out.push('[');
                for (i, x) in v.iter().enumerate() {
                    if i > 0 {
                        out.push(',');
                    }
                    x.write(out);
                }
                out.push(']');
            }
            J::Obj(v) => {
                out.push('{');
                let mut first = true;
                for (k, x) in v.iter() {
                    if matches!(x, J::Null) {
                        continue;
                    }
                    if !first {
                        out.push(',');
                    }
                    first = false;
                    write_str(k, out);
                    out.push(':');
                    x.write(out);
                }
                out.push('}');
            }
        }
    }
}

fn write_str(s: &str, out: &mut String) {
    out.push('"');
    for c in s.chars() {
        match c {
            '"' => out.push_str("\\\""),
            '\\' => out.push_str("\\\\"),
            '\n' => out.push_str("\\n"),
            '\r' => out.push_str("\\r"),
            '\t' => out.push_str("\\t"),
            c if (c as u32) < 0x20 => out.push_str(&format!("\\u{:04x}", c as u32)),
            c => out.push(c),
        }
    }
    out.push('"');
}
