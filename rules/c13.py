"""C13 - the IDL parser never panics, never loops, never accepts a text while ignoring part of it (R13.1 - R13.6)."""
import re
import mir
from mir import op_place, op_str, place_is_local
import common as C
import pathsens as PS
from bounds import Bounds

MOD = 'idl::parse::'

META = {
    'level': 'other',
    'explanation': (
        'Bounds, error-discipline, progress and conservation rules over the MIR of every non-test function of zlink-core\'s '
        'idl::parse module: (R13.1a) every compiler-inserted bounds check (`input[i]`) is discharged by a dominating guard - an edge of '
        'a comparison of the same index with the same slice\'s len(), of is_empty() or of starts_with(<literal>) - with no '
        'redefinition of the index or the slice in between; (R13.1b) every range slice (`&s[a..b]`, `[a..]`, `[..b]`) has bounds '
        'that are constants covered by such a guard or cursors proved `<= len` inductively (initialised to a guarded constant, '
        'advanced only by +1 under a live `cursor < len` guard); bounds taken from a search result (position / find) must be '
        'guarded explicitly; (R13.1c) the only unwrap/expect is the UTF-8 conversion of byte runs cut at ASCII class tests '
        '(frozen table, one reason per entry), (R13.1d) no `str` is sliced by byte offsets; (R13.2) no parse error is dropped '
        'with the input advanced: every sub-parser result that is not propagated with `?` belongs to a non-consuming probe '
        '(literal(..), multispace0, an always-Ok helper) or its Err edge restores the input from a checkpoint taken before the '
        'call on every path; (R13.3) every loop makes progress: each cycle passes through a consuming step (a consuming '
        'sub-parser, a slice advance by >= 1, a cursor increment) or the loop has the explicit no-progress exit; (R13.4) the '
        'entry function returns Ok only on the "remaining input is empty" edge; (R13.5) the name scanners (cursor + final `&start[0..cursor]`) '
        'can stop only right after a byte that passed an alphanumeric class test - an advance over a byte only known to be `.`, `-` or `_` must be '
        'followed by one that is, or the last byte is checked before Ok; (R13.6) nothing parsed is silently dropped: for '
        'every accumulator (a Vec that receives push in a parser), on every feasible Ok path on which it was pushed to '
        '(flag variables followed by constant propagation) it is moved into the returned tree; (R13.7) the three name scanners '
        '(interface_name, type_name, field_name) accept exactly the lexical rules of the grammar: their MIR (with the helpers, closures and '
        'slice-iterator adaptors they use) is interpreted over an unknown input - a byte-class set per position refined at every test, an '
        'interval for the length, positions relative to the furthest cursor so that loops close - in lock-step with the DFA of the rule\'s '
        'regular expression; every Ok return must be in the language and consume exactly the returned name, no Err and no shorter Ok may be '
        'reachable with an input whose name is legal, and no bounds / overflow assertion may be reachable failing. Not decided: that the '
        'phrase-level language (members, types, comments) is exactly the Varlink grammar and the tree the denoted one.'),
    'assumptions': ['winnow literal / alt / separated rewind the input on a failed alternative as documented, except after the last alternative (handled by R13.2)',
                    'usize arithmetic on buffer offsets does not overflow (offsets are bounded by the slice length)'],
}

UNWRAP_OK = {
    'idl::parse::bytes_to_str': 'input comes from a &str and every cut position is produced by an ASCII class test / ASCII literal, so each run is valid UTF-8',
}
ALWAYS_OK_HELPERS = {'ws', 'whitespace_only'}
NON_CONSUMING = {'ws', 'whitespace_only', 'parse_preceding_comments'}


def parser_bodies(crate):
    return [b for b in crate.bodies if b.path.startswith(MOD) and not b.in_test and '::tests' not in b.path]


def panic_free_scanner_bodies(crate):
    """bodies (scanner + everything it inlines) whose bounds assertions the scanner interpretation (R13.7) evaluated on every feasible
    path without finding a reachable failure"""
    out = set()
    for path in SCANNERS:
        r = _scan(crate, path)
        if r is None:
            continue
        sc, outs, err = r
        if err is None and not sc.stopped_early and not any(o.kind == 'panic' for o in outs):
            out.add(path)
            out.update(sc.inlined)
    # the lexical helpers, interpreted as consumers (R13.13): same argument
    bodies = {b.path: b for b in crate.bodies if not b.in_test}
    import scanner as SC
    for path, (regex, what) in LEXICAL_RULES.items():
        body = bodies.get(path)
        if body is None:
            continue
        ck = (id(crate), path)
        if ck not in _SKIP_CACHE:
            try:
                sc, outs = SC.analyse(crate, body, regex, mode='skip', marker=LEXICAL_MARKERS.get(path))
                _SKIP_CACHE[ck] = (sc, outs, None)
            except SC.Unsupported as e:
                _SKIP_CACHE[ck] = (None, [], str(e))
        sc, outs, err = _SKIP_CACHE[ck]
        if err is None and not sc.stopped_early and not any(o.kind == 'panic' for o in outs):
            out.add(path)
            out.update(sc.inlined)
    return out


def check_bounds(rep, crate, cfg):
    n_sites = 0
    for body in parser_bodies(crate):
        B = Bounds(body)
        fk = body.path
        ord_ = 0
        for blk, t in body.iter_terms('assert'):
            if t['msg'] != 'bounds':
                continue
            n_sites += 1
            ord_ += 1
            key, sid = B.key_of(t['index']), B.len_of(t['len'])
            ok, det = (False, {}) if (key is None or sid is None) else B.proves(blk, key, sid)
            if not ok and fk in panic_free_scanner_bodies(crate):
                ok, det = True, {'guard_line': 'abstract interpretation of the scanner: no assertion failure is reachable'}
            rep.check(ok, 'R13.1', '%s|index|%d|%s' % (fk, ord_, cfg), C.where(body, blk),
                      'index %s is guarded (line %s)' % (op_str(t['index']), det.get('guard_line')),
                      'the index `%s` of this slice access is not covered by a dominating `< len()` / is_empty() / starts_with guard: out-of-bounds panic on '
                      'untrusted input' % (body.local_name(key[1]) if key and key[0] == 'local' and body.local_name(key[1]) else op_str(t['index'])))
        ord_ = 0
        for blk, t in body.iter_terms('call'):
            c = t['callee']
            if c.get('name') != 'index' or 'slice' not in (c.get('resolved') or c.get('def') or ''):
                if c.get('name') == 'index' and 'str' in (c.get('resolved') or '') and 'slice' not in (c.get('resolved') or ''):
                    n_sites += 1
                    rep.bad('R13.1', '%s|str-slice|%s' % (fk, cfg), C.where(body, blk),
                            'a `str` is sliced by byte offsets: panics when the offset is not a char boundary (non-ASCII input is legal in comments)')
                continue
            rng = body.trace(t['args'][1])
            if rng.get('kind') != 'aggr' or 'Range' not in rng['rv'].get('adt', ''):
                continue
            n_sites += 1
            ord_ += 1
            q = op_place(t['args'][0])
            sid = B.ref_origin(q['l']) if q and not q.get('p') else None
            adt = rng['rv']['adt'].split('::')[-1]
            ops = rng['rv']['ops']
            bounds_ops = {'Range': ops, 'RangeFrom': ops[:1], 'RangeTo': ops[:1], 'RangeInclusive': ops, 'RangeToInclusive': ops[:1]}.get(adt, ops)
            bad = []
            for o in bounds_ops:
                k = B.key_of(o)
                if k is None:
                    bad.append('bound %s has no analysable origin' % op_str(o))
                elif k[0] == 'const':
                    if k[1] == 0:
                        continue
                    ok, _ = B.proves(blk, ('const', k[1] - 1), sid)
                    if not ok:
                        bad.append('constant bound %s without a guard len >= %s' % (k[1], k[1]))
                else:
                    ok, why = B.cursor_le_len(k[1], sid)
                    if not ok:
                        # an Option payload of a search?
                        tr = body.trace(o)
                        bad.append('bound `%s` is not proved <= len: %s' % (body.local_name(k[1]) or op_str(o), '; '.join(why)))
            if adt == 'Range' and len(ops) == 2 and not bad:
                ka, kb = B.key_of(ops[0]), B.key_of(ops[1])
                if ka and kb and ka[0] == 'const' and ka[1] != 0 and kb[0] == 'local':
                    bad.append('start %s may exceed end `%s`' % (ka[1], body.local_name(kb[1]) or kb[1]))
            if bad and fk in panic_free_scanner_bodies(crate):
                bad = []       # every feasible path through this slice expression was interpreted (R13.7): no reachable out-of-range
            rep.check(not bad, 'R13.1', '%s|range|%d|%s' % (fk, ord_, cfg), C.where(body, blk), 'range slice %s bounds are covered' % adt,
                      'range slice can panic on untrusted input: %s' % '; '.join(bad))
        for blk, t in body.iter_terms('call'):
            nm = t['callee'].get('name')
            if nm in ('unwrap', 'expect', 'unwrap_err', 'expect_err', 'split_at', 'copy_from_slice', 'split_first_unchecked') and not t.get('mac'):
                n_sites += 1
                ok = fk in UNWRAP_OK and nm in ('unwrap',)
                rep.check(ok, 'R13.1', '%s|%s|%s' % (fk, nm, cfg), C.where(body, blk), 'listed: %s' % UNWRAP_OK.get(fk),
                          'a panicking call (%s) in the parser that is not in the discharged table' % nm)
            if nm in ('panic', 'begin_panic', 'panic_fmt', 'unreachable', 'panic_explicit') or 'panicking' in (t['callee'].get('def') or ''):
                if t.get('mac') and ('unreachable' in t['mac'] or 'panic' in t['mac'] or 'todo' in t['mac'] or 'assert' in t['mac']):
                    n_sites += 1
                    if fk in panic_free_scanner_bodies(crate):
                        # an assertion inside an interpreted scanner / lexical helper: every feasible path through it was evaluated (R13.7 / R13.13),
                        # a reachable failure would have been reported there as a `panic` outcome
                        rep.ok('R13.1', '%s|explicit-panic|%s' % (fk, cfg), C.where(body, blk),
                               'assertion (%s) evaluated on every feasible path by the scanner interpretation: it cannot fail' % t['mac'])
                    else:
                        rep.bad('R13.1', '%s|explicit-panic|%s' % (fk, cfg), C.where(body, blk), 'explicit panic (%s) in the parser' % t['mac'])
    rep.floor('R13.1', 25, 'index / range / unwrap sites in idl::parse')


def sub_parser_calls(crate, body):
    """calls that run a sub-parser on the input: local parser fns and winnow's parse_next"""
    out = []
    for blk, t in body.iter_terms('call'):
        c = t['callee']
        d = c.get('def') or ''
        nm = c.get('name')
        if d.startswith(MOD) and crate.by_path.get(d) is not None and 'ModalResult' in (crate.by_path[d].d.get('ret_ty') or '') or \
                d.startswith(MOD) and 'Result' in (crate.by_path.get(d).d.get('ret_ty') if crate.by_path.get(d) else '') and nm != 'parse_from_str':
            out.append((blk, t, nm))
        elif nm == 'parse_next' and 'winnow' in (c.get('trait') or d):
            out.append((blk, t, 'parse_next'))
        elif t['callee'].get('indirect') is not None and 'ModalResult' in (t['dest'].get('ty') or '') + 'Result<' * 0:
            out.append((blk, t, 'indirect'))
    return out


def propagated(body, t):
    """is the call's result fed to `?` (Try::branch) or returned as is?"""
    dl = t['dest']['l']
    if dl == 0:
        return True
    for b2, t2 in body.iter_terms('call'):
        if t2['callee'].get('name') == 'branch' and 'Try' in (t2['callee'].get('trait') or ''):
            tr = body.trace(t2['args'][0])
            if tr.get('kind') == 'call' and tr.get('term') is t:
                return True
            if tr.get('kind') == 'call' and tr['callee'].get('name') in ('map', 'map_err', 'into') and tr['args']:
                tr2 = body.trace(tr['args'][0])
                if tr2.get('kind') == 'call' and tr2.get('term') is t:
                    return True
    for b2, i2, s2 in body.iter_assigns():
        if s2['place']['l'] == 0 and s2['rv']['k'] == 'use':
            tr = body.trace(s2['rv']['op'])
            if tr.get('kind') == 'call' and tr.get('term') is t:
                return True
    return False


def check_error_discipline(rep, crate, cfg):
    n = 0
    always_ok = {}
    for body in parser_bodies(crate):
        if body.name in ALWAYS_OK_HELPERS and body.kind == 'Fn':
            errs = [x for x in C.ok_err_of_return_sites(body) if x[2] != 'Ok']
            always_ok[body.path] = not errs
            rep.check(not errs, 'R13.2', '%s|always-ok|%s' % (body.path, cfg), body.where(), 'helper never returns Err (its result may be ignored)',
                      'helper %s is treated as infallible by its callers but can return Err' % body.name)
    for body in parser_bodies(crate):
        fk = body.path
        ord_ = 0
        for blk, t, kind in sub_parser_calls(crate, body):
            if propagated(body, t):
                continue
            ord_ += 1
            n += 1
            args = (t['callee'].get('args') or '')
            d = t['callee'].get('def') or ''
            reason = None
            if kind == 'parse_next' and re.search(r'winnow::token::literal|token::Literal|literal::', args):
                reason = 'literal(..) probe (does not consume on failure)'
            elif kind == 'parse_next' and 'multispace0' in args:
                reason = 'multispace0 (cannot fail)'
            elif d in always_ok and always_ok[d]:
                reason = 'always-Ok helper'
            if reason:
                rep.ok('R13.2', '%s|unpropagated|%d|%s' % (fk, ord_, cfg), C.where(body, blk), 'result not propagated: %s' % reason)
                continue
            # must restore from a checkpoint on the Err edge
            dl = t['dest']['l']
            err_edge = None
            for sw in range(body.n):
                if body.is_cleanup(sw) or body.term(sw)['k'] != 'switch':
                    continue
                info = body.switch_info(sw)
                if info and info.get('kind') == 'discr' and not info['place'].get('p') and info['place']['l'] in body.slice_back([info['place']['l']])[0]:
                    locs, _ = body.slice_back([info['place']['l']])
                    if dl in locs or info['place']['l'] == dl:
                        if (info['place'].get('ty') or '').startswith(('std::result::Result<', 'core::result::Result<')):
                            err_edge = (sw, info['arms'].get(1, info['otherwise']), info['arms'].get(0))
            restores = []
            for b2, i2, s2 in body.iter_assigns():
                p = s2['place']
                if p.get('p') == ['*'] and 1 <= p['l'] <= body.arg_count and s2['rv']['k'] == 'use':
                    q = op_place(s2['rv']['op'])
                    tr = body.trace(s2['rv']['op'])
                    if q and place_is_local(q) and tr.get('kind') == 'place' and tr['place'].get('p') == ['*'] and tr['place']['l'] == p['l']:
                        # the saved copy: a named local assigned `*input` in a block dominating the call
                        cur = q['l']
                        for _ in range(4):
                            sd = body.single_def(cur)
                            if sd and sd[2] == 'assign' and sd[3]['rv']['k'] == 'ref' and sd[3]['rv']['place'].get('p') == ['*']:
                                cur = sd[3]['rv']['place']['l']
                                continue
                            if not sd or sd[2] != 'assign' or sd[3]['rv']['k'] != 'use':
                                break
                            q2 = op_place(sd[3]['rv']['op'])
                            if q2 and q2.get('p') == ['*'] and q2['l'] == p['l']:
                                if body.dominates(sd[0], blk):
                                    restores.append(b2)
                                break
                            if q2 and place_is_local(q2):
                                cur = q2['l']
                            else:
                                break
            ok = False
            det = {}
            if err_edge and restores:
                sw, et, okt = err_edge
                exits = set(body.returns()) | {h for a, h in body.back_edges()}
                r = body.reachable(et, avoid=set(restores))
                leaks = bool((r & set(body.returns()))) or any(h in r for a, h in body.back_edges())
                # leaving the loop without restore also counts: successors outside err region reaching Ok
                det = {'restore_sites': len(restores), 'err_edge_reaches_exit_without_restore': leaks}
                ok = not leaks
            rep.check(ok, 'R13.2', '%s|unpropagated|%d|%s' % (fk, ord_, cfg), C.where(body, blk),
                      'Err edge restores the input from a checkpoint taken before the call on every path',
                      'the error of this sub-parser is swallowed while the input may already be advanced (no restore from a checkpoint on every path of the Err '
                      'edge): the text consumed by the failed attempt is silently skipped' + ('' if err_edge else ' [no match on the result found]'), det)
    rep.floor('R13.2', 8, 'unpropagated sub-parser results')


def check_progress(rep, crate, cfg):
    n = 0
    for body in parser_bodies(crate):
        bes = body.back_edges()
        if not bes:
            continue
        consuming = set()
        for blk, t, kind in sub_parser_calls(crate, body):
            d = t['callee'].get('def') or ''
            nm = d.split('::')[-1]
            if kind == 'parse_next':
                args = t['callee'].get('args') or ''
                if 'multispace0' in args or re.search(r'take_while', args) and '0' in args:
                    continue
                if re.search(r'literal|Literal', args) and not propagated(body, t):
                    continue      # a probe: consumes only when it succeeds, and the caller may not depend on it
                consuming.add(blk)
            elif nm not in NON_CONSUMING and kind != 'indirect':
                consuming.add(blk)
        for b2, i2, s2 in body.iter_assigns():
            p = s2['place']
            if p.get('p') == ['*'] and 1 <= p['l'] <= body.arg_count and s2['rv']['k'] == 'use':
                tr = body.trace(s2['rv']['op'])
                if tr.get('kind') == 'call' and tr['callee'].get('name') == 'index':
                    rng = body.trace(tr['args'][1])
                    if rng.get('kind') == 'aggr' and 'RangeFrom' in rng['rv'].get('adt', ''):
                        o = rng['rv']['ops'][0]
                        if o.get('k') == 'const' and (o.get('val') or 0) >= 1 or op_place(o):
                            consuming.add(b2)
            if place_is_local(p) and body.local_name(p['l']) and s2['rv']['k'] == 'use':
                tr = body.trace(s2['rv']['op'])
                if tr.get('kind') == 'bin' and tr['op'] == 'Add' and tr['b'].get('k') == 'const' and (tr['b'].get('val') or 0) >= 1:
                    ta = op_place(tr['a'])
                    if ta and ta['l'] == p['l']:
                        consuming.add(b2)
        # explicit no-progress exits: Eq(len(input), saved_len) -> break
        for (a, h) in sorted(set(bes)):
            n += 1
            lb = body.loop_body(h, a)
            noprog = False
            for sw in lb:
                if body.term(sw)['k'] != 'switch':
                    continue
                info = body.switch_info(sw)
                if info and info.get('kind') == 'cmp' and info['op'] in ('Eq', 'Ne'):
                    ta, tb = info['a'], info['b']
                    if any(x.get('kind') == 'call' and x['callee'].get('name') == 'len' for x in (ta, tb)):
                        exit_edge = info['true'] if info['op'] == 'Eq' else info['false']
                        if exit_edge not in lb or True:
                            noprog = True
            # cycle without consumption?
            seen, work = set(), [h]
            cyc = False
            while work:
                x = work.pop()
                if x in seen:
                    continue
                seen.add(x)
                if x in consuming:
                    continue
                for s in body.succ(x):
                    if s not in lb:
                        continue
                    if s == h and x in lb:
                        cyc = True
                    work.append(s)
            rep.check(noprog or not cyc, 'R13.3', '%s|loop@%s|%s' % (body.path, sorted(lb).index(h) if h in lb else 0, cfg) + '|%d' % n, C.where(body, h),
                      'every cycle of this loop passes a consuming step%s' % (' (explicit no-progress exit)' if noprog else ''),
                      'this loop has a cycle that consumes no input and no no-progress exit: the parser can loop forever on some input')
    rep.floor('R13.3', 8, 'loops in idl::parse')


def check_entry(rep, crate, cfg):
    pf = [b for b in parser_bodies(crate) if b.name == 'parse_from_str' and b.kind == 'Fn']
    if not pf:
        rep.bad('R13.4', 'anchor|%s' % cfg, '-', 'parse_from_str not found')
        return
    body = pf[0]
    oks = [(b, i) for b, i, s in body.iter_assigns() if s['place']['l'] == 0 and s['rv']['k'] == 'aggr' and s['rv'].get('variant') == 'Ok']
    bad = []
    for b, i in oks:
        fine = False
        for sw, tgt in body.control_deps_closure(b):
            info = body.switch_info(sw)
            if info and info.get('kind') == 'bool' and info['src'].get('kind') == 'call' and info['src']['callee'].get('name') == 'is_empty' and tgt == info['true']:
                fine = True
            if info and info.get('kind') == 'cmp' and info['op'] == 'Eq' and any(x.get('kind') == 'call' and x['callee'].get('name') == 'len' for x in (info['a'], info['b'])) \
                    and tgt == info['true']:
                fine = True
        if not fine:
            bad.append(C.where(body, b, i))
    rep.check(bool(oks) and not bad, 'R13.4', '%s|ok-only-when-input-exhausted|%s' % (body.path, cfg), body.where(),
              'Ok is returned only on the "remaining input is empty" edge', 'the entry function can return Ok with unparsed input left: %s' % bad)


def check_conservation(rep, crate, cfg):
    n = 0
    for body in parser_bodies(crate):
        if body.kind != 'Fn':
            continue
        accs = {}
        for blk, t in body.iter_terms('call'):
            if t['callee'].get('name') == 'push' and 'Vec' in (t['callee'].get('def') or ''):
                q = op_place(t['args'][0])
                if q:
                    sd = body.single_def(q['l'])
                    if sd and sd[2] == 'assign' and sd[3]['rv']['k'] == 'ref' and place_is_local(sd[3]['rv']['place']):
                        v = sd[3]['rv']['place']['l']
                        if body.local_name(v):
                            accs.setdefault(v, set()).add(blk)
        if not accs:
            continue
        watch = {}
        for v, blocks in accs.items():
            watch['push:%d' % v] = blocks
            moved = set()
            carriers = {v}
            changed = True
            while changed:
                changed = False
                for blk, i, s in body.iter_assigns():
                    if place_is_local(s['place']) and s['place']['l'] not in carriers and not body.local_name(s['place']['l']) and s['rv']['k'] == 'use' and \
                            s['rv']['op'].get('k') == 'move' and place_is_local(s['rv']['op']['place']) and s['rv']['op']['place']['l'] in carriers:
                        carriers.add(s['place']['l'])
                        changed = True
            for blk, t in body.iter_terms('call'):
                if t['callee'].get('name') == 'push' and blk in blocks:
                    continue
                for a in t['args']:
                    if a.get('k') == 'move' and place_is_local(a['place']) and a['place']['l'] in carriers:
                        moved.add(blk)
            for blk, i, s in body.iter_assigns():
                if s['place']['l'] in carriers and place_is_local(s['place']):
                    continue
                for o in mir.rv_operands(s['rv']):
                    if o.get('k') == 'move' and place_is_local(o['place']) and o['place']['l'] in carriers:
                        moved.add(blk)
            watch['move:%d' % v] = moved
        watch['ok'] = set(C.ok_exit_blocks(body))
        try:
            paths = PS.explore(body, 0, set(), watch)
        except RuntimeError as e:
            rep.bad('R13.6', '%s|explore|%s' % (body.path, cfg), body.where(), str(e))
            continue
        okp = [p for p in paths if 'ok' in p[1]]
        for v in sorted(accs):
            n += 1
            name = body.local_name(v)
            dropped = [p for p in okp if ('push:%d' % v) in p[1] and ('move:%d' % v) not in p[1]]
            rep.check(not dropped, 'R13.6', '%s|accumulator|%s|%s' % (body.path, name, cfg), body.where(),
                      'on every feasible Ok path on which `%s` received elements it is moved into the result (%d Ok path states)' % (name, len(okp)),
                      'elements parsed into `%s` are dropped on a feasible Ok path: the parser accepts the text while ignoring part of it' % name,
                      {'ok_paths': len(okp), 'dropping_paths': len(dropped)})
    rep.floor('R13.6', 3, 'accumulators in parser functions')


CLASS_CALLS = {'is_ascii_alphanumeric', 'is_ascii_alphabetic', 'is_ascii_uppercase', 'is_ascii_lowercase', 'is_ascii_digit'}


def check_name_endings(rep, crate, cfg):
    """R13.5: a name scanner can only stop right after a byte that passed an alphanumeric class test (separators such as
    `.`, `-`, `_` only ever stand between alphanumeric characters in the Varlink grammar)"""
    n = 0
    for body in parser_bodies(crate):
        if body.kind != 'Fn':
            continue
        # the returned name: &start[0..cursor]
        finals = []
        for blk, t in body.iter_terms('call'):
            if t['callee'].get('name') == 'index':
                rng = body.trace(t['args'][1])
                if rng.get('kind') == 'aggr' and rng['rv'].get('adt', '').endswith('ops::Range') and rng['rv']['ops'][0].get('val') == 0:
                    q = op_place(rng['rv']['ops'][1])
                    if q and place_is_local(q):
                        k = Bounds(body).key_of(rng['rv']['ops'][1])
                        if k and k[0] == 'local' and body.local_name(k[1]):
                            finals.append((blk, k[1]))
        if not finals:
            continue
        fblk, cur = finals[0]
        incs = []
        for b2, i2, s2 in body.iter_assigns():
            if place_is_local(s2['place']) and s2['place']['l'] == cur and s2['rv']['k'] == 'use':
                tr = body.trace(s2['rv']['op'])
                if tr.get('kind') == 'bin' and tr['op'] == 'Add':
                    incs.append((tr.get('block', b2), b2))
        # class-test facts: switch whose condition is a class call on input[cur]
        class_true = []
        for sw in range(body.n):
            if body.is_cleanup(sw) or body.term(sw)['k'] != 'switch':
                continue
            info = body.switch_info(sw)
            if info and info.get('kind') == 'bool' and info['src'].get('kind') == 'call' and info['src']['callee'].get('name') in CLASS_CALLS:
                class_true.append((sw, info['true'], info['false']))
            elif info and info.get('kind') == 'bool' and info['src'].get('kind') == 'call' and info['src']['callee'].get('name') in ('is_some_and', 'map_or', 'is_ok_and') and \
                    any(a.get('k') == 'const' and any(cn in (a.get('fn') or '') for cn in CLASS_CALLS) for a in info['src']['args']):
                class_true.append((sw, info['true'], info['false']))
        certified, uncertified = set(), []
        for cb, sb in incs:
            ok = False
            for sw, tt, ff in class_true:
                if body.dominates(sw, cb) and cb in body.reachable(tt) and cb not in body.reachable(ff, avoid={sw}):
                    # the cursor is not changed between the test and this increment
                    kills = {d[0] for d in body.defs().get(cur, [])} - {sb}
                    if not any(kb in body.reachable(tt, avoid={sw}) and cb in body.reachable(kb, avoid={sw}) for kb in kills):
                        ok = True
            if ok:
                certified.add(sb)
            else:
                uncertified.append((cb, sb))
        # post-scan check idiom: the Ok return is dominated by the true edge of a class test outside every loop
        okb = C.ok_exit_blocks(body)
        loops = set()
        for a, h in body.back_edges():
            loops |= body.loop_body(h, a)
        post_check = any(sw not in loops and (body.dominates(fblk, sw) or all(body.dominates(sb_, sw) for cb_, sb_ in incs[:1]) and False) and all(body.dominates(sw, ob) and ob in body.reachable(tt) and ob not in body.reachable(ff, avoid={sw}) for ob in okb)
                         for sw, tt, ff in class_true) and bool(okb)
        ord_ = 0
        for cb, sb in uncertified:
            ord_ += 1
            n += 1
            r = body.reachable(sb, avoid=certified)
            ends_there = fblk in r
            rep.check(not ends_there or post_check, 'R13.5', '%s|separator-advance|%d|%s' % (body.path, ord_, cfg), C.where(body, sb),
                      'after this advance over a byte not known to be alphanumeric the name cannot end (%s)' % ('final alphanumeric check before Ok' if post_check else 'an alphanumeric byte must follow'),
                      'the scanner advances over a byte that is only known to be a separator and can then stop: `%s` accepts names that end with a separator '
                      '(e.g. a trailing `.`, `-` or `_`), which the Varlink grammar does not allow' % body.name)
        for sb in sorted(certified):
            n += 1
            rep.ok('R13.5', '%s|class-advance|%d|%s' % (body.path, sorted(certified).index(sb), cfg), C.where(body, sb), 'advance over a byte that passed an alphanumeric class test')
    if n < 4:
        rep.bad('R13.5', 'floor|%s' % cfg, '-', 'expected cursor advances in the name scanners (field_name, type_name, interface_name), found %d' % n)


# The Varlink grammar's lexical rules (https://varlink.org/Interface-Definition), as regular expressions over bytes.
SCANNERS = {
    'idl::parse::interface_name': (r'[A-Za-z](-*[A-Za-z0-9])*(\.[A-Za-z0-9](-*[A-Za-z0-9])*)+', 'interface_name'),
    'idl::parse::type_name': (r'[A-Z][A-Za-z0-9]*', 'name (types, methods, errors)'),
    'idl::parse::field_name': (r'[A-Za-z](_?[A-Za-z0-9])*', 'field_name'),
}
# bytes that can follow a name in a legal text: white space and the grammar's punctuation
FOLLOW = frozenset(b' \t\r\n():,#?[]->')
BAD_KINDS = {
    'unsound': 'accepts a name outside the grammar',
    'incomplete': 'rejects a legal name',
    'cut': 'cuts a legal name short',
    'consume': 'consumes a different number of bytes than the name it returns',
    'bad-start': 'returns a name that does not start at the cursor',
    'panic': 'can panic',
}


def scanner_candidates(crate):
    out = []
    for b in parser_bodies(crate):
        if b.d.get('kind') != 'Fn' or not re.match(r'(std|core)::result::Result<&str', b.d.get('ret_ty') or ''):
            continue
        locs = b.d['locals']
        if b.d.get('arg_count') == 1 and len(locs) > 1 and locs[1]['ty'] == '&mut &[u8]':
            out.append(b)
    return out


_SCAN_CACHE = {}


def _scan(crate, path):
    import scanner as SC
    ck = (id(crate), path)
    if ck not in _SCAN_CACHE:
        body = {b.path: b for b in scanner_candidates(crate)}.get(path)
        if body is None:
            _SCAN_CACHE[ck] = None
        else:
            try:
                sc, outs = SC.analyse(crate, body, SCANNERS[path][0], follow=FOLLOW)
                _SCAN_CACHE[ck] = (sc, outs, None)
            except SC.Unsupported as e:
                _SCAN_CACHE[ck] = (None, [], str(e))
    return _SCAN_CACHE[ck]


def check_scanners(rep, crate, cfg, rule='R13.7', prefix=''):
    """abstract interpretation of the name scanners against the grammar's regular expressions (rules/scanner.py)"""
    import scanner as SC
    cands = {b.path: b for b in scanner_candidates(crate)}
    for path in sorted(set(cands) - set(SCANNERS)):
        rep.bad(rule, '%s%s|no-reference-language|%s' % (prefix, path, cfg), cands[path].where(),
                'byte scanner %s returns a name but has no entry in the table of lexical rules: its language is unchecked' % path)
    n = 0
    for path, (regex, what) in SCANNERS.items():
        body = cands.get(path)
        if body is None:
            rep.bad(rule, '%s%s|anchor|%s' % (prefix, path, cfg), '-', 'scanner %s (fn(&mut &[u8]) -> Result<&str, _>) not found' % path)
            continue
        sc, outs, err = _scan(crate, path)
        if err is not None:
            rep.bad(rule, '%s%s|not-modelled|%s' % (prefix, path, cfg), body.where(),
                    'the scanner uses a construct the abstract interpretation does not model (%s): its accepted language cannot be compared with /%s/' % (err, regex))
            continue
        n += 1
        kinds = {}
        for o in outs:
            kinds.setdefault(o.kind, []).append(o)
        detail = {'regex': regex, 'abstract_states': sc.n_states, 'merged': sc.n_merged, 'forks': sc.n_forks, 'inlined': sorted(sc.inlined),
                  'returns': {k: len(v) for k, v in sorted(kinds.items())}, 'stopped_after_enough_counterexamples': sc.stopped_early}
        for kind, why in BAD_KINDS.items():
            hits = kinds.get(kind, [])
            shortest = min(hits, key=lambda o: len(o.detail)) if hits else None
            rep.check(not hits, rule, '%s%s|%s|%s' % (prefix, path, kind, cfg), body.where(),
                      '%s never %s (%d abstract states, %d returns examined against /%s/)' % (path.split('::')[-1], why, sc.n_states, len(outs), regex),
                      '%s %s: %s  [%d such paths]' % (path.split('::')[-1], why, shortest.detail if shortest else '', len(hits)), detail=detail)
        rep.check(bool(kinds.get('ok')) and bool(kinds.get('err')), rule, '%s%s|both-verdicts|%s' % (prefix, path, cfg), body.where(),
                  'the exploration reaches Ok and Err returns', 'the exploration does not reach both an Ok and an Err return: vacuous')
    return n


LEXICAL = {'ws', 'whitespace_only', 'comment_def'}
# the white-space / comment helpers as consumers of a reference language (engine L in `skip` mode): what each may consume, longest match
LEXICAL_RULES = {
    'idl::parse::ws': ('([ \t\r\n]|#[^\r\n]*)*', '`_` of the grammar: white space, line breaks and `#` comments up to the end of their line'),
    'idl::parse::whitespace_only': ('[ \t\r\n]*', 'white space and line breaks, no comments'),
    'idl::parse::comment_def': ('#[^\n]*', 'one comment: `#` and the rest of its line, the line break left in place; the text starts after the blanks that follow `#`'),
}
# the returned text of a comment starts where the longest match of this prefix ends (Display writes `# text`; blanks after `#` are not text)
LEXICAL_MARKERS = {'idl::parse::comment_def': '#[ \t]*'}
SKIP_BAD_KINDS = {
    'text-start': 'returns a comment text that does not start right after the blanks following `#`',
    'unsound': 'consumes bytes outside its language',
    'incomplete': 'fails on an input that begins with a word of its language',
    'cut': 'stops before the end of the longest match',
    'consume': 'returns a text that does not end where the consumed input ends',
    'panic': 'can panic',
}
_SKIP_CACHE = {}


def check_lexical_helpers(rep, crate, cfg, rule='R13.13', prefix=''):
    """abstract interpretation of ws / whitespace_only / comment_def as consumers of their reference languages"""
    import scanner as SC
    bodies = {b.path: b for b in crate.bodies if not b.in_test}
    n = 0
    for path, (regex, what) in LEXICAL_RULES.items():
        body = bodies.get(path)
        shown = regex.replace('\t', '\\t').replace('\r', '\\r').replace('\n', '\\n')
        if body is None:
            rep.bad(rule, '%s%s|anchor|%s' % (prefix, path, cfg), '-', 'lexical helper %s (fn(&mut &[u8])) not found' % path)
            continue
        ck = (id(crate), path)
        if ck not in _SKIP_CACHE:
            try:
                sc, outs = SC.analyse(crate, body, regex, mode='skip', marker=LEXICAL_MARKERS.get(path))
                _SKIP_CACHE[ck] = (sc, outs, None)
            except SC.Unsupported as e:
                _SKIP_CACHE[ck] = (None, [], str(e))
        sc, outs, err = _SKIP_CACHE[ck]
        if err is not None:
            rep.bad(rule, '%s%s|not-modelled|%s' % (prefix, path, cfg), body.where(),
                    'the helper uses a construct the abstract interpretation does not model (%s): what it consumes cannot be compared with /%s/' % (err, shown))
            continue
        n += 1
        kinds = {}
        for o in outs:
            kinds.setdefault(o.kind, []).append(o)
        detail = {'regex': shown, 'abstract_states': sc.n_states, 'merged': sc.n_merged, 'forks': sc.n_forks,
                  'returns': {k: len(v) for k, v in sorted(kinds.items())}}
        for kind, why in SKIP_BAD_KINDS.items():
            hits = kinds.get(kind, [])
            shortest = min(hits, key=lambda o: len(o.detail)) if hits else None
            rep.check(not hits, rule, '%s%s|%s|%s' % (prefix, path, kind, cfg), body.where(),
                      '%s never %s (%d abstract states, %d returns examined against /%s/)' % (path.split('::')[-1], why, sc.n_states, len(outs), shown),
                      '%s %s: %s  [%d such paths]' % (path.split('::')[-1], why, (shortest.detail if shortest else '').replace('\t', '\\t').replace('\r', '\\r').replace('\n', '\\n'), len(hits)), detail=detail)
        rep.check(bool(kinds.get('ok')), rule, '%s%s|reaches-ok|%s' % (prefix, path, cfg), body.where(),
                  'the exploration reaches Ok returns', 'the exploration reaches no Ok return: vacuous')
    return n
SEARCH_NAMES = {'position', 'rposition', 'find', 'find_map', 'any', 'all', 'contains', 'windows', 'split', 'splitn', 'rsplit', 'iter_position', 'memchr', 'memrchr', 'memmem'}


def check_no_byte_search(rep, crate, cfg, rule='R13.9'):
    """phrase-level parsers decide by parsing tokens, never by searching the raw bytes ahead (blind to comments and nesting)"""
    lexical = set(LEXICAL) | {p.split('::')[-1] for p in SCANNERS}
    for path in SCANNERS:
        r = _scan(crate, path)
        if r is not None and r[0] is not None:
            lexical |= {p.split('::')[2] for p in r[0].inlined if p.startswith(MOD)}
    n = 0
    hits = []
    for b in parser_bodies(crate):
        owner = b.path.split('::')[2] if len(b.path.split('::')) > 2 else b.name
        for blk, t in b.iter_terms('call'):
            c = t['callee']
            p = c.get('resolved') or c.get('def') or ''
            nm = c.get('name')
            on_bytes = ('slice' in p or 'memchr' in p or 'Iter<' in p or 'u8' in (c.get('args') or '')) and 'winnow' not in p
            if nm in SEARCH_NAMES and on_bytes and not t.get('mac'):
                n += 1
                if owner not in lexical:
                    hits.append((b, blk, nm))
    seen = set()
    for b, blk, nm in hits:
        key = '%s|byte-search|%s|%s' % (b.path.split('::{')[0], nm, cfg)
        if key in seen:
            continue
        seen.add(key)
        rep.bad(rule, key, C.where(b, blk),
                'the parser function %s decides by searching the unparsed bytes (`%s`) instead of parsing tokens: the search is blind to comments and to nesting, so a `:` or `)` inside '
                'a comment or an inner type changes the decision and a legal text is rejected or misread' % (b.path.split('::')[2], nm))
    rep.check(not hits, rule, 'phrase-parsers|no-byte-search|%s' % cfg, 'zlink-core/src/idl/parse/mod.rs',
              'content searches over raw bytes occur only in the lexical helpers %s (%d such calls)' % (sorted(lexical), n),
              '%d phrase-level byte searches' % len(hits))


COMMENT_BLIND = {'whitespace_only'}
MEMBER_START = {'field_name'}


def check_member_start_after_comments(rep, crate, cfg, rule='R13.10'):
    """a member (field / parameter / variant) can be preceded by comment lines: the nearest parser step before a member-name scan is never a
    comment-blind white-space skip"""
    n = 0
    for b in parser_bodies(crate):
        if b.kind != 'Fn':
            continue
        sites = [(blk, t) for blk, t in b.iter_terms('call') if (t['callee'].get('def') or '').startswith(MOD) and t['callee'].get('name') in MEMBER_START]
        for blk, t in sites:
            n += 1
            # nearest preceding parser calls on every path
            seen, work, nearest = set(), list(b.pred(blk)), set()
            while work:
                x = work.pop()
                if x in seen:
                    continue
                seen.add(x)
                tx = b.term(x)
                if tx['k'] == 'call':
                    d = tx['callee'].get('def') or ''
                    nm = tx['callee'].get('name')
                    if d.startswith(MOD) and b.crate.by_path.get(d) is not None and nm not in ('bytes_to_str',):
                        nearest.add((nm, x))
                        continue
                    if nm == 'parse_next':
                        a = tx['callee'].get('args') or ''
                        nearest.add(('multispace' if 'multispace' in a else 'token', x))
                        continue
                work.extend(b.pred(x))
            blind = sorted(nm for nm, x in nearest if nm in COMMENT_BLIND or nm == 'multispace')
            rep.check(not blind, rule, '%s|member-start|%s|%s' % (b.path, ','.join(sorted({nm for nm, x in nearest})), cfg), C.where(b, blk),
                      'the member name is scanned after %s' % sorted({nm for nm, x in nearest}),
                      'in %s a member name is scanned right after the comment-blind skip `%s`: a comment line placed before that member (legal, and written there by Display) '
                      'makes the scan fail and the text is rejected or misclassified' % (b.name, blind[0] if blind else ''))
    return n



def check_grammar(fx, rep, rule='R13.11'):
    """engine M (rules/grammar.py): the token language of the phrase-level parser, extracted from its syntax tree, lies between what the
    property demands (L_min) and the Varlink grammar (L_max), for the recursive type production and for the whole interface"""
    import ast as A
    import grammar as G
    where = 'zlink-core/src/idl/parse/mod.rs'
    fns = {}
    for fn, n, info in A.all_fns(fx.tpl, 'idl/parse/'):
        if '/tests' in fn or fn.endswith('tests.rs'):
            continue
        fns[n['name']] = n
    scanners = {}
    atoms = {'interface_name': 'IN', 'type_name': 'TN', 'field_name': 'FN'}
    for path in SCANNERS:
        nm = path.split('::')[-1]
        if nm in fns and nm in atoms:
            scanners[nm] = atoms[nm]
    if len(scanners) != 3:
        rep.bad(rule, 'anchor|scanners', where, 'the three name scanners %s are not all present in the parser module: found %s' % (sorted(atoms), sorted(scanners)))
        return
    probe = G.Extractor(fns, scanners)
    parser_fns = sorted(n for n in fns if probe.is_parser_fn(n) and n not in scanners and n not in G.LEXICAL)
    # call graph among the phrase-level parser functions (any mention of a parser fn inside a body)
    graph = {}
    for n in parser_fns:
        refs = set()
        for x in A.nodes(fns[n]['body']):
            t = None
            if x.get('k') == 'path':
                t = x['text']
            elif x.get('k') == 'call':
                t = x['func'] if isinstance(x['func'], str) else A.text(x['func'])
            if t:
                b = t.split('::<')[0].split('::')[-1]
                if b in parser_fns:
                    refs.add(b)
        graph[n] = refs
    # the recursive cycle and its entry
    def reach(a):
        seen, st = set(), [a]
        while st:
            x = st.pop()
            for y in graph.get(x, ()):
                if y not in seen:
                    seen.add(y)
                    st.append(y)
        return seen
    rec = {n for n in parser_fns if n in reach(n)}

    def acyclic_without(v):
        g = {a: {b for b in graph[a] if b != v and b in rec} for a in rec if a != v}
        state = {}

        def dfs(x):
            state[x] = 1
            for y in g.get(x, ()):
                if state.get(y) == 1 or (state.get(y) is None and not dfs(y)):
                    return False
            state[x] = 2
            return True
        return all(state.get(x) == 2 or dfs(x) for x in g)
    # the type nonterminal: the one function every recursive cycle of the parser goes through
    feedback = sorted(v for v in rec if acyclic_without(v))
    entries = sorted(n for n in feedback if any(n in graph[m] for m in parser_fns if m != n))
    if len(feedback) != 1:
        rep.bad(rule, 'anchor|type-entry', where, 'expected one function through which every recursive cycle of the parser goes (the type production), found %s '
                '(recursive functions: %s)' % (feedback, sorted(rec)))
        return
    cut = feedback[0]
    fx._c13_type_entry = cut
    # entry of the module: the non-parser function taking the text and returning the interface
    tops = sorted(n for n, f in fns.items() if not probe.is_parser_fn(n) and 'Interface' in (f.get('sig') or '').split('->')[-1] and 'str' in (f.get('sig') or '').split('->')[0])
    if len(tops) != 1:
        rep.bad(rule, 'anchor|entry', where, 'expected exactly one entry function (&str -> Result<Interface, _>) in the parser module, found %s' % tops)
        return
    ref = G.reference()
    for prod, start in (('type', cut), ('interface', tops[0])):
        ex = G.Extractor(fns, scanners, cut=cut)
        try:
            if prod == 'type':
                ex.stack.append(('<top>', {}))
                ex.stack.pop()
            r = ex.fn_lang(start)
            if ex.trim:
                r = G.cat(G.star(G.S), r)
        except G.Unmodelled as e:
            rep.bad(rule, '%s|extract' % prod, where, 'the %s production cannot be extracted from %s: %s (constructs outside the modelled set - winnow combinators, `?`, '
                    'if/match on parser results, loops - fail closed)' % (prod, start, e))
            continue
        except RecursionError:
            rep.bad(rule, '%s|extract' % prod, where, 'extraction of the %s production does not terminate' % prod)
            continue
        try:
            w1 = G.included(ref[prod][0], r)
            w2 = G.included(r, ref[prod][1])
        except G.Unmodelled as e:
            rep.bad(rule, '%s|compare' % prod, where, str(e))
            continue
        nfun = len(ex.memo)
        rep.check(w1 is None, rule, '%s|accepts-what-the-grammar-requires' % prod, where,
                  'every token string the property requires for the %s production (white space between any two tokens, comment lines before the interface / members / fields / variants) '
                  'is accepted by the extracted parser language (%d functions inlined from %s)' % (prod, nfun, start),
                  'the parser rejects a legal text: the token string  %s  is required by the grammar but is not in the language extracted from %s' % (G.word(w1 or []), start),
                  detail={'witness': w1})
        rep.check(w2 is None, rule, '%s|accepts-nothing-else' % prod, where,
                  'every token string accepted by the extracted parser language of the %s production is in the Varlink grammar (with `_` = white space / comment)' % prod,
                  'the parser accepts a text outside the grammar: the token string  %s  is accepted by %s but is not derivable in the Varlink grammar' % (G.word(w2 or []), start),
                  detail={'witness': w2})


def check_empty_inline(fx, rep, rule='R13.12'):
    """an inline type without members, `()`, denotes the empty struct: in every ordered choice (`alt`) of the parser that leads to the production building
    Type::Object, the struct production accepts `( )` and no alternative tried before it does (engine M decides the membership)"""
    import ast as A
    import grammar as G
    where = 'zlink-core/src/idl/parse/mod.rs'
    fns = {}
    for fn, n, info in A.all_fns(fx.tpl, 'idl/parse/'):
        if '/tests' in fn or fn.endswith('tests.rs'):
            continue
        fns[n['name']] = n
    atoms = {'interface_name': 'IN', 'type_name': 'TN', 'field_name': 'FN'}
    scanners = {nm: atoms[nm] for nm in atoms if nm in fns}
    probe = G.Extractor(fns, scanners)
    pf = [n for n in fns if probe.is_parser_fn(n) and n not in scanners and n not in G.LEXICAL]
    def constructs(n, ctor):
        for x in A.nodes(fns[n]['body']):
            f_ = x.get('func') if x.get('k') == 'call' else x.get('text') if x.get('k') == 'path' else None
            f_ = f_ if isinstance(f_, str) else A.text(f_) if f_ else ''
            if re.sub(r'\s', '', f_).endswith(ctor):
                return True
        return False
    builds_obj = {n for n in pf if constructs(n, 'Type::Object')}
    builds_enum = {n for n in pf if constructs(n, 'Type::Enum')}
    if not builds_obj or not builds_enum:
        rep.bad(rule, 'anchor|constructors', where, 'the parser functions building Type::Object / Type::Enum were not found (found %s / %s)' % (sorted(builds_obj), sorted(builds_enum)))
        return
    empty = G.cat(G.lit('('), G.lit(')'))
    cut = getattr(fx, '_c13_type_entry', None)
    if cut is None:
        rep.bad(rule, 'anchor|type-entry', where, 'the recursive type production was not identified (see R13.11)')
        return

    def accepts_empty(name):
        ex = G.Extractor(fns, scanners, cut=cut)
        ex.stack.append(('<top>', {}))
        try:
            r = ex.fn_lang(name)
        finally:
            ex.stack.pop()
        return G.included(empty, r) is None
    n_alt = 0
    for host in pf:
        for x in A.nodes(fns[host]['body']):
            if x.get('k') != 'call':
                continue
            fnm = (x['func'] if isinstance(x['func'], str) else A.text(x['func'])).split('::<')[0].split('::')[-1]
            if fnm != 'alt' or not x.get('args'):
                continue
            inner = x['args'][0]
            elems = inner['elems'] if inner.get('k') in ('tuple', 'array') else [inner]
            names = []
            for e in elems:
                e0 = e
                while isinstance(e0, dict) and e0.get('k') == 'mcall':
                    e0 = e0.get('recv')
                names.append((e0.get('text') or '').split('::')[-1] if isinstance(e0, dict) and e0.get('k') == 'path' else None)
            objs = [i for i, nm in enumerate(names) if nm in builds_obj]
            if not objs:
                continue
            n_alt += 1
            i0 = objs[0]
            try:
                ok_struct = accepts_empty(names[i0])
                before = [nm for nm in names[:i0] if nm is None or (nm in fns and accepts_empty(nm))]
            except (G.Unmodelled, RecursionError) as e:
                rep.bad(rule, '%s|alt-%d|extract' % (host, n_alt), '%s:%s' % (where, x.get('line')), 'the alternatives of this ordered choice cannot be extracted: %s' % e)
                continue
            rep.check(ok_struct, rule, '%s|struct-accepts-empty' % host, '%s:%s' % (where, x.get('line')),
                      '%s (builds Type::Object) accepts the member-less `( )`' % names[i0],
                      '%s, the production that builds Type::Object, does not accept `( )`: the empty inline type falls through to a later alternative and is not '
                      'parsed as the empty struct it denotes (unit `()` / unit structs are described this way)' % names[i0])
            rep.check(not before, rule, '%s|empty-claimed-by-struct' % host, '%s:%s' % (where, x.get('line')),
                      'no alternative tried before %s accepts `( )`' % names[i0],
                      'ordered choice: %s is tried before %s and accepts `( )`, so the empty inline type never reaches the struct production and is built as something '
                      'else than the empty struct it denotes' % (before, names[i0]))
    if not n_alt:
        rep.bad(rule, 'anchor|alt', where, 'no ordered choice leading to the struct production found')


def check(fx, rep, tier):
    rep.rule('R13.9', 'phrase-level parser functions never search the unparsed bytes ahead (position / contains / find ...): such look-ahead is blind to comments and nesting; only the lexical helpers inspect raw bytes')
    rep.rule('R13.10', 'the nearest parser step before every member-name scan is comment-aware (ws / parse_preceding_comments) or a token, never the comment-blind white-space skip')
    rep.rule('R13.7', 'the name scanners accept exactly the grammar\'s lexical rules: abstract interpretation of the scanner MIR over an unknown input '
             '(byte-class knowledge per position, window-relative positions) in lock-step with the DFA of the rule; every Ok return is in the '
             'language and consumes exactly the name, no Err / shorter Ok is possible for an input whose name is legal, no assertion can fail')
    rep.rule('R13.13', 'white space and comments are skipped exactly as the grammar says: abstract interpretation of ws / whitespace_only / comment_def as consumers '
             '(same engine as R13.7, winnow\'s literal / take_while / multispace parsers modelled natively) in lock-step with the DFA of what each may consume; '
             'every Ok return has consumed a word of the language and the longest one, no Err for an input that begins with one, no assertion can fail')
    rep.rule('R13.8', 'a line comment is confined to its line (rule R14.7 of C14): otherwise an empty `#` line swallows the following member, which then is missing from the tree')
    rep.rule('R13.5', 'name scanners can stop only right after a byte that passed an alphanumeric class test, or check the last byte before returning Ok')
    rep.rule('R13.1', 'every index / range slice / unwrap in idl::parse is discharged: dominating len / is_empty / starts_with guards, inductive cursors, frozen unwrap table; no str byte-slicing')
    rep.rule('R13.2', 'no parse error is dropped with the input advanced: unpropagated results are probes / infallible or restore a checkpoint on every Err path')
    rep.rule('R13.3', 'every loop cycle passes a consuming step or the loop has an explicit no-progress exit')
    rep.rule('R13.4', 'the entry function returns Ok only when no input remains')
    rep.rule('R13.6', 'every accumulator that received parsed elements is moved into the result on every feasible Ok path')
    rep.rule('R13.11', 'phrase level: the token language of the parser functions (extracted from their syntax trees: sequencing, `?`, forks on parser results, loops as '
             'right-linear equations, winnow combinators) lies between what the property requires and the Varlink grammar, by regular-language inclusion, '
             'for the recursive type production and for the interface production')
    check_grammar(fx, rep)
    rep.floor('R13.11', 4, 'grammar inclusion verdicts (2 productions x 2 directions)')
    rep.rule('R13.12', 'an inline type without members, `( )`, is parsed as the empty struct it denotes: the production building Type::Object accepts it and no alternative of an '
             'ordered choice tried before that production does')
    check_empty_inline(fx, rep)
    rep.floor('R13.12', 2, 'ordered choice leading to the struct production (2 obligations)')
    cfgs = ['full'] + (['nostd'] if tier == 'thorough' else [])
    nsc = 0
    nms = 0
    for cfg in cfgs:
        crate = fx.crate('zlink_core', cfg)
        if not parser_bodies(crate):
            rep.bad('R13.1', 'anchor|%s' % cfg, '-', 'module idl::parse not found in this configuration')
            continue
        check_bounds(rep, crate, cfg)
        check_error_discipline(rep, crate, cfg)
        check_progress(rep, crate, cfg)
        check_entry(rep, crate, cfg)
        check_conservation(rep, crate, cfg)
        # R13.5 (names end alphanumeric) is implied by the exact verdict of R13.7 whenever the interpretation covers all scanners; the pattern rule
        # stays as the fallback for a scanner the interpreter cannot model
        interp = [_scan(crate, p_) for p_ in SCANNERS]
        if all(r_ is not None and r_[2] is None for r_ in interp):
            rep.ok('R13.5', 'name-scanners|subsumed-by-R13.7|%s' % cfg, 'zlink-core/src/idl/parse/mod.rs',
                   'all name scanners are interpreted exactly against the lexical rules (R13.7): a name ending in a separator would be an `unsound` verdict there', nontrivial=False)
        else:
            check_name_endings(rep, crate, cfg)
        nsc += check_scanners(rep, crate, cfg)
        check_lexical_helpers(rep, crate, cfg)
        if cfg == 'full':
            import c14
            c14.check_comment_confined(rep, crate, 'R13.8')
        check_no_byte_search(rep, crate, cfg)
        nms += check_member_start_after_comments(rep, crate, cfg)
    rep.floor('R13.7', 21, 'scanner verdict instances (3 scanners x 7)')
    rep.floor('R13.13', 21, 'lexical helper verdict instances (3 helpers x 7)')
    rep.floor('R13.10', 2, 'member-name scan sites')
    return META
