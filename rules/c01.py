"""C01 - inbound framing independent of fragmentation (structural clauses R01.1 - R01.4)."""
import mir
from mir import op_place, op_str, place_fields, place_is_local
import common as C

RC = 'read_connection::ReadConnection'

META = {
    'level': 'other',
    'explanation': (
        'Static analysis of the MIR of ReadConnection (all feature configs analysed): the structural necessary conditions '
        'of frame-exact reception are decided on every path: (R01.1) the message cursor and the end of the slice handed to '
        'the JSON decoder are derived, on every def-chain, from a search for the NUL terminator over the receive buffer; '
        '(R01.2) the transport is read only when no complete frame is buffered, a 0-byte read returns end-of-stream before '
        'the cursor moves, the read loop is left / re-entered only through the "last received byte is NUL" test; '
        '(R01.3) the sentinel NUL is written on every path from a read-cursor advance to the Ok exit and the reader tests '
        'the byte after the terminator against the same constant; (R01.4) buffer growth-when-full precedes the sentinel '
        'store. This decides the shape of the code, not that the sequence of results equals the sequence of frames for '
        'every partition (runtime values - not decidable statically).'),
    'assumptions': [
        'rustc MIR construction is faithful to the source',
        'serde_json decodes exactly the slice it is given',
        'frames are non-empty (as the property states)',
    ],
}


def find_cursor(fx, rep, crate):
    """anchor: the field of ReadConnection that is the start of the slice handed to the JSON decoder"""
    found = []
    for body in C.expanded_impl_bodies(crate, RC):
        for b, t in body.iter_terms('call'):
            n = mir.callee_name(t)
            if 'serde_json' in n and ('from_slice' in n or 'from_str' in n):
                # trace arg -> Index::index(&buffer, Range{start,end})
                tr = body.trace(t['args'][0])
                if tr.get('kind') == 'call' and 'index' in (tr['callee'].get('name') or ''):
                    rng = body.trace(tr['args'][1])
                    base_field = C.trace_field(body, tr['args'][0], RC)
                    if rng.get('kind') == 'aggr' and 'Range' in rng['rv'].get('adt', ''):
                        ops = rng['rv']['ops']
                        start_field = C.trace_field(body, ops[0], RC)
                        found.append({'body': body, 'block': b, 'term': t, 'range': rng['rv'], 'buffer_field': base_field,
                                      'cursor_field': start_field, 'index_call': tr})
                    else:
                        found.append({'body': body, 'block': b, 'term': t, 'range': None, 'buffer_field': base_field,
                                      'cursor_field': None, 'index_call': tr})
                else:
                    found.append({'body': body, 'block': b, 'term': t, 'range': None, 'buffer_field': None, 'cursor_field': None})
    return found


def search_calls(crate, body, buffer_field):
    """calls that search the receive buffer for the terminator: Iterator::position / memchr / find with a
    closure comparing to const 0, whose receiver derives from the buffer field"""
    out = []
    for b, t in body.iter_terms('call'):
        c = t['callee']
        name = c.get('name') or ''
        d = c.get('def') or ''
        if name in ('position', 'rposition', 'find', 'iter_position') or 'memchr' in d:
            ok_closure = False
            if 'memchr' in d:
                ok_closure = mir.op_is_const(t['args'][0], 0)
            else:
                for a in t['args']:
                    tr = body.trace(a)
                    if tr.get('kind') == 'aggr' and tr['rv'].get('kind') == 'closure':
                        cb = crate.by_path.get(tr['rv']['def'])
                        if cb is not None:
                            for bb, i, s in cb.iter_assigns():
                                rv = s['rv']
                                if rv['k'] == 'bin' and rv['op'] == 'Eq' and (mir.op_is_const(rv['a'], 0) or mir.op_is_const(rv['b'], 0)):
                                    ok_closure = True
            # receiver derives from the buffer field
            seeds = [l for a in t['args'] for l in ([op_place(a)['l']] if op_place(a) else [])]
            locs, events = body.slice_back(seeds)
            from_buf = False
            for ev in events:
                if ev[0] == 'assign':
                    for q in mir.rv_places_read(ev[3]['rv']):
                        if any(n == buffer_field and adt and RC in adt for adt, n in place_fields(q)):
                            from_buf = True
            if ok_closure and from_buf:
                out.append((b, t))
    return out


def derives_from(body, seed_locals, target_defs, memo=None, stack=None):
    """D(l): on every def-chain, the value of local l depends on one of target_defs (set of (block,'term'))."""
    memo = {} if memo is None else memo
    defs = body.defs()

    def D(l, stack):
        if l in memo:
            return memo[l]
        if l in stack:
            return False
        stack = stack | {l}
        ds = [d for d in defs.get(l, []) if d[2] != 'partial']
        if not ds:
            memo[l] = False
            return False
        res = True
        for (b, i, kind, payload) in ds:
            if (b, i) in target_defs:
                continue
            if kind == 'call':
                ok = any(op_place(a) and D(op_place(a)['l'], stack) for a in payload['args'])
            elif kind == 'yield':
                ok = False
            else:
                rv = payload['rv']
                ok = False
                for q in mir.rv_places_read(rv):
                    if D(q['l'], stack):
                        ok = True
                        break
            if not ok:
                res = False
                break
        memo[l] = res
        return res

    return all(D(l, frozenset()) for l in seed_locals)


def check_crate(fx, rep, crate, tag):
    anchors = find_cursor(fx, rep, crate)
    rep.rule('R01.1', 'the frame end is located by a search for the NUL terminator on every path: every non-constant store to '
                      'the message cursor, and the end of the slice handed to the JSON decoder, derive from that search on all '
                      'def-chains (accepted search idioms: Iterator::position/find with a closure comparing to 0, memchr(0, ..) '
                      'over a slice of the receive buffer)')
    rep.rule('R01.2', 'read-loop guards: (a) the transport read is unreachable while a complete frame is buffered, (b) a 0-byte '
                      'read returns end-of-stream before the read cursor advances, (c) after an advance the loop goes back to '
                      'the transport / leaves with Ok only through the "last received byte is NUL" test')
    rep.rule('R01.3', 'sentinel pairing: the sentinel NUL store at buffer[read cursor] lies on every path from a read-cursor '
                      'advance to the Ok exit; the reader decides "last frame" by comparing the byte after the terminator with 0')
    rep.rule('R01.6', 'cursor reset pairing: the message cursor is set to 0 only on paths that also set the read cursor to 0 (buffer declared empty); the read loop\'s early return relies on it')
    rep.rule('R01.7', 'received bytes are never dropped: between a non-empty transport read and the read-cursor advance the function cannot return')
    rep.rule('R01.8', 'end-of-stream is reported only where the transport reported it: Error::UnexpectedEof is constructed only in the receive path of ReadConnection '
                      '(0-byte read / no terminator in the received bytes), never by an error conversion or another module')
    rep.rule('R01.4', 'growth-when-full (len test + extend) lies between every read-cursor advance and the sentinel store, so '
                      'buffer[read cursor] exists')
    dec = [a for a in anchors if a['cursor_field']]
    if not dec:
        for a in anchors:
            rep.bad('R01.1', '%s|decoder-slice|%s' % (a['body'].path, tag), C.where(a['body'], a['block']),
                    'the JSON decoder is not given a [cursor..end] range slice of the receive buffer; cannot anchor the message cursor',
                    {'arg': op_str(a['term']['args'][0])})
        if not anchors:
            rep.bad('R01.1', 'anchor|%s' % tag, '-', 'no serde_json from_slice call found in ReadConnection: anchor lost')
        return
    cursor = dec[0]['cursor_field']
    buffer_field = dec[0]['buffer_field']
    # every decoder call site must be a bounded range derived from the search
    for a in anchors:
        body = a['body']
        key = '%s|decoder-slice-end|%s' % (body.path, tag)
        if not a['range'] or len(a['range']['ops']) < 2:
            rep.bad('R01.1', key, C.where(body, a['block']),
                    'the slice handed to the JSON decoder is not bounded by the terminator position (open-ended or unrecognised slice)',
                    {'slice': op_str(a['term']['args'][0])})
            continue
        searches = search_calls(crate, body, buffer_field)
        tdefs = {(b, 'term') for b, t in searches}
        end_op = a['range']['ops'][1]
        p = op_place(end_op)
        ok = bool(p) and bool(tdefs) and derives_from(body, [p['l']], tdefs)
        rep.check(ok, 'R01.1', key, C.where(body, a['block']),
                  'end of the decoded slice derives from the terminator search on every def-chain',
                  'end of the slice handed to the JSON decoder does not derive from a terminator search on every path',
                  {'end': op_str(end_op), 'searches': [C.where(body, b) for b, _ in searches]})
    # stores to the cursor
    n_stores = 0
    for body in C.expanded_impl_bodies(crate, RC):
        searches = None
        ordinal = 0
        for b, i, s in C.expand_phi_stores(body, C.field_stores(body, RC, cursor)):
            n_stores += 1
            rv = s['rv']
            if rv['k'] == 'use' and mir.op_is_const(rv['op']):
                # constant store (reset / initialisation) -> R01.3 reader-side test below
                if body.kind == 'AssocFn' and body.name == 'new':
                    continue
                cds = body.control_deps_closure(b)
                ok = False
                why = None
                if searches is None:
                    searches = search_calls(crate, body, buffer_field)
                tdefs = {(bb, 'term') for bb, t in searches}
                for (sw, succ) in cds:
                    info = body.switch_info(sw)
                    if not info or info.get('kind') != 'cmp' or info['op'] not in ('Eq', 'Ne'):
                        continue
                    for side, other in (('a', 'b'), ('b', 'a')):
                        if info[other].get('kind') == 'const' and info[other].get('val') == 0:
                            # the compared value must be a buffer element at an index derived from the search
                            src = info[side + '_op']
                            q = op_place(src)
                            if not q:
                                continue
                            locs, events = body.slice_back([q['l']])
                            idx_ok = False
                            for ev in events:
                                if ev[0] == 'call' and (ev[2]['callee'].get('name') or '') in ('index', 'get', 'get_unchecked'):
                                    ia = ev[2]['args'][1] if len(ev[2]['args']) > 1 else None
                                    ip = op_place(ia) if ia else None
                                    if ip and tdefs and derives_from(body, [ip['l']], tdefs):
                                        idx_ok = True
                                elif ev[0] == 'assign':
                                    # `slice[i]` on a plain slice is a projection, not a call (the buffer handed to a helper as `&[u8]`)
                                    for q_ in mir.rv_places_read(ev[3]['rv']):
                                        for e_ in (q_.get('p') or []):
                                            if isinstance(e_, dict) and isinstance(e_.get('idx'), int) and tdefs and derives_from(body, [e_['idx']], tdefs):
                                                idx_ok = True
                            if idx_ok:
                                ok = True
                                why = C.where(body, sw)
                rep.check(ok, 'R01.3', '%s|cursor-reset|%d|%s' % (body.path, ordinal, tag), C.where(body, b, i),
                          'cursor reset is control dependent on "byte after the located terminator == 0"',
                          'cursor reset to 0 is not guarded by a test of the byte after the located terminator against the sentinel',
                          {'guard': why})
                ordinal += 1
                continue
            if searches is None:
                searches = search_calls(crate, body, buffer_field)
            tdefs = {(bb, 'term') for bb, t in searches}
            seeds = [q['l'] for q in mir.rv_places_read(rv)]
            ok = bool(tdefs) and derives_from(body, seeds, tdefs)
            rep.check(ok, 'R01.1', '%s|cursor-store|%d|%s' % (body.path, ordinal, tag), C.where(body, b, i),
                      'message cursor advance derives from the terminator search on every def-chain',
                      'message cursor is advanced by a value that does not derive from a search for the NUL terminator on every '
                      'path (e.g. a decoder byte offset): a frame that fails to decode or carries padding desynchronises the stream',
                      {'value': mir.rv_str(rv), 'searches_in_function': [C.where(body, bb) for bb, _ in searches]})
            ordinal += 1
    rep.floor('R01.1', 2, 'decoder-slice + cursor-store instances')

    # ---- R01.2 / R01.3 / R01.4 : the function containing the ReadHalf::read call
    readers = []
    for body in C.expanded_impl_bodies(crate, RC):
        for b, t in C.calls_to(body, trait='socket::ReadHalf', name='read'):
            readers.append((body, b, t))
    if not readers:
        rep.bad('R01.2', 'anchor|%s' % tag, '-', 'no call to ReadHalf::read in ReadConnection: anchor lost')
        return
    for body, rb, rt in readers:
        fk = body.path
        # read cursor field: the start of the RangeFrom slice passed to read
        tr = body.trace(rt['args'][1])
        read_cursor = None
        if tr.get('kind') == 'call':
            rng = body.trace(tr['args'][1])
            if rng.get('kind') == 'aggr':
                read_cursor = C.trace_field(body, rng['rv']['ops'][0], RC)
        if not read_cursor:
            read_cursor = C.read_cursor_of(body, rt, RC)
        if not read_cursor:
            rep.bad('R01.2', '%s|read-arg|%s' % (fk, tag), C.where(body, rb), 'the buffer handed to ReadHalf::read is not buffer[read cursor..]')
            continue
        # ---- R01.6 the message cursor is reset to 0 only together with the read cursor ("buffer empty"); the early return
        # `message cursor > 0` relies on: message cursor == 0  =>  no complete frame is buffered
        n6 = 0
        for wb in crate.bodies:
            if wb.in_test:
                continue
            zero_m = [(b, i, st) for b, i, st in C.expand_phi_stores(wb, C.field_stores(wb, RC, cursor)) if st['rv']['k'] == 'use' and mir.op_is_const(st['rv']['op'], 0)]
            if not zero_m:
                continue
            zero_r = [b for b, i, st in C.expand_phi_stores(wb, C.field_stores(wb, RC, read_cursor)) if st['rv']['k'] == 'use' and mir.op_is_const(st['rv']['op'], 0)]
            for b, i, st in zero_m:
                n6 += 1
                paired = any(wb.dominates(rb_, b) or wb.postdominates(rb_, b) or rb_ == b for rb_ in zero_r)
                if not paired:
                    # `let last = ..; m = if last {0} else {..}; if last { r = 0 }`: both resets hang on the same unchanged condition
                    mine = C.cond_ids(wb, b)
                    paired = any(mine and C.cond_ids(wb, rb_) and C.cond_ids(wb, rb_) <= mine | C.cond_ids(wb, rb_) and (C.cond_ids(wb, rb_) & mine) for rb_ in zero_r)
                rep.check(paired, 'R01.6', '%s|cursor-reset-pairing|%d|%s' % (wb.path, n6, tag), C.where(wb, b, i),
                          'the message cursor is reset together with the read cursor',
                          'the message cursor is set to 0 while the read cursor is not reset on the same path: `message cursor == 0` then no longer means "no complete frame is buffered", '
                          'and the next receive waits for the transport although complete frames are pending (or treats a partial frame as empty)')
                # ... and only behind the sentinel test: "the byte after this frame's terminator is 0" is the one fact that says nothing else is buffered.
                # A reset on any other condition (a frame that failed to decode, say) throws away the frames that were read along with this one
                sent_edges = set()
                for sw_ in range(wb.n):
                    if wb.is_cleanup(sw_) or wb.term(sw_)['k'] != 'switch':
                        continue
                    inf_ = wb.switch_info(sw_)
                    if not inf_ or inf_.get('kind') != 'cmp' or inf_['op'] not in ('Eq', 'Ne'):
                        continue
                    sides = [inf_['a'], inf_['b']]
                    ops_ = [inf_.get('a_op') or {}, inf_.get('b_op') or {}]
                    zero_side = [k_ for k_ in (0, 1) if sides[k_].get('kind') == 'const' and sides[k_].get('val') == 0]
                    if not zero_side:
                        continue
                    oth = ops_[1 - zero_side[0]]
                    oty = (mir.op_place(oth) or {}).get('ty') or oth.get('ty') or ''
                    if oty != 'u8':
                        continue
                    sent_edges.add((sw_, inf_['true'] if inf_['op'] == 'Eq' else inf_['false']))
                if sent_edges:
                    seen_, work_ = set(), [0]
                    while work_:
                        x_ = work_.pop()
                        if x_ in seen_:
                            continue
                        seen_.add(x_)
                        for s_ in wb.succ(x_):
                            if (x_, s_) not in sent_edges:
                                work_.append(s_)
                    rep.check(b not in seen_, 'R01.6', '%s|reset-only-behind-the-sentinel-test|%d|%s' % (wb.path, n6, tag), C.where(wb, b, i),
                              'the cursors are reset only on the edge where the byte after the terminator is 0 (nothing else is buffered)',
                              'the message cursor can be reset to 0 without the sentinel test having said that no further frame is buffered: complete frames that arrived in the same '
                              'read are thrown away (e.g. together with a frame that failed to decode), so later receives return other frames than were sent, or wait for new bytes')
        if not n6:
            rep.bad('R01.6', 'anchor|%s' % tag, '-', 'no reset of the message cursor found')
        # (a) guard on message cursor (any spelling of `message cursor == 0`)
        ok_a = False
        is_cursor = lambda tr, op: tr.get('kind') == 'place' and any(n == cursor for _, n in tr.get('fields', []))
        for sw, zero_edge, buffered_edge, _x in C.zero_switches(body, is_cursor):
            if not body.dominates(sw, rb):
                continue
            # from the "frames buffered" edge the read call must be unreachable
            if rb not in body.reachable(buffered_edge):
                ok_a = True
        rep.check(ok_a, 'R01.2', '%s|a-buffered-frames-first|%s' % (fk, tag), C.where(body, rb),
                  'transport read is unreachable while the message cursor says a complete frame is buffered',
                  'transport is read although a complete frame may already be buffered (no dominating message-cursor test)')
        # result of the read: the Continue payload
        def identity_store(s_, b_=None, i_=None):
            # `field = field` (one component of a tuple assignment that leaves this cursor as it is), or a store of a local that provably already equals
            # the field (`self.read_pos = self.read_batch(..).await?` where the helper wrote the same value back after every step)
            if s_['rv']['k'] != 'use':
                return False
            if C.trace_field(body, s_['rv']['op'], RC) == read_cursor:
                return True
            q_ = op_place(s_['rv']['op'])
            if q_ and place_is_local(q_) and b_ is not None and isinstance(i_, int):
                import eqfacts
                return any(f[0] == q_['l'] and f[1] == read_cursor for f in eqfacts.at(body, RC, b_, i_) if f[0] != '=')
            return False
        advances = [(b, i, s) for b, i, s in C.expand_phi_stores(body, C.field_stores(body, RC, read_cursor))
                    if not (s['rv']['k'] == 'use' and mir.op_is_const(s['rv']['op'])) and not identity_store(s, b, i)]
        if not advances:
            rep.bad('R01.2', '%s|advance|%s' % (fk, tag), C.where(body, rb),
                    'no store advancing the read cursor field after ReadHalf::read: progress is not recorded in the connection')
            continue
        ab = advances[0][0]
        # (b) EOF test
        ok_b = False
        eof_sites = [b for b, i, s in C.aggr_adt_sites(body, 'error::Error', 'UnexpectedEof')]
        count_tests = []

        def from_read(tr, op):
            q = op_place(op)
            if not q:
                return False
            locs, events = body.slice_back([q['l']])
            return any(ev[0] == 'call' and ev[1] == rb for ev in events)
        for sw, zero_edge, nz_edge, _x in C.zero_switches(body, from_read):
            r0 = body.reachable(zero_edge)
            if any(e in r0 for e in eof_sites) and ab not in r0 and rb not in r0 and body.dominates(sw, ab):
                ok_b = True
                count_tests.append((sw, nz_edge))
        rep.check(ok_b, 'R01.2', '%s|b-eof|%s' % (fk, tag), C.where(body, rb),
                  '0-byte read returns UnexpectedEof and the test dominates the read-cursor advance',
                  'no "bytes read == 0 => end-of-stream" test dominating the read cursor advance')
        # R01.7 every byte the transport handed over is recorded: from the "bytes read != 0" edge no exit is reachable without the advance
        n7 = 0
        for sw, nz_edge in count_tests:
            n7 += 1
            r = body.reachable(nz_edge, avoid={ab})
            leaks = [e for e in body.returns() if e in r and not body.is_cleanup(e)]
            rep.check(not leaks, 'R01.7', '%s|received-bytes-recorded|%s' % (fk, tag), C.where(body, leaks[0]) if leaks else C.where(body, ab),
                      'after a non-empty transport read every path records the bytes (read cursor advance) before the function can return',
                      'the function can return between a non-empty transport read and the read-cursor advance (an error check on the freshly read bytes, an early exit): '
                      'the bytes just received are dropped from the stream and the following frames are corrupted', {'exit': [C.where(body, e) for e in leaks[:3]]})
        if not n7:
            rep.bad('R01.7', '%s|received-bytes-recorded|%s' % (fk, tag), C.where(body, rb), 'no test of the read count dominating the read-cursor advance: cannot establish that received bytes are recorded')
        # (c) terminator test governs loop exit and loop continuation
        term_tests = []
        for sw in range(body.n):
            if body.is_cleanup(sw) or body.term(sw)['k'] != 'switch':
                continue
            info = body.switch_info(sw)
            if not info or info.get('kind') != 'cmp' or info['op'] not in ('Eq', 'Ne'):
                continue
            if not (info['b'].get('kind') == 'const' and info['b'].get('val') == 0):
                continue
            q = op_place(info['a_op'])
            if not q:
                continue
            locs, events = body.slice_back([q['l']])
            reads_buf = False
            for ev in events:
                if ev[0] == 'call' and (ev[2]['callee'].get('name') or '') in ('index', 'get', 'last', 'ends_with', 'contains', 'position', 'get_unchecked'):
                    if C.trace_field(body, ev[2]['args'][0], RC) == buffer_field:
                        reads_buf = True
            if reads_buf and ab in body.reachable(0) and sw in body.reachable(ab):
                nul_edge = info['true'] if info['op'] == 'Eq' else info['false']
                other_edge = info['false'] if info['op'] == 'Eq' else info['true']
                term_tests.append((sw, nul_edge, other_edge))
        ok_exits = [b for b, i, v, s in C.ok_err_of_return_sites(body) if v == 'Ok' and b in body.reach_from_succ(ab)]
        if not ok_exits:
            # the result is produced by a combinator (`msg.map(..).map_err(Into::into)`): a return value of unknown variant may be Ok
            ok_exits = [b for b, i, v, s in C.ok_err_of_return_sites(body) if v == 'other' and b in body.reach_from_succ(ab)]
        ok_c = False
        detail = {}
        for sw, nul_edge, other_edge in term_tests:
            # Ok exit reachable from the advance only via the NUL edge; read reachable again only via the other edge
            r_no_nul = C.reachable_without_edge(body, ab, (sw, nul_edge))
            r_no_other = C.reachable_without_edge(body, ab, (sw, other_edge))
            exit_guarded = all(e not in (r_no_nul - {ab}) or e == ab for e in ok_exits) and bool(ok_exits)
            loop_guarded = rb not in (r_no_other - {ab})
            detail = {'test': C.where(body, sw), 'ok_exit_only_via_nul_edge': exit_guarded, 'reread_only_via_not_nul_edge': loop_guarded}
            if exit_guarded and loop_guarded:
                ok_c = True
                break
        rep.check(ok_c, 'R01.2', '%s|c-terminator-test|%s' % (fk, tag), C.where(body, ab),
                  'after a read-cursor advance, Ok is returned only when the last received byte is NUL and the transport is read '
                  'again only when it is not',
                  'after a read-cursor advance the loop can return Ok without, or read the transport again despite, a NUL as the '
                  'last received byte (frames would be left behind / requested while buffered)', detail)
        # R01.3 sentinel store on every path advance -> Ok exit
        def origin(op):
            tr = body.trace(op)
            if tr.get('kind') == 'bin':
                return ('bin', tr.get('block'), tr.get('stmt'))
            if tr.get('kind') == 'local':
                return ('local', tr.get('l'))
            return None

        adv_origins = {origin(s_['rv']['op']) for b_, i_, s_ in advances if s_['rv']['k'] == 'use'} - {None}

        def same_as_advance(op):
            # `let filled = read_pos + n; self.read_pos = filled; buffer[filled] = 0`: the index is the very value stored to the read cursor
            o = origin(op)
            return o is not None and o in adv_origins
        sent = []
        for b, i, s in body.iter_assigns():
            rv = s['rv']
            if rv['k'] == 'use' and mir.op_is_const(rv['op'], 0) and s['place'].get('p'):
                # (*tmp) = 0 where tmp = index_mut(&mut buffer, read_cursor)
                tr2 = body.trace_place({'l': s['place']['l'], 's': '', 'p': None})
                if tr2.get('kind') == 'call' and 'index_mut' in (tr2['callee'].get('name') or ''):
                    if C.trace_field(body, tr2['args'][0], RC) == buffer_field and (C.trace_field(body, tr2['args'][1], RC) == read_cursor or same_as_advance(tr2['args'][1])):
                        sent.append(b)
        ok_s = bool(sent) and bool(ok_exits) and all(C.paths_all_pass(body, ab, e, sent) for e in ok_exits)
        rep.check(ok_s, 'R01.3', '%s|sentinel-store|%s' % (fk, tag), C.where(body, sent[0]) if sent else C.where(body, ab),
                  'sentinel NUL is stored at buffer[read cursor] on every path from the advance to the Ok exit',
                  'there is a path from the read-cursor advance to the Ok exit that does not store the sentinel NUL at buffer[read cursor]')
        # R01.4 growth-when-full before the sentinel store
        ok_g = False
        gdetail = {}
        grow_calls = [b for b, t in body.iter_terms('call') if (t['callee'].get('name') in ('extend', 'resize', 'extend_from_slice', 'reserve', 'push'))
                      and C.trace_field(body, t['args'][0], RC) == buffer_field]
        for sw in range(body.n):
            if body.is_cleanup(sw) or body.term(sw)['k'] != 'switch':
                continue
            info = body.switch_info(sw)
            if not info or info.get('kind') != 'cmp' or info['op'] not in ('Eq', 'Ge', 'Ne', 'Lt'):
                continue
            a_is_rc = (info['a'].get('kind') == 'place' and any(n == read_cursor for _, n in info['a'].get('fields', []))) or same_as_advance(info['a_op'])
            b_is_len = info['b'].get('kind') == 'call' and (info['b']['callee'].get('name') == 'len') and \
                C.trace_field(body, info['b']['args'][0], RC) == buffer_field
            if not (a_is_rc and b_is_len):
                continue
            full_edge = info['true'] if info['op'] in ('Eq', 'Ge') else info['false']
            # on the full edge, growth (or an error return) precedes every sentinel store
            r = body.reachable(full_edge, avoid=set(grow_calls))
            grows_first = all(sb not in r for sb in sent)
            dominated = all(C.paths_all_pass(body, ab, sb, [sw]) for sb in sent)
            gdetail = {'full_test': C.where(body, sw), 'growth_precedes_store_on_full_edge': grows_first, 'test_on_every_path': dominated}
            if grows_first and dominated and sent:
                ok_g = True
        rep.check(ok_g, 'R01.4', '%s|grow-before-sentinel|%s' % (fk, tag), C.where(body, ab),
                  'buffer is grown when full on every path from the advance to the sentinel store',
                  'the sentinel store at buffer[read cursor] can be reached with read cursor == buffer length (index out of bounds)',
                  gdetail)


def check_eof_sites(fx, rep, crate, tag):
    """R01.8 who-may-construct Error::UnexpectedEof"""
    callers = {}
    for b in crate.raw_bodies:
        if b.in_test:
            continue
        for blk, t in b.iter_terms('call'):
            d = t['callee'].get('resolved') or t['callee'].get('def')
            if d and t['callee'].get('local'):
                callers.setdefault(d, set()).add(b)

    def in_receive_path(b, depth=0, seen=None):
        seen = seen or set()
        if b.path in seen or depth > 4:
            return False
        seen.add(b.path)
        if b.impl_self and RC in b.impl_self:
            return True
        root = b.path.split('::{closure')[0]
        cs = callers.get(root, set()) | callers.get(b.path, set())
        return bool(cs) and all(in_receive_path(c, depth + 1, seen) for c in cs)
    n = 0
    for b in crate.bodies:
        if b.in_test:
            continue
        for blk, i, s in C.aggr_adt_sites(b, 'error::Error', 'UnexpectedEof'):
            n += 1
            ok = in_receive_path(b)
            rep.check(ok, 'R01.8', '%s|eof-site|%s' % (b.path.split('::{closure')[0], tag), C.where(b, blk, i),
                      'UnexpectedEof is constructed in the receive path of ReadConnection',
                      'Error::UnexpectedEof is constructed outside the receive path of ReadConnection (%s): a receive can report end-of-stream although the transport '
                      'has not ended - a frame that merely fails to decode is then indistinguishable from the peer closing the stream' % b.path)
    if n == 0:
        rep.bad('R01.8', 'anchor|%s' % tag, '-', 'no construction site of Error::UnexpectedEof found')


def _lin(e, cursor, P):
    """linear form of e over {cursor field, P (the search result), 1}; None when e has another shape"""
    import sym as SY
    if e == P:
        return {'P': 1}
    if e[0] == 'const' and isinstance(e[1], int):
        return {1: e[1]}
    if e[0] == 'field' and e[1][-1] == cursor:
        return {'m': 1}
    if e[0] == 'bin' and e[1] in ('Add', 'Sub'):
        a, b = _lin(e[2], cursor, P), _lin(e[3], cursor, P)
        if a is None or b is None:
            return None
        out = dict(a)
        for k, v in b.items():
            out[k] = out.get(k, 0) + (v if e[1] == 'Add' else -v)
        return {k: v for k, v in out.items() if v}
    return None


def _find(e, pred):
    if isinstance(e, tuple) and e:
        if isinstance(e[0], str) and pred(e):
            return e
        for x in e:
            r = _find(x, pred)
            if r is not None:
                return r
    return None


def check_frame_arithmetic(fx, rep, crate, tag):
    """R01.5: with N = message cursor + (offset returned by the terminator search over buffer[message cursor .. read cursor]),
    the decoder gets buffer[message cursor .. N], the next frame starts at N + 1 and the last-frame test reads buffer[N + 1]"""
    import sym as SY
    anchors = [a for a in find_cursor(fx, rep, crate) if a['cursor_field']]
    if not anchors:
        return
    a = anchors[0]
    body, cursor, buf = a['body'], a['cursor_field'], a['buffer_field']
    fk = body.path
    dec_rng = SY.expr(crate, body, a['index_call']['args'][1])
    if dec_rng[0] != 'adt' or len(dec_rng[3]) != 2:
        rep.bad('R01.5', '%s|decoder-range|%s' % (fk, tag), C.where(body, a['block']), 'the decoder slice is not a [start..end] range')
        return
    start_e, end_e = dec_rng[3]
    P = _find(end_e, lambda x: x[0] == 'payload' and _find(x, lambda y: y[0] == 'call' and y[1] in ('position', 'find', 'memchr')) is not None and
              _find(x[2] if len(x) > 2 else (), lambda y: y[0] == 'payload') is None)
    if P is None:
        P = _find(end_e, lambda x: x[0] in ('payload', 'call') and _find(x, lambda y: y[0] == 'call' and y[1] in ('position', 'find', 'memchr')) is not None)
    if P is None:
        rep.bad('R01.5', '%s|search-result|%s' % (fk, tag), C.where(body, a['block']), 'the end of the decoder slice does not contain a terminator search result')
        return
    # (a) the search range
    srch = _find(P, lambda x: x[0] == 'call' and x[1] == 'index')
    rng = srch[2][1] if srch and len(srch[2]) > 1 else None
    ok_a = bool(rng) and rng[0] == 'adt' and rng[3] and rng[3][0][0] == 'field' and rng[3][0][1][-1] == cursor and \
        (len(rng[3]) == 1 or rng[3][1][0] == 'field')
    rep.check(ok_a, 'R01.5', '%s|search-starts-at-message-cursor|%s' % (fk, tag), C.where(body, a['block']),
              'the terminator search runs over buffer[message cursor .. read cursor]',
              'the terminator search does not start at the message cursor (it can find the terminator of an already delivered frame, or miss the current one): %s' % SY.show(rng or ('unknown', '?')),
              {'range': SY.show(rng or ('unknown', '?'), 200)})
    # (b) decoder slice
    ls, le = _lin(start_e, cursor, P), _lin(end_e, cursor, P)
    rep.check(ls == {'m': 1} and le == {'m': 1, 'P': 1}, 'R01.5', '%s|decoder-slice-is-the-frame|%s' % (fk, tag), C.where(body, a['block']),
              'the decoder gets buffer[message cursor .. message cursor + offset of the terminator]',
              'the slice handed to the JSON decoder is not exactly [message cursor .. message cursor + terminator offset]: start %s, end %s' % (ls, le))
    # (c) cursor advance
    n = 0
    for blk, i, st in C.expand_phi_stores(body, C.field_stores(body, RC, cursor)):
        if st['rv']['k'] != 'use' or st['rv']['op'].get('k') == 'const':
            continue
        n += 1
        e = SY.expr(crate, body, st['rv']['op'])
        l = _lin(e, cursor, P)
        rep.check(l == {'m': 1, 'P': 1, 1: 1}, 'R01.5', '%s|next-frame-starts-after-terminator|%d|%s' % (fk, n, tag), C.where(body, blk, i),
                  'the message cursor advances to (terminator index) + 1',
                  'the message cursor is advanced to %s instead of terminator index + 1 (message cursor + offset + 1): the next frame starts on the terminator or inside the next frame' % (l if l else SY.show(e, 160)))
    if n == 0:
        rep.bad('R01.5', '%s|next-frame-starts-after-terminator|anchor|%s' % (fk, tag), body.where(), 'no non-constant store to the message cursor found')
    # (d) last-frame test index
    ok_d = False
    seen = []
    for blk, t in body.iter_terms('assert'):
        if t['msg'] != 'bounds':
            continue
        e = SY.expr(crate, body, t['index'])
        l = _lin(e, cursor, P)
        seen.append(l)
        if l == {'m': 1, 'P': 1, 1: 1}:
            ok_d = True
    for blk, t in body.iter_terms('call'):
        if t['callee'].get('name') in ('index', 'get', 'get_unchecked') and len(t['args']) == 2 and C.trace_field(body, t['args'][0], RC) == buf:
            e = SY.expr(crate, body, t['args'][1])
            if e[0] == 'adt':
                continue
            l = _lin(e, cursor, P)
            seen.append(l)
            if l == {'m': 1, 'P': 1, 1: 1}:
                ok_d = True
    rep.check(ok_d, 'R01.5', '%s|last-frame-test-reads-byte-after-terminator|%s' % (fk, tag), body.where(),
              'the "last frame" test reads buffer[terminator index + 1] (the sentinel position)',
              'no element access at terminator index + 1: the sentinel that marks "no more buffered frames" is read at the wrong place (indices seen: %s)' % seen)


def check(fx, rep, tier):
    cfgs = [('full', 'full')] + ([('ws', 'ws'), ('nostd', 'nostd')] if tier == 'thorough' else [])
    for cfg, tag in cfgs:
        crate = fx.crate('zlink_core', cfg)
        check_crate(fx, rep, crate, tag)
        check_eof_sites(fx, rep, crate, tag)
        check_frame_arithmetic(fx, rep, crate, tag)
    rep.rule('R01.5', 'frame arithmetic: the search runs over buffer[message cursor..read cursor]; with N = message cursor + its result, the decoder gets '
                      'buffer[message cursor..N], the next frame starts at N + 1, the last-frame test reads buffer[N + 1]')
    import imports as _imp
    _imp.layer(fx, rep, 'C01')
    return META
