"""C03 - the built-in JSON serializer is byte-identical to serde_json's compact output (E1 - E8)."""
import os, re, json, glob, subprocess
import mir
from mir import op_place, op_str
import common as C
import facts as F
import ast as A

META = {
    'level': 'other',
    'explanation': (
        'The serializer is a port of serde_json::ser. Rules: (E1) the 256-entry escape table, const-evaluated by the compiler, '
        'equals the table RFC 8259 prescribes with serde_json\'s short escapes, and equals serde_json\'s own ESCAPE table '
        'evaluated from the source of the version locked in Cargo.lock; every entry is one of the letters the dispatch handles '
        '(precondition of unreachable_unchecked); (E2) the escape dispatch maps each table letter to the CharEscape variant whose '
        'emitted literal is backslash + that letter, \\u00 + two hex digits (>>4, &0xF, HEX_DIGITS = 0123456789abcdef) for '
        'AsciiControl; (E2b) raw string fragments reach the output only from the escape scanner (behind its table test) or from '
        'itoa/ryu number buffers: every write_string_fragment argument is traced to its origin, anything derived from a caller '
        'supplied str/char is a violation; the scanner continues without writing exactly when the table entry is 0 and passes '
        'through write_char_escape otherwise; (E3) of MapKeySerializer\'s methods exactly {str, char, unit_variant, '
        'newtype_struct, i8..i128, u8..u128} reach a write, all others construct the key error and nothing else; (E4) integer '
        'keys are bracketed begin_string .. write_<int> .. end_string on every Ok path; (E5) write_f32/f64 is reached only on the '
        'finite arm of the classify() match, the other arm writes null; (E6) BufferTooSmall is produced only by the slice writer '
        'behind its bound test, to_slice builds a fresh writer at position 0 and returns its final position; (E7) translation '
        'validation of the port against its origin: for every method of the Formatter trait, the Serializer impl, the compound '
        'serializers and the key serializer, the ordered sequence of formatter calls, byte literals and control structure in '
        'zlink\'s source equals that of the same method in serde_json\'s ser.rs (locked version, feature-gated Number/RawValue '
        'arms removed), modulo an explicit table of justified deviations (stricter key refusals); (E8) the outbound framing / '
        'retry-from-scratch rules of C02 hold (same rule code), so output does not depend on free space. Not decided: equality '
        'with serde_json::to_vec for every value (itoa/ryu digits, composition over arbitrary Serialize impls).'),
    'assumptions': ['serde_json (locked version) compact output is the reference', 'itoa / ryu emit only [0-9eE.+-] characters'],
}

RFC = {}
for i in range(256):
    RFC[i] = 0
for i in range(0x20):
    RFC[i] = ord('u')
RFC[0x08], RFC[0x09], RFC[0x0A], RFC[0x0C], RFC[0x0D] = ord('b'), ord('t'), ord('n'), ord('f'), ord('r')
RFC[0x22], RFC[0x5C] = ord('"'), ord('\\')

LETTER_VARIANT = {ord('b'): 'Backspace', ord('t'): 'Tab', ord('n'): 'LineFeed', ord('f'): 'FormFeed', ord('r'): 'CarriageReturn',
                  ord('"'): 'Quote', ord('\\'): 'ReverseSolidus', ord('u'): 'AsciiControl'}
VARIANT_LITERAL = {'Quote': '\\"', 'ReverseSolidus': '\\\\', 'Solidus': '\\/', 'Backspace': '\\b', 'FormFeed': '\\f', 'LineFeed': '\\n',
                   'CarriageReturn': '\\r', 'Tab': '\\t'}
KEY_EMIT = {'serialize_str', 'serialize_char', 'serialize_unit_variant', 'serialize_newtype_struct'} | \
    {'serialize_%s%s' % (s, w) for s in 'iu' for w in ('8', '16', '32', '64', '128')}
KEY_NOT_SERDE = {'collect_str', 'is_human_readable', 'collect_seq', 'collect_map'}

# justified deviations of the port from serde_json (E7): method -> reason
DEVIATIONS = {
    ('ser::Serializer', 'MapKeySerializer', 'serialize_bool'): 'zlink refuses bool keys (statement: keys that are not strings, chars, integers or unit variants are refused)',
    ('ser::Serializer', 'MapKeySerializer', 'serialize_f32'): 'zlink refuses float keys',
    ('ser::Serializer', 'MapKeySerializer', 'serialize_f64'): 'zlink refuses float keys',
    ('ser::Serializer', 'MapKeySerializer', 'serialize_some'): 'zlink refuses Option keys',
    ('ser::Serializer', 'MapKeySerializer', 'serialize_str'): 'calls the escape writer directly instead of via Serializer::serialize_str (same callee)',
    ('trait:Formatter', '', 'write_char_escape'): 'older layout of the same match; compared as a variant -> literal table by E2 instead',
    ('ser::Serializer', 'Serializer', 'collect_str'): 'not ported (default impl)',
    ('ser::SerializeStructVariant', 'Compound', 'serialize_field'): 'delegates to SerializeMap::serialize_entry directly (what SerializeStruct::serialize_field does)',
}
REFERENCE_ONLY = {'write_number_str', 'write_raw_fragment', 'collect_str', 'serialize_i128', 'serialize_u128'}   # arbitrary_precision / raw_value support


def serde_json_reference(fx):
    lock = open(os.path.join(fx.repo, 'Cargo.lock')).read()
    m = re.search(r'name = "serde_json"\nversion = "([^"]+)"', lock)
    if not m:
        raise F.CheckError('serde_json not found in Cargo.lock')
    ver = m.group(1)
    cands = glob.glob(os.path.expanduser('~/.cargo/registry/src/*/serde_json-%s' % ver))
    if not cands:
        raise F.CheckError('source of serde_json %s not found in the cargo registry (needed as the reference of E1/E7)' % ver)
    out = os.path.join(F.CACHE, 'ref-serde_json-%s.json' % ver)
    if not os.path.exists(out):
        p = subprocess.run([F.TPL, cands[0], out + '.tmp', 'src/ser.rs'], stdout=subprocess.PIPE, stderr=subprocess.STDOUT, text=True)
        if p.returncode != 0:
            raise F.CheckError('zl-tpl failed on serde_json: ' + p.stdout[-500:])
        os.rename(out + '.tmp', out)
    return ver, F.Tpl(json.load(open(out))), cands[0]


def norm_self(s):
    s = re.sub(r'\s', '', s or '')
    s = re.sub(r'<.*', '', s)
    return s.replace("&'amut", '').replace('&mut', '')


SKIP_M = {'map_err', 'into', 'as_bytes', 'borrow_mut', 'as_mut', 'as_ref', 'clone', 'to_owned', 'by_ref',
          'iter', 'into_iter', 'enumerate', 'copied', 'cloned'}      # adaptors that emit nothing


def events(fn_node, reference=False, helpers=None, _depth=0):
    out = []

    def pat(p):
        p = re.sub(r'\s', '', p or '')
        return re.sub(r'(CharEscape|Compound|State|FpCategory)::', '', p)

    def go(x):
        if isinstance(x, list):
            for y in x:
                go(y)
            return
        if not isinstance(x, dict):
            return
        k = x.get('k')
        if k == 'mcall':
            go(x.get('recv'))
            if helpers and x['method'] in helpers and _depth < 3:
                # a private helper of the port (no counterpart in the reference): its events take the place of the call; closures passed
                # to it run inside it - their events are spliced where the helper calls its parameter
                hn = helpers[x['method']]
                cl = [a for a in (x.get('args') or []) if isinstance(a, dict) and a.get('k') == 'closure']
                other = [a for a in (x.get('args') or []) if not (isinstance(a, dict) and a.get('k') == 'closure')]
                go(other)
                sub = events(hn, reference, helpers, _depth + 1)
                if cl:
                    params = [p.split(':')[0].strip() for p in hn.get('params') or []]
                    ce = events({'body': cl[0].get('body')}, reference, helpers, _depth + 1)
                    spliced = []
                    done = False
                    for e in sub:
                        if not done and e in params:
                            spliced.extend(ce)
                            done = True
                        else:
                            spliced.append(e)
                    sub = spliced if done else ce + sub
                out.extend(sub)
                return
            go(x.get('args'))
            if x['method'] not in SKIP_M:
                out.append(x['method'])
            return
        if k == 'call':
            go(x.get('args'))
            f = x.get('func') if isinstance(x.get('func'), str) else A.text(x.get('func'))
            last = f.split('::')[-1]
            if last == 'Err':
                out.append('refuse' if any('KeyMustBeAString' in A.text(a) or 'key_must_be_a_string' in A.text(a) or 'float_key_must_be_finite' in A.text(a)
                                             for a in x.get('args') or []) else 'Err')
                # drop the event produced by the error constructor call inside
                while out and out[-2:-1] and out[-2] in ('key_must_be_a_string', 'float_key_must_be_finite'):
                    del out[-2]
            elif helpers and last in helpers and _depth < 3:
                out.extend(events(helpers[last], reference, helpers, _depth + 1))
            elif last not in ('Ok', 'Some', 'Box::new', 'new', 'from', 'Error::io', 'io'):
                out.append(last)
            return
        if k == 'macro':
            if x.get('name') in ('tri', 'ready', 'r#try'):
                go(x.get('arg_nodes'))
            return
        if k == 'bytes':
            out.append('b:' + str(x.get('value')))
            return
        if k == 'if':
            cond = re.sub(r'\s', '', x.get('cond') or '')
            m = re.match(r'^\(?[*&]*([\w.]+)(==|!=)[*&]*([\w:]+)\)?$', cond)
            if m and not cond.startswith('let'):
                # two-way test of a value against a constant: one canonical form for `if x == P {A} else {B}`, `if x != P {B} else {A}` and
                # `match x { P => A, _ => B }` (a port may spell the same decision either way)
                out.append('br(%s==%s)' % (m.group(1), pat(m.group(3))))
                first, second = (x.get('then'), x.get('else')) if m.group(2) == '==' else (x.get('else'), x.get('then'))
                go(first)
                out.append('else')
                go(second)
                out.append('fi')
                return
            m = re.match(r'^(!?)([\w.]+)\.is_finite\(\)$', cond)
            if m:
                # `if v.is_finite() {A} else {B}` = `match v.classify() { Nan | Infinite => B, _ => A }`
                out.append('br(finite(%s))' % m.group(2))
                first, second = (x.get('then'), x.get('else')) if not m.group(1) else (x.get('else'), x.get('then'))
                go(first)
                out.append('else')
                go(second)
                out.append('fi')
                return
            out.append('if(' + cond + ')')
            go(x.get('then'))
            if x.get('else'):
                out.append('else')
                go(x.get('else'))
            out.append('fi')
            return
        if k == 'match':
            arms = x.get('arms') or []
            if reference:
                # feature-gated arbitrary_precision / raw_value arms do not exist in the port
                if any('TOKEN' in (a.get('pat') or '') for a in arms):
                    for a in arms:
                        if re.sub(r'\s', '', a.get('pat') or '') == '_':
                            go(a.get('body'))
                    return
                arms = [a for a in arms if not re.search(r'Number|RawValue', a.get('pat') or '')]
            scr = re.sub(r'\s', '', x.get('scrut') or '')
            if scr in ('self', '*self') and len(arms) == 1:
                go(arms[0].get('body'))
                return
            pats = [re.sub(r'\s', '', a.get('pat') or '') for a in arms]
            if scr.endswith('.classify()') and len(arms) == 2 and '_' in pats and pat(pats[1 - pats.index('_')]) in ('Nan|Infinite', 'Infinite|Nan'):
                i = pats.index('_')
                out.append('br(finite(%s))' % scr[:-len('.classify()')].lstrip('*&'))
                go(arms[i].get('body'))
                out.append('else')
                go(arms[1 - i].get('body'))
                out.append('fi')
                return
            if len(arms) == 2 and '_' in pats and re.match(r'^[\w:]+$', pats[1 - pats.index('_')]) and pats[0] != pats[1] and not any(a.get('guard') for a in arms):
                i = 1 - pats.index('_')
                out.append('br(%s==%s)' % (scr.lstrip('*&'), pat(pats[i])))
                go(arms[i].get('body'))
                out.append('else')
                go(arms[1 - i].get('body'))
                out.append('fi')
                return
            out.append('match(' + scr + ')')
            for a in arms:
                out.append('arm:' + pat(a.get('pat')))
                go(a.get('body'))
            out.append('endmatch')
            return
        for kk, v in x.items():
            if kk in ('cond_node', 'scrut_node'):
                continue
            if isinstance(v, (dict, list)):
                go(v)
    go(fn_node.get('body'))
    # `refuse` normal form: a body that only refuses
    if out and all(e == 'refuse' for e in out):
        return ['refuse']
    return [e for e in out if e not in ('key_must_be_a_string', 'float_key_must_be_finite')] if 'refuse' in out else out


def table(t, file_sub):
    d = {}
    for f, n, impl in A.all_fns(t, file_sub):
        key = ((impl or {}).get('trait'), norm_self((impl or {}).get('self_ty')), n['name'])
        d.setdefault(key, (f, n))
    return d


def check_translation(fx, rep):
    ver, ref, refdir = serde_json_reference(fx)
    mir_methods = set()
    for b in fx.crate('zlink_core', 'full').bodies:
        if not b.in_test and 'json_ser' in b.path and b.kind == 'AssocFn' and b.impl_self:
            mir_methods.add((norm_self(re.sub(r'^json_ser::', '', b.impl_self)), b.name))
    ours = table(fx.tpl, 'zlink-core/src/json_ser.rs')
    theirs = table(ref, 'src/ser.rs')
    n_same = 0
    # private helpers of the port: inherent / free functions of json_ser.rs whose name no function of the reference has
    ref_names = {k[2] for k in theirs}
    for (tr_, st_, name_), (f_, n_) in theirs.items():
        for x in A.nodes(n_.get('body') or []):
            if x.get('k') == 'mcall':
                ref_names.add(x.get('method'))
            elif x.get('k') == 'call':
                ref_names.add((x['func'] if isinstance(x['func'], str) else A.text(x['func'])).split('::')[-1])
    port_helpers = {}
    for (tr_, st_, name_), (f_, n_) in ours.items():
        if tr_ is None and name_ not in ref_names and name_ not in ('new', 'with_formatter', 'to_slice'):
            port_helpers[name_] = n_
    for key, (f, n) in sorted(ours.items(), key=str):
        tr, st, name = key
        if tr is None or tr in ('Display', 'Write', 'ser::Error', 'Debug', 'Default', 'Clone'):
            continue
        where = '%s:%s' % (f, n.get('line'))
        k = 'E7|%s|%s|%s' % (tr, st, name)
        if key not in theirs:
            rep.bad('E7', k + '|not-in-reference', where, 'method %s::%s of %s has no counterpart in serde_json %s' % (tr, name, st, ver))
            continue
        a, b = events(n, helpers=port_helpers), events(theirs[key][1], reference=True)
        if key in DEVIATIONS:
            # a listed deviation must still be what the table says: a refusal, or the direct escape call
            ok = a == ['refuse'] or a == b or (name == 'serialize_str' and a == ['format_escaped_str']) or name == 'write_char_escape' or \
                (name == 'serialize_field' and a == ['serialize_entry'])
            rep.check(ok, 'E7', k + '|listed-deviation', where, 'listed deviation (%s): %s' % (DEVIATIONS[key], a),
                      'method deviates from serde_json %s in a way the deviation table does not cover: ours %s, reference %s' % (ver, a, b))
            continue
        if a == b:
            n_same += 1
            rep.ok('E7', k, where, 'emission skeleton equals serde_json %s: %s' % (ver, a[:12]), nontrivial=bool(a))
        else:
            # first difference
            i = 0
            while i < min(len(a), len(b)) and a[i] == b[i]:
                i += 1
            rep.bad('E7', k, where, 'the emission skeleton of %s::%s differs from serde_json %s at step %d: ours %s, reference %s' % (
                st or tr, name, ver, i, a[max(0, i - 2):i + 4], b[max(0, i - 2):i + 4]), {'ours': a, 'reference': b})
    # methods of the reference traits that the port lacks
    for key in sorted(theirs, key=str):
        tr, st, name = key
        if tr in ('trait:Formatter',) or (tr and tr.startswith('ser::') and st in ('Serializer', 'Compound', 'MapKeySerializer')):
            if key not in ours and key not in DEVIATIONS and name not in REFERENCE_ONLY:
                if (st, name) in mir_methods:
                    rep.ok('E7', 'E7|%s|%s|%s|macro-generated' % key, 'zlink-core/src/json_ser.rs',
                           'method exists in the compiled crate but not in the syntax tree (generated by a macro_rules expansion): covered by the MIR rules E3-E5, not by the source comparison', nontrivial=False)
                    continue
                rep.bad('E7', 'E7|%s|%s|%s|missing' % key, 'zlink-core/src/json_ser.rs', 'serde_json %s has %s::%s for %s but the port does not' % (ver, tr, name, st))
    rep.floor('E7', 90, 'ported methods compared with serde_json')
    rep.note('reference: serde_json %s at %s; %d methods with identical skeleton' % (ver, refdir, n_same))
    # E1 reference table from serde_json's source
    consts = {}
    table_elems = None
    for fn, it in ref.items('src/ser.rs'):
        if it.get('k') == 'const' and it.get('expr') is not None:
            consts[it['name']] = it['expr']
        if it.get('k') == 'static' and it.get('name') == 'ESCAPE':
            table_elems = it.get('expr')
    return ver, consts, table_elems


def eval_ref_table(consts, elems):
    """evaluate serde_json's ESCAPE array from its syntax: elements are const names; const values are byte literals"""
    def val(node):
        if isinstance(node, dict):
            if node.get('k') == 'byte':
                return node.get('value')
            if node.get('k') == 'int':
                return int(node.get('text', '0').rstrip('u8'), 0)
            if node.get('k') == 'path':
                return val(consts.get(node.get('text')))
        return None
    if not isinstance(elems, dict) or elems.get('k') != 'array':
        return None
    out = [val(e) for e in elems.get('elems') or []]
    return out if len(out) == 256 and all(v is not None for v in out) else None


def check(fx, rep, tier):
    rep.rule('E1', 'ESCAPE[256] (const-evaluated) = RFC 8259 + serde_json short escapes = serde_json\'s own table; entries only from the handled letters')
    rep.rule('E2', 'escape dispatch: table letter -> CharEscape variant -> literal backslash+letter / \\u00XX with HEX_DIGITS, >>4 and &0xF')
    rep.rule('E2b', 'raw fragments come only from the escape scanner or itoa/ryu buffers; the scanner skips exactly the bytes whose table entry is 0')
    rep.rule('E3', 'MapKeySerializer: exactly the allowed key kinds reach a write, all other methods only construct the key error')
    rep.rule('E4', 'integer keys are written between begin_string and end_string on every Ok path')
    rep.rule('E5', 'write_f32/f64 only on the finite arm of classify(); the non-finite arm writes null')
    rep.rule('E6', 'BufferTooSmall only from the slice writer behind its bound test; to_slice starts a fresh writer and returns its position')
    rep.rule('E7', 'per-method emission skeleton of the port = serde_json (locked version), modulo the listed deviations')
    rep.rule('E8', 'outbound framing and retry-from-scratch rules of C02')
    ver, rconsts, relems = check_translation(fx, rep)
    for cfg in ['full'] + (['nostd'] if tier == 'thorough' else []):
        crate = fx.crate('zlink_core', cfg)
        esc = crate.consts.get('json_ser::ESCAPE')
        if not esc or 'bytes' not in esc or len(esc['bytes']) != 256:
            rep.bad('E1', 'escape-table|anchor|%s' % cfg, 'zlink-core/src/json_ser.rs', 'static ESCAPE: [u8; 256] not found / not evaluated')
            continue
        tb = esc['bytes']
        diff = [i for i in range(256) if tb[i] != RFC[i]]
        rep.check(not diff, 'E1', 'escape-table|rfc8259|%s' % cfg, 'zlink-core/src/json_ser.rs:%s' % esc.get('line'),
                  'all 256 entries equal the RFC 8259 / serde_json table (34 escaped bytes)',
                  'ESCAPE differs from the JSON escape table at byte(s) %s' % [('0x%02x' % i, chr(tb[i]) if tb[i] else 0, chr(RFC[i]) if RFC[i] else 0) for i in diff[:8]],
                  {'entries': 256, 'nonzero': sum(1 for x in tb if x)})
        rt = eval_ref_table(rconsts, relems)
        if rt is None:
            rep.bad('E1', 'escape-table|serde_json-source|%s' % cfg, '-', 'serde_json %s ESCAPE table could not be evaluated from its source' % ver)
        else:
            d2 = [i for i in range(256) if tb[i] != rt[i]]
            rep.check(not d2, 'E1', 'escape-table|serde_json-source|%s' % cfg, 'zlink-core/src/json_ser.rs:%s' % esc.get('line'),
                      'all 256 entries equal serde_json %s\'s ESCAPE evaluated from its source' % ver, 'ESCAPE differs from serde_json\'s at %s' % d2[:8])
        rep.check(all(x == 0 or x in LETTER_VARIANT for x in tb), 'E1', 'escape-table|letters-handled|%s' % cfg, 'zlink-core/src/json_ser.rs',
                  'every non-zero entry is one of b t n f r " \\ u (precondition of the unreachable_unchecked arm)', 'ESCAPE contains a letter the dispatch does not handle')
        # ---- E2 dispatch
        fe = [b for b in crate.bodies if b.name == 'format_escaped_str_contents' and not b.in_test]
        we = [b for b in crate.bodies if b.name == 'write_char_escape' and not b.in_test]
        if not fe or not we:
            rep.bad('E2', 'anchor|%s' % cfg, 'zlink-core/src/json_ser.rs', 'format_escaped_str_contents / write_char_escape not found')
        else:
            fe, we = fe[0], we[0]
            disp = None
            for sw in range(fe.n):
                if fe.is_cleanup(sw) or fe.term(sw)['k'] != 'switch':
                    continue
                t = fe.term(sw)
                vals = {a[0] for a in t['arms']}
                if len(vals & set(LETTER_VARIANT)) >= 6:
                    disp = (sw, t)
            ok = disp is not None
            det = {}
            if ok:
                sw, t = disp
                for val, tgt in t['arms']:
                    want = LETTER_VARIANT.get(val)
                    got = None
                    seen = set()
                    cur = tgt
                    for _ in range(6):
                        for s in fe.stmts(cur):
                            if s['k'] == 'assign' and s['rv']['k'] == 'aggr' and 'CharEscape' in s['rv'].get('adt', ''):
                                got = s['rv'].get('variant')
                        if got or fe.term(cur)['k'] != 'goto':
                            break
                        cur = fe.term(cur)['t']
                    det[chr(val)] = got
                    if got != want:
                        ok = False
                ok = ok and {a[0] for a in t['arms']} == set(LETTER_VARIANT)
            rep.check(ok, 'E2', 'dispatch|letter-to-variant|%s' % cfg, fe.where(), 'table letters map to CharEscape variants: %s' % det,
                      'the escape dispatch does not map every table letter to its CharEscape variant: %s' % det, det)
            # literals per variant
            lit = {}
            adt = [a for p, a in crate.adts.items() if p.endswith('json_ser::CharEscape')]
            vnames = [v['name'] for v in adt[0]['variants']] if adt else []
            for sw in range(we.n):
                if we.is_cleanup(sw) or we.term(sw)['k'] != 'switch':
                    continue
                info = we.switch_info(sw)
                if info and info.get('kind') == 'discr' and 'CharEscape' in (info['place'].get('ty') or ''):
                    arms = dict(info['arms'])
                    for i, vn in enumerate(vnames):
                        tgt = arms.get(i, info['otherwise'])
                        others = {t2 for j, t2 in arms.items() if j != i}
                        strs = []
                        for b in sorted(we.reachable(tgt)):
                            if any(b in we.reachable(o) for o in others if o != tgt):
                                continue
                            t2 = we.term(b)
                            if t2['k'] == 'call' and t2['callee'].get('name') == 'write_all':
                                for a in t2['args']:
                                    tr = we.trace(a)
                                    if tr.get('kind') == 'const':
                                        o = tr['op']
                                        if 'str' in o:
                                            strs.append(o['str'])
                                        elif 'bytes' in o:
                                            strs.append(bytes(o['bytes']).decode('latin1'))
                                        elif o.get('promoted') and we.d.get('promoted'):
                                            strs.append('<promoted>')
                        lit[vn] = strs
            okl = all(lit.get(v) and lit[v][0] == VARIANT_LITERAL[v] for v in VARIANT_LITERAL)
            oku = bool(lit.get('AsciiControl')) and lit['AsciiControl'][0] == '\\u00'
            rep.check(okl and oku, 'E2', 'write_char_escape|variant-to-literal|%s' % cfg, we.where(), 'each variant writes backslash + its letter; AsciiControl writes \\u00 + 2 hex digits',
                      'write_char_escape does not write the expected literal for every variant: %s' % lit, {k: v for k, v in lit.items()})
            hexd = crate.consts.get('json_ser::Formatter::write_char_escape::HEX_DIGITS', {}).get('bytes')
            shifts = [(s['rv']['op'], op_str(s['rv']['b'])) for b, i, s in we.iter_assigns() if s['rv']['k'] == 'bin' and s['rv']['op'] in ('Shr', 'BitAnd')]
            rep.check(hexd == list(b'0123456789abcdef') and ('Shr', 'const 4') in shifts and ('BitAnd', 'const 15') in shifts, 'E2', 'write_char_escape|hex-digits|%s' % cfg, we.where(),
                      'HEX_DIGITS = 0123456789abcdef, high nibble >> 4, low nibble & 0xF', 'the \\u00XX digits are not computed as HEX_DIGITS[b >> 4], HEX_DIGITS[b & 0xF]: %s %s' % (hexd, shifts))
            # ---- E2b scanner
            ez = None
            for sw in range(fe.n):
                if fe.is_cleanup(sw) or fe.term(sw)['k'] != 'switch':
                    continue
                info = fe.switch_info(sw)
                if info and info.get('kind') == 'cmp' and info['op'] == 'Eq' and {info['a'].get('val'), info['b'].get('val')} & {0}:
                    # the other side: ESCAPE[byte]
                    other = info['a'] if info['b'].get('kind') == 'const' else info['b']
                    ez = (sw, info)
            ok = ez is not None
            det = {}
            if ok:
                sw, info = ez
                writes = {b for b, t in fe.iter_terms('call') if t['callee'].get('name') in ('write_string_fragment', 'write_char_escape', 'write_all')}
                wce = {b for b, t in fe.iter_terms('call') if t['callee'].get('name') == 'write_char_escape'}
                heads = {h for a, h in fe.back_edges()}
                r_true = fe.reachable(info['true'], avoid=heads)
                det['zero_entry_writes_nothing_before_next_byte'] = not (r_true & writes)
                r_false = fe.reachable(info['false'], avoid=wce)
                det['nonzero_entry_passes_write_char_escape'] = not (r_false & heads)
                idx_static = any(s['rv']['k'] == 'use' and op_place(s['rv']['op']) and any(isinstance(e, dict) and 'idx' in e for e in (op_place(s['rv']['op']).get('p') or []))
                                 for b, i, s in fe.iter_assigns())
                det['table_indexed_by_the_byte'] = idx_static
                ok = all(det.values())
            rep.check(ok, 'E2b', 'scanner|skip-iff-table-zero|%s' % cfg, fe.where(), 'the scanner writes nothing for a byte whose table entry is 0 and passes through write_char_escape otherwise',
                      'the escape scanner does not (skip exactly on table entry 0 / escape otherwise): %s' % det, det)
        # ---- E2b origins of raw fragments
        n_frag = 0
        for body in crate.bodies:
            if body.in_test or 'json_ser' not in body.path:
                continue
            for b, t in body.iter_terms('call'):
                if t['callee'].get('name') != 'write_string_fragment':
                    continue
                n_frag += 1
                arg = t['args'][-1]
                q = op_place(arg)
                locs, evs = body.slice_back([q['l']]) if q else (set(), [])
                callees = [e[2]['callee'].get('def') or '' for e in evs if e[0] == 'call']
                from_num = any('itoa::' in c or 'ryu::' in c for c in callees)
                in_scanner = body.name == 'format_escaped_str_contents'
                from_param = any(1 <= l <= body.arg_count and ('str' in body.local_ty(l) or 'char' in body.local_ty(l) or '[u8]' in body.local_ty(l)) for l in locs)
                ok = in_scanner or (from_num and not from_param)
                rep.check(ok, 'E2b', 'fragment-origin|%s|%s' % (body.path, cfg), C.where(body, b),
                          'raw fragment originates from %s' % ('the escape scanner' if in_scanner else 'an itoa/ryu number buffer'),
                          'a raw string fragment derived from a caller-supplied value is written without passing the escape scanner: quotes, backslashes and control '
                          'characters (a NUL included) reach the frame unescaped', {'callees_in_slice': callees[:6], 'from_parameter': from_param})
        rep.floor('E2b', 3, 'raw fragment sites + scanner')
        # ---- E3 / E4 key serializer
        n_key = 0
        for body in crate.bodies:
            if body.in_test or body.kind != 'AssocFn' or not (body.impl_self and 'MapKeySerializer' in body.impl_self) or not (body.impl_trait and 'Serializer' in body.impl_trait):
                continue
            n_key += 1
            calls = [t['callee'].get('name') for b, t in body.iter_terms('call')]
            errs = [s['rv'].get('variant') for b, i, s in body.iter_assigns() if s['rv']['k'] == 'aggr' and s['rv'].get('adt', '').endswith('json_ser::Error')]
            emits = bool(calls)
            if body.name in KEY_EMIT:
                rep.check(emits, 'E3', 'key|%s|emits|%s' % (body.name, cfg), body.where(), 'allowed key kind is emitted', 'an allowed key kind is refused')
                if re.fullmatch(r'serialize_[iu]\d+', body.name):
                    bs = [b for b, t in body.iter_terms('call') if t['callee'].get('name') == 'begin_string']
                    es = [b for b, t in body.iter_terms('call') if t['callee'].get('name') == 'end_string']
                    ws = [b for b, t in body.iter_terms('call') if (t['callee'].get('name') or '').startswith('write_')]
                    ok = len(bs) == 1 and len(es) == 1 and len(ws) == 1 and body.dominates(bs[0], ws[0]) and body.dominates(ws[0], es[0])
                    if ok:
                        # every Ok path: the only way to the end_string result is through the Ok edges; the return value is end_string's
                        t = body.term(es[0])
                        ok = t['dest']['l'] == 0 or 0 in body.slice_back([0])[0]
                        wname = body.term(ws[0])['callee'].get('name')
                        ok = ok and wname == 'write_' + body.name.split('_')[1]
                    if not ok and not bs and not es:
                        # helper form: `self.quoted(|f, w| f.write_i8(w, value))` - a private helper writes the quotes around the call of its closure parameter
                        want = 'write_' + body.name.split('_')[1]
                        for b0, t0 in body.iter_terms('call'):
                            hb = crate.by_path.get(t0['callee'].get('def') or '')
                            if hb is None or 'json_ser' not in hb.path:
                                continue
                            clos = []
                            for a_ in t0['args']:
                                tr = body.trace(a_)
                                if tr.get('kind') == 'aggr' and tr['rv'].get('kind') == 'closure':
                                    clos.append(crate.by_path.get(tr['rv'].get('def')))
                            if len(clos) != 1 or clos[0] is None:
                                continue
                            hbs = [b for b, t in hb.iter_terms('call') if t['callee'].get('name') == 'begin_string']
                            hes = [b for b, t in hb.iter_terms('call') if t['callee'].get('name') == 'end_string']
                            hcl = [b for b, t in hb.iter_terms('call') if t['callee'].get('name') in ('call_once', 'call_mut', 'call') and t['args'] and
                                   (op_place(t['args'][0]) or {}).get('l') is not None and
                                   any(1 <= l_ <= hb.arg_count for l_ in hb.slice_back([op_place(t['args'][0])['l']])[0])]
                            hother = [t['callee'].get('name') for b, t in hb.iter_terms('call') if (t['callee'].get('name') or '').startswith('write_')]
                            cws = [t['callee'].get('name') for b, t in clos[0].iter_terms('call') if (t['callee'].get('name') or '').startswith('write_')]
                            h_ok = len(hbs) == 1 and len(hes) == 1 and len(hcl) == 1 and not hother and hb.dominates(hbs[0], hcl[0]) and hb.dominates(hcl[0], hes[0]) and \
                                (hb.term(hes[0])['dest']['l'] == 0 or 0 in hb.slice_back([0])[0])
                            ret_ok = t0['dest']['l'] == 0 or 0 in body.slice_back([0])[0]
                            if h_ok and cws == [want] and ret_ok:
                                ok = True
                    rep.check(ok, 'E4', 'key|%s|quoted|%s' % (body.name, cfg), body.where(), 'integer key is written as begin_string, write_%s, end_string' % body.name.split('_')[1],
                              'integer key is not written between begin_string and end_string with the matching write_<int>')
            else:
                ok = not emits and errs == ['KeyMustBeAString']
                rep.check(ok, 'E3', 'key|%s|refused|%s' % (body.name, cfg), body.where(), 'refused with KeyMustBeAString without reaching a write',
                          'a key kind outside {str, char, integers, unit variant, newtype struct} is emitted or not refused with KeyMustBeAString (calls %s, errors %s)' % (calls[:4], errs))
        rep.floor('E3', 25, 'MapKeySerializer methods')
        # ---- E5 floats
        for body in crate.bodies:
            if body.in_test or 'json_ser' not in body.path or body.name not in ('serialize_f32', 'serialize_f64') or not (body.impl_self and 'Serializer' in body.impl_self and 'MapKey' not in body.impl_self):
                continue
            wf = [b for b, t in body.iter_terms('call') if t['callee'].get('name') in ('write_f32', 'write_f64')]
            wn = [b for b, t in body.iter_terms('call') if t['callee'].get('name') == 'write_null']
            cl = [b for b, t in body.iter_terms('call') if t['callee'].get('name') in ('classify', 'is_finite', 'is_nan')]
            ok = bool(wf) and bool(wn) and bool(cl)
            det = {}
            if ok:
                for sw in range(body.n):
                    if body.is_cleanup(sw) or body.term(sw)['k'] != 'switch':
                        continue
                    t = body.term(sw)
                    tr = body.trace(t['op'])
                    if tr.get('kind') == 'discr' or tr.get('kind') == 'call':
                        arms = {a[0]: a[1] for a in t['arms']}
                        # FpCategory: Nan=0, Infinite=1, Zero=2, Subnormal=3, Normal=4
                        nonfinite = [arms.get(0), arms.get(1)]
                        if all(x is not None for x in nonfinite):
                            det['nonfinite_reaches_write_float'] = any(w in body.reachable(x) for x in nonfinite for w in wf)
                            det['nonfinite_writes_null'] = all(any(w in body.reachable(x) for w in wn) for x in nonfinite)
                            det['finite_reaches_write_float'] = any(w in body.reachable(t['otherwise']) for w in wf) or any(w in body.reachable(arms.get(k_)) for k_ in (2, 3, 4) if arms.get(k_) is not None for w in wf)
                ok = det.get('nonfinite_reaches_write_float') is False and det.get('nonfinite_writes_null') and det.get('finite_reaches_write_float')
                if not ok:
                    # the same decision written as `if value.is_finite() { write_f* } else { write_null }`
                    for sw in range(body.n):
                        if body.is_cleanup(sw) or body.term(sw)['k'] != 'switch':
                            continue
                        info = body.switch_info(sw)
                        if info and info.get('kind') == 'bool' and info['src'].get('kind') == 'call' and info['src']['callee'].get('name') == 'is_finite':
                            fin, non = info['true'], info['false']
                            det2 = {'nonfinite_reaches_write_float': any(w in body.reachable(non) for w in wf),
                                    'nonfinite_writes_null': any(w in body.reachable(non) for w in wn),
                                    'finite_reaches_write_float': any(w in body.reachable(fin) for w in wf), 'idiom': 'is_finite'}
                            if det2['nonfinite_reaches_write_float'] is False and det2['nonfinite_writes_null'] and det2['finite_reaches_write_float']:
                                ok, det = True, det2
            rep.check(ok, 'E5', 'float|%s|%s' % (body.path.split('::')[-1], cfg), body.where(), 'NaN / infinite take the write_null arm, finite values the ryu writer',
                      'the float writer is not guarded by the classify() test as (NaN|Infinite -> null, otherwise -> write_f*): %s' % det, det)
        # the shortest-representation formatter runs in the width of the value: `format_finite(v as f64)` for an f32 prints the f64 neighbour (0.1f32 -> 0.10000000149011612)
        for body in crate.bodies:
            if body.in_test or 'json_ser' not in body.path or body.name not in ('write_f32', 'write_f64'):
                continue
            want_ty = body.name[-3:]
            fmts = [(b, t) for b, t in body.iter_terms('call') if t['callee'].get('name') in ('format_finite', 'format')]
            same_crate = [(b, t) for b, t in fmts if (t['callee'].get('krate') or '') == 'ryu' or (t['callee'].get('def') or '').startswith('ryu::')]
            rep.check(bool(fmts) and len(same_crate) == len(fmts), 'E5', 'float|%s|formatter-is-ryu|%s' % (body.name, cfg), body.where(),
                      '%s prints through ryu, the formatter serde_json %s prints floats with' % (body.name, REF_VERSION if 'REF_VERSION' in globals() else ''),
                      '%s does not print through the `ryu` crate (%s): serde_json - the reference of this property - does, and another shortest-representation formatter differs in '
                      'notation (e.g. `1e+16` for `1e16`) although both are correct decimals' % (body.name, ', '.join(sorted({t['callee'].get('def') or '?' for _, t in fmts})) or 'no formatter call found'))
            for b, t in body.iter_terms('call'):
                if t['callee'].get('name') in ('format_finite', 'format') and ((t['callee'].get('krate') or '') == 'ryu' or (t['callee'].get('def') or '').startswith('ryu::')):
                    inst = (t['callee'].get('args') or '')
                    aty = ((mir.op_place(t['args'][1]) or {}).get('ty') or t['args'][1].get('ty') or '') if len(t['args']) > 1 else ''
                    okw = (want_ty in inst) if inst else (aty == want_ty)
                    rep.check(okw, 'E5', 'float|%s|formatter-width|%s' % (body.name, cfg), C.where(body, b),
                              '%s formats the value as %s' % (body.name, want_ty),
                              '%s hands the shortest-representation formatter a value of another width (instantiated with %s, argument type %s): the digits differ from serde_json for every value whose shortest %s decimal '
                              'is not its shortest decimal in the other width' % (body.name, inst or '?', aty or '?', want_ty))
        rep.floor('E5', 2, 'float serializer methods')
        # ---- E6 slice writer
        bts = []
        for body in crate.bodies:
            if body.in_test or 'json_ser' not in body.path:
                continue
            for b, i, s in C.aggr_adt_sites(body, 'json_ser::Error', 'BufferTooSmall'):
                if body.impl_trait and ('Display' in body.impl_trait or 'Debug' in body.impl_trait):
                    continue
                bts.append((body, b, i))
        ok = len(bts) == 1 and bts[0][0].name == 'write_all' and 'ByteSliceWriter' in (bts[0][0].impl_self or '')
        det = {'sites': ['%s' % C.where(bd, b, i) for bd, b, i in bts]}
        if ok:
            bd, b, i = bts[0]
            cds = bd.control_deps_closure(b)
            guarded = False
            for sw, tgt in cds:
                info = bd.switch_info(sw)
                if info and info.get('kind') == 'cmp' and info['op'] in ('Gt', 'Ge', 'Lt', 'Le'):
                    guarded = True
            det['behind_bound_test'] = guarded
            ok = guarded
        rep.check(ok, 'E6', 'slice-writer|buffer-too-small-only-behind-bound-test|%s' % cfg, 'zlink-core/src/json_ser.rs',
                  'BufferTooSmall is produced only by ByteSliceWriter::write_all behind its bound comparison', 'BufferTooSmall is produced elsewhere or without the bound test: %s' % det, det)
        ts = [b for b in crate.bodies if b.name == 'to_slice' and 'json_ser' in b.path and not b.in_test]
        ok = False
        det = {}
        if ts:
            tb_ = ts[0]
            news = [t for b, t in tb_.iter_terms('call') if t['callee'].get('name') in ('new', 'with_formatter') and 'json_ser::Serializer' in (t['callee'].get('def') or '')]
            aggr = [s for body in crate.bodies if not body.in_test for b, i, s in C.aggr_adt_sites(body, 'json_ser::ByteSliceWriter')]
            pos0 = bool(aggr)
            for s_ in aggr:
                flds = s_['rv'].get('fields') or []
                o = s_['rv']['ops'][flds.index('pos')] if 'pos' in flds else {}
                if not (o.get('k') == 'const' and o.get('val') == 0):
                    pos0 = False
            writers = sorted({body.path for body in crate.bodies if not body.in_test for b, i, s in C.field_stores(body, 'json_ser::ByteSliceWriter', 'pos')})
            ret_pos = any(s_['rv']['k'] == 'aggr' and s_['rv'].get('variant') == 'Ok' and s_['place']['l'] == 0 and
                          tb_.trace(s_['rv']['ops'][0]).get('kind') == 'place' and [n for a_, n in tb_.trace(s_['rv']['ops'][0]).get('fields', [])][-1:] == ['pos']
                          for b, i, s_ in tb_.iter_assigns())
            det = {'serializer_constructed': len(news), 'every_writer_starts_at_0': pos0, 'writers_of_pos': writers, 'returns_final_position': ret_pos}
            ok = len(news) == 1 and pos0 and ret_pos and all(w.endswith('ByteSliceWriter::<\'a>::write_all') or 'ByteSliceWriter' in w and w.endswith('write_all') for w in writers) and bool(writers)
        rep.check(ok, 'E6', 'to_slice|fresh-writer|%s' % cfg, 'zlink-core/src/json_ser.rs', 'to_slice builds one fresh serializer (writer position 0) per call, only write_all advances the position, the final position is returned',
                  'to_slice does not (start from a fresh writer at position 0, return the final position), or the position has other writers: %s' % det, det)
    # ---- E8 import C02
    import engine, c02
    sub = engine.Report('C02', 'quick')
    c02.check(fx, sub, 'quick')
    for i in sub.insts:
        (rep.ok if i.ok else rep.bad)('E8', i.rule + '|' + i.key, i.where, i.msg, i.detail)
    for rule, (fl, what) in sub.floors.items():
        if sub.count(rule) < fl:
            rep.bad('E8', 'floor|' + rule, '-', 'anchor lost in imported rule %s: expected %d %s' % (rule, fl, what))
    import imports as _imp
    _imp.layer(fx, rep, 'C03')
    return META
