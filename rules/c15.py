"""C15 - generated code speaks exactly the interface described by the IDL (R15.1 - R15.5)."""
import re
import ast as A
import common as C
import mir
from mir import op_place

CG = 'zlink-codegen/src/codegen.rs'
HECK = {'to_snake_case', 'to_pascal_case', 'to_upper_camel_case', 'to_lower_camel_case', 'to_shouty_snake_case', 'to_kebab_case', 'to_title_case', 'to_train_case'}
# accessor (resolved callee, from the compiler) -> is the name on the wire?
WIRE_ACCESSORS = {'idl::Field': True, 'idl::EnumVariant': True, 'idl::Method': True, 'idl::Error': True, 'idl::Parameter': True,
                  'idl::CustomObject': False, 'idl::CustomEnum': False, 'idl::CustomType': False, 'idl::Interface': False}
# rustc's strict + reserved keywords, editions 2015-2024 (The Rust Reference, "Keywords"); compared with the compiler's own list when the driver provides it
RUST_KEYWORDS = {'as', 'break', 'const', 'continue', 'crate', 'else', 'enum', 'extern', 'false', 'fn', 'for', 'if', 'impl', 'in', 'let', 'loop', 'match', 'mod',
                 'move', 'mut', 'pub', 'ref', 'return', 'self', 'Self', 'static', 'struct', 'super', 'trait', 'true', 'type', 'unsafe', 'use', 'where', 'while',
                 'async', 'await', 'dyn', 'abstract', 'become', 'box', 'do', 'final', 'macro', 'override', 'priv', 'typeof', 'unsized', 'virtual', 'yield', 'try', 'gen'}
NOT_RAW = {'self', 'Self', 'super', 'crate'}

# Ident -> String conversions in zlink-macros that never reach the wire / an IDL name (function -> reason)
# owners of identifiers that name types / generic parameters, never members on the wire (decided from the resolved receiver, not from the
# function the conversion is written in)
TYPE_LEVEL_IDENT_OWNERS = {'syn::TypeParam', 'syn::PathSegment', 'syn::LifetimeParam', 'syn::ConstParam', 'syn::Lifetime', 'syn::generics::TypeParam', 'syn::path::PathSegment'}
IDENT_EXEMPT = {
    'utils::is_option_type': 'compares path segments of a type with `Option`',
    'proxy::method_impl::generate_method_params': 'generic parameter names, compared with each other only',
    'proxy::method_impl::build_params_where_clause': 'generic parameter names',
    'proxy::utils::collect_used_type_params': 'generic parameter names',
}

META = {
    'level': 'other',
    'explanation': (
        'Rules over the code generator (syntax tree + resolved callees from the compiler) and the macros its output relies on: '
        '(R15.1) every heck case conversion of a name that is on the wire - the entity kind is read from the resolved accessor '
        '(idl::Field / EnumVariant / Method / Error ::name are wire names, CustomObject / CustomEnum ::name and Type::Custom are '
        'Rust type names) - is paired, in the same emitter, with a rename attribute interpolating the unconverted accessor of '
        'the same entity, emitted unconditionally or under a comparison of the converted identifier with the IDL spelling '
        '(directly or through a helper that formats the attribute); error names are emitted verbatim (the derive rebuilds the '
        'wire name from the variant identifier); (R15.2) the four IDL-to-Rust type tables agree, constructor by constructor, '
        'with each other and with the reference table (bool, i64, f64, String, Vec, string-keyed HashMap, Option, serde_json::Value, '
        'custom by name) after erasing borrows; (R15.3) the keyword table contains every strict and reserved Rust keyword, and '
        'the four words that cannot be raw identifiers are not emitted as r#..; (R15.4) in zlink-macros every Ident -> String '
        'conversion (resolved by the compiler to proc_macro2::Ident::to_string) that can become a wire or IDL name passes through '
        'IdentExt::unraw; the exempt sites are a frozen table with reasons, new sites are reported; (R15.5) the proxy field emitter '
        'truth table (R12.4) and the derive pairing rules (R05.4) hold - generated code is only as right as the macros it expands '
        'through. Not decided: that every generated module compiles and behaves for every IDL.'),
    'assumptions': ['serde / zlink rename attributes put the given literal on the wire', 'heck conversions are not the identity on camelCase / acronym names'],
}


def check_pairing(fx, rep):
    crate = fx.crate('zlink_codegen', 'full')
    t = fx.tpl
    fns = {}
    for f, n, impl in A.all_fns(t, CG):
        fns.setdefault(n['name'], (f, n))
    # helper functions that format a rename attribute and compare ident with wire name
    helpers = set()
    for name, (f, n) in fns.items():
        fm = [m for m in A.nodes(n['body']) if m.get('k') == 'macro' and m.get('name') in ('format', 'write', 'writeln') and 'rename' in (m.get('fmt') or '')]
        cmp_ = [x for x in A.nodes(n['body']) if x.get('k') == 'binary' and x.get('op') in ('!=', '==')]
        if fm and not name.startswith('generate_'):
            helpers.add(name)      # a helper that formats the rename attribute (with or without the comparison inside)
    n_wire = 0
    for body in crate.bodies:
        if body.in_test or 'codegen' not in body.path:
            continue
        fname = body.name
        ord_ = {}
        for blk, tm in body.iter_terms('call'):
            nm = tm['callee'].get('name')
            if nm not in HECK:
                continue
            tr = body.trace(tm['args'][0])
            acc = (tr['callee'].get('def') or '') if tr.get('kind') == 'call' else ''
            kind = None
            for k in WIRE_ACCESSORS:
                if k in acc and acc.endswith('::name'):
                    kind = k
            line = tm.get('line')
            key = '%s|%s|%s' % (body.path, nm, kind or 'type-name')
            ord_[key] = ord_.get(key, 0) + 1
            key += '|%d' % ord_[key]
            if kind is None or not WIRE_ACCESSORS[kind] or (kind == 'idl::Method' and nm in ('to_pascal_case', 'to_upper_camel_case')):
                rep.ok('R15.1', key, C.where(body, blk), 'conversion of a Rust type name (%s): not on the wire' % (acc or 'Type::Custom / interface name'), nontrivial=False)
                continue
            n_wire += 1
            # the syntax node: receiver variable of `.name()`
            if fname not in fns:
                rep.bad('R15.1', key, C.where(body, blk), 'syntax of emitter %s not found' % fname)
                continue
            f, n = fns[fname]
            var = None
            for x in A.nodes(n['body']):
                if x.get('k') == 'mcall' and x.get('method') == nm and x.get('line') == line:
                    r = x.get('recv') or {}
                    if r.get('k') == 'mcall' and r.get('method') == 'name':
                        var = A.text(r.get('recv'))
            if var is None:
                rep.bad('R15.1', key, C.where(body, blk), 'could not locate the converted accessor in the syntax tree')
                continue
            if kind == 'idl::Error':
                rep.bad('R15.1', key, C.where(body, blk), 'an error name is case-converted: the ReplyError derive rebuilds the wire name from the variant identifier, so the IDL spelling is lost')
                continue
            want = '%s.name()' % var
            ok = False
            how = None
            for x, path in A.nodes_with_path(n['body']):
                if x.get('k') == 'macro' and x.get('name') in ('format', 'write', 'writeln') and re.search(r'rename\s*=\s*\\?"\{\}', x.get('fmt') or '') and \
                        any(re.sub(r'\s', '', a) == want for a in x.get('args') or []):
                    ifs = [p for p in path if p.get('k') == 'if']
                    if not ifs:
                        ok, how = True, 'unconditional'
                    else:
                        cond = re.sub(r'\s', '', ' '.join(p.get('cond') or '' for p in ifs))
                        if '!=' + want in cond or want + '!=' in cond:
                            ok, how = True, 'under `converted != %s`' % want
                        elif 'is_empty' in cond:
                            # `if !attr.is_empty()` around a `let attr = if cond { format!(rename..) }`
                            ok, how = True, 'attribute string built under a comparison'
                if x.get('k') == 'call' and (x.get('func') if isinstance(x.get('func'), str) else '') in helpers and \
                        any(re.sub(r'\s', '', A.text(a)) == want for a in x.get('args') or []):
                    ok, how = True, 'through helper %s' % x.get('func')
            # the `let attr = if a || name != x.name() { format!(...) }` idiom: check the condition of the building if
            if ok and how == 'attribute string built under a comparison':
                conds = [re.sub(r'\s', '', p.get('cond') or '') for p in A.nodes(n['body']) if p.get('k') == 'if' and
                         any(m.get('k') == 'macro' and 'rename' in (m.get('fmt') or '') for m in A.nodes(p.get('then')))]
                ok = any(('!=' + want) in c for c in conds)
                how = 'attribute built under `converted != %s`' % want
            # the emitted identifier may be escaped further by safe_ident (keywords; self/Self/super/crate get a trailing `_`): the decision
            # must then look at the escaped identifier, or at the keyword test, not only at the converted name
            if ok and how and 'unconditional' not in how and 'helper' not in how:
                lets = {(y.get('pat') or '').replace('mut ', '').strip(): A.text(y.get('init')) for y in A.nodes(n['body']) if y.get('k') == 'let' and isinstance(y.get('init'), dict)}
                conv_vars = [v for v, init in lets.items() if re.sub(r'\s', '', init).startswith(want.replace(' ', '') + '.' + nm)]
                safe_vars = [v for v, init in lets.items() if 'safe_ident' in init and any(cv in init for cv in conv_vars)]
                conds_all = [re.sub(r'\s', '', p.get('cond') or '') for p in A.nodes(n['body']) if p.get('k') == 'if']
                rel = [c for c in conds_all if ('!=' + want) in c or (want + '!=') in c]
                if safe_vars and rel:
                    uses_safe = any(sv + '!=' in c or '!=' + sv in c or ('&' + sv) in c for c in rel for sv in safe_vars)
                    uses_kw = any('is_rust_keyword' in c for c in rel)
                    if not (uses_safe or uses_kw):
                        ok = False
                        how = 'decided on the converted name only'
                        rep.bad('R15.1', key, C.where(body, blk),
                                'the rename for the %s name is decided by comparing only the case-converted name with %s, but the emitted identifier is further escaped by '
                                'safe_ident (keywords; `self`/`Self`/`super`/`crate` become `self_` ...): for such names no rename is emitted and the escaped spelling reaches the wire' % (kind.split('::')[-1], want))
                        continue
            rep.check(ok, 'R15.1', key, C.where(body, blk), 'converted %s name is paired with a rename carrying %s (%s)' % (kind.split('::')[-1], want, how),
                      'the %s name is case-converted (%s) but the emitter does not pair it with a rename attribute carrying the IDL spelling %s: '
                      'camelCase / acronym names reach the wire in their converted form' % (kind.split('::')[-1], nm, want))
    # ---- conversion helpers: a function whose `&str` parameter is case-converted.  Its call sites with a wire-name accessor as argument are
    # conversions of wire names; the pairing is then: the helper hands back the IDL spelling for the rename (its parameter flows into its
    # result) and the emitter formats a rename attribute; the decision inside the helper is checked below like any other
    conv_helpers = {}
    for body in crate.bodies:
        if body.in_test or 'codegen' not in body.path or body.kind not in ('Fn', 'AssocFn'):
            continue
        for blk, tm in body.iter_terms('call'):
            if tm['callee'].get('name') in HECK and tm['args']:
                tr = body.trace(tm['args'][0])
                if tr.get('kind') == 'arg':
                    # does the parameter also reach the return value (the IDL spelling handed back)?
                    _, evs = body.slice_back([0])
                    back = any(e[0] == 'assign' and any(q.get('l') == tr['l'] for q in mir.rv_places_read(e[3]['rv'])) for e in evs) or \
                        any(e[0] == 'call' and any((op_place(a) or {}).get('l') == tr['l'] for a in e[2]['args']) for e in evs)
                    conv_helpers[body.path] = {'param': tr['l'], 'hands_back_spelling': back, 'conv': tm['callee'].get('name')}
    for body in crate.bodies:
        if body.in_test or 'codegen' not in body.path:
            continue
        ordh = 0
        for blk, tm in body.iter_terms('call'):
            d = tm['callee'].get('def') or ''
            if d not in conv_helpers or not tm['args']:
                continue
            h = conv_helpers[d]
            tr = body.trace(tm['args'][h['param'] - 1]) if len(tm['args']) >= h['param'] else {}
            acc = (tr['callee'].get('def') or '') if tr.get('kind') == 'call' else ''
            kind = next((k for k in WIRE_ACCESSORS if k in acc and acc.endswith('::name')), None)
            if kind is None or not WIRE_ACCESSORS[kind]:
                continue
            n_wire += 1
            ordh += 1
            f, n = fns.get(body.name, (None, None))
            fm = [m for m in A.nodes(n['body']) if m.get('k') == 'macro' and m.get('name') in ('format', 'write', 'writeln') and re.search(r'rename\s*=\s*\\?"\{\}', m.get('fmt') or '')] if n else []
            rep.check(h['hands_back_spelling'] and bool(fm) and kind != 'idl::Error', 'R15.1', '%s|%s|%s|via-%s|%d' % (body.path, h['conv'], kind, d.split('::')[-1], ordh), C.where(body, blk),
                      'the %s name is converted by %s, which hands the IDL spelling back, and the emitter formats a rename attribute' % (kind.split('::')[-1], d.split('::')[-1]),
                      'the %s name is case-converted by the helper %s but %s' % (kind.split('::')[-1], d.split('::')[-1],
                                                                             'the helper does not hand the IDL spelling back' if not h['hands_back_spelling'] else
                                                                             ('error names must not be converted' if kind == 'idl::Error' else 'the emitter formats no rename attribute')))
    # ---- the rename decision sees the identifier that is finally emitted (MIR, any function - also an extracted helper):
    # where a case-converted name is escaped by safe_ident, a comparison of the *unescaped* converted name with the IDL
    # spelling may decide about the rename only together with the keyword test
    n_dec = 0
    for body in crate.bodies:
        if body.in_test or 'codegen' not in body.path:
            continue
        calls = list(body.iter_terms('call'))
        heck = [(b, tm) for b, tm in calls if tm['callee'].get('name') in HECK]
        safe = [(b, tm) for b, tm in calls if tm['callee'].get('name') == 'safe_ident' and (tm['callee'].get('def') or '').startswith('codegen')]
        if not heck or not safe:
            continue
        heck_blocks = {b for b, _ in heck}

        def derives(op, want_blocks, stop_names=()):
            q = op_place(op)
            if not q:
                return False
            _, evs = body.slice_back(list(mir.place_locals_read(q)))
            hit = any(e[0] == 'call' and e[1] in want_blocks for e in evs)
            through = any(e[0] == 'call' and e[2]['callee'].get('name') in stop_names for e in evs)
            return hit, through
        escaped_conv = any(derives(tm['args'][0], heck_blocks)[0] for b, tm in safe if tm['args'])
        if not escaped_conv:
            continue
        kw = [(b, tm) for b, tm in calls if tm['callee'].get('name') == 'is_rust_keyword']
        kw_on_conv = any(derives(tm['args'][0], heck_blocks)[0] for b, tm in kw if tm['args'])
        for b, tm in calls:
            if tm['callee'].get('name') not in ('ne', 'eq') or len(tm['args']) != 2 or 'PartialEq' not in (tm['callee'].get('trait') or tm['callee'].get('def') or ''):
                continue
            sides = [derives(a, heck_blocks, ('safe_ident',)) for a in tm['args']]
            sides = [x if x else (False, False) for x in sides]
            conv_unescaped = [hit and not through for hit, through in sides]
            if not any(conv_unescaped):
                continue
            n_dec += 1
            rep.check(kw_on_conv, 'R15.1', '%s|decision-sees-emitted-identifier|%d' % (body.path, n_dec), C.where(body, b),
                      'the comparison of the converted name with the IDL spelling is accompanied by the keyword test on the converted name',
                      'in %s the rename is decided by comparing the case-converted name with the IDL spelling, but the identifier that is emitted is that name after safe_ident '
                      '(keywords become raw identifiers, `self` / `Self` / `super` / `crate` get a trailing `_`) and neither the escaped identifier nor the keyword test takes part: '
                      'for a member called `self` no rename is emitted and `self_` reaches the wire' % body.name)
    # error names verbatim
    if 'generate_errors' in fns:
        f, n = fns['generate_errors']
        verb = any(x.get('k') == 'let' and A.text(x.get('init')).replace(' ', '').endswith('error.name()') for x in A.nodes(n['body'])) or \
            any(x.get('k') == 'macro' and any(re.sub(r'\s', '', a) == 'error.name()' for a in x.get('args') or []) for x in A.nodes(n['body']))
        rep.check(verb, 'R15.1', 'generate_errors|error-name-verbatim', '%s:%s' % (f, n.get('line')), 'error variants are emitted with the IDL spelling of the error name',
                  'error variants are not emitted with the IDL spelling of the error name')
    rep.floor('R15.1', 8, 'case conversions in the code generator')
    if n_wire < 5:
        rep.bad('R15.1', 'floor-wire', CG, 'expected at least 5 conversions of wire names (enum value, field, output, method, parameter, error field), found %d' % n_wire)


REF_TABLE = {'Bool': 'bool', 'Int': 'i64', 'Float': 'f64', 'String': 'String', 'Object': 'serde_json::Value', 'Enum': 'String', 'Array': 'Vec<{}>',
             'Map': 'HashMap<String,{}>', 'ForeignObject': 'serde_json::Value', 'Optional': 'Option<{}>', 'Custom': '{pascal}'}


def norm_ty(s):
    s = re.sub(r"'[a-z_]+\s*", '', s)
    s = s.replace('&', '').replace(' ', '').replace('std::collections::', '')
    s = re.sub(r'\[(\{\})\]', r'Vec<\1>', s)
    s = re.sub(r'\bstr\b', 'String', s)
    return s


def check_type_tables(fx, rep):
    t = fx.tpl
    tables = {}
    for f, n, impl in A.all_fns(t, CG):
        if not n['name'].startswith('type_to_rust') or (impl and impl.get('self_ty')):
            continue
        for m in A.nodes(n['body']):
            if m.get('k') != 'match':
                continue
            tb = {}
            for arm in m.get('arms') or []:
                pm = re.match(r'Type\s*::\s*(\w+)', arm.get('pat') or '')
                if not pm:
                    continue
                val = None
                for x in A.nodes(arm.get('body')):
                    if x.get('k') == 'str' and val is None:
                        val = x.get('value')
                    if x.get('k') == 'macro' and x.get('name') == 'format':
                        val = x.get('fmt')
                    if x.get('k') == 'mcall' and x.get('method') in HECK and val is None:
                        val = '{pascal}'
                if val is not None:
                    val = '{pascal}' if (pm.group(1) == 'Custom' and val.replace('&', '') in ('{}', '{pascal}')) else val
                    tb[pm.group(1)] = norm_ty(val)
            if len(tb) >= 8:
                tables[n['name']] = (tb, f, n.get('line'))
    rep.check(len(tables) >= 4, 'R15.2', 'type-tables|found', CG, '%d IDL->Rust type tables found: %s' % (len(tables), sorted(tables)),
              'expected 4 IDL->Rust type tables (fields, parameters, parameter elements, outputs), found %s' % sorted(tables))
    for name, (tb, f, line) in sorted(tables.items()):
        for ctor, want in sorted(REF_TABLE.items()):
            got = tb.get(ctor)
            rep.check(got == want, 'R15.2', 'type-table|%s|%s' % (name, ctor), '%s:%s' % (f, line), 'Type::%s -> %s' % (ctor, got),
                      'in %s the IDL constructor %s maps to `%s`, the other tables / the reference say `%s`' % (name, ctor, got, want))


def check_keywords(fx, rep):
    t = fx.tpl
    fns = {n['name']: (f, n) for f, n, impl in A.all_fns(t, CG)}
    if 'is_rust_keyword' not in fns or 'safe_ident' not in fns:
        rep.bad('R15.3', 'anchor', CG, 'is_rust_keyword / safe_ident not found')
        return
    f, n = fns['is_rust_keyword']
    words = {x.get('value') for x in A.nodes(n['body']) if x.get('k') == 'str'}
    missing = sorted(RUST_KEYWORDS - words)
    rep.check(not missing, 'R15.3', 'keyword-table|complete', '%s:%s' % (f, n.get('line')), 'the keyword table contains all %d strict and reserved keywords' % len(RUST_KEYWORDS),
              'the keyword table lacks %s: an IDL name spelled like that produces code that does not compile' % missing, {'table_size': len(words)})
    f, n = fns['safe_ident']
    special = set()
    order_ok = False
    for x in A.nodes(n['body']):
        if x.get('k') == 'if':
            c = x.get('cond') or ''
            lits = {y.get('value') for y in A.nodes(x.get('cond_node') or {}) if y.get('k') == 'str'} | set(re.findall(r'"(\w+)"', c))
            if lits & NOT_RAW:
                special = lits
                # this branch must not produce r#
                txt = ' '.join(m.get('fmt') or '' for m in A.nodes(x.get('then')) if m.get('k') == 'macro')
                order_ok = 'r#' not in txt
    rep.check(NOT_RAW <= special and order_ok, 'R15.3', 'safe_ident|not-raw-words', '%s:%s' % (f, n.get('line')),
              'self / Self / super / crate are handled before the r# branch and not emitted as raw identifiers',
              'safe_ident can emit `r#self`-style identifiers for %s, which rustc rejects' % sorted(NOT_RAW - special or NOT_RAW))


def check_idents(fx, rep):
    crate = fx.crate('zlink_macros', 'full')
    n = 0
    for body in crate.bodies:
        if body.in_test:
            continue
        ord_ = 0
        for blk, tm in body.iter_terms('call'):
            if tm['callee'].get('name') != 'to_string' or 'Ident' not in (tm['callee'].get('self_ty') or ''):
                continue
            n += 1
            ord_ += 1
            fn_path = re.sub(r'::\{closure#\d+\}', '', re.sub(r"<'[a-z_]+>", '', body.path))
            tr = body.trace(tm['args'][0])
            unrawed = tr.get('kind') == 'call' and tr['callee'].get('name') == 'unraw'
            key = '%s|ident-to-string|%d' % (fn_path, ord_)
            if unrawed:
                rep.ok('R15.4', key, C.where(body, blk), 'identifier is unraw\'d before it is stringified')
            elif tr.get('kind') == 'place' and tr.get('fields') and tr['fields'][-1][0] in TYPE_LEVEL_IDENT_OWNERS:
                rep.ok('R15.4', key, C.where(body, blk), 'not a wire name: the identifier of a %s (a generic parameter / a path segment of a type), compared or re-emitted as a type' %
                       tr['fields'][-1][0], nontrivial=False)
            else:
                rep.bad('R15.4', key, C.where(body, blk),
                        'an identifier is turned into a string without IdentExt::unraw() in %s: for a raw identifier (`r#type`, needed for names that are Rust keywords) '
                        'the wire / IDL name becomes "r#type"' % fn_path)
    if n < 10:
        rep.bad('R15.4', 'floor', 'zlink-macros/src', 'expected at least 10 Ident::to_string sites in zlink-macros, found %d: anchor lost' % n)


def import_macro_rules(fx, rep):
    import engine, c12, c05
    sub = engine.Report('C12', 'quick')
    c12.check(fx, sub, 'quick')
    n = 0
    for i in sub.insts:
        if i.rule in ('R12.4', 'R12.3', 'R12.7', 'R12.8'):
            n += 1
            (rep.ok if i.ok else rep.bad)('R15.5', i.rule + '|' + i.key, i.where, i.msg, i.detail)
    sub = engine.Report('C05', 'quick')
    c05.check_derive(fx, sub)
    for i in sub.insts:
        n += 1
        (rep.ok if i.ok else rep.bad)('R15.5', i.rule + '|' + i.key, i.where, i.msg, i.detail)
    if n < 6:
        rep.bad('R15.5', 'anchor', '-', 'imported macro rules produced too few instances (%d)' % n)


def check_generator_state(fx, rep):
    """R15.7: one generator object is used for every interface of a run (`generate_interfaces`): whatever it remembers besides the text written so far
    leaks from one interface into the next - the first interface's error type, rename decision .. would be used for all later ones"""
    cg = fx.crate('zlink_codegen', 'full')
    adts = [(p_, a) for p_, a in cg.adts.items() if p_.endswith('CodeGenerator')]
    if not adts:
        rep.bad('R15.7', 'anchor', 'zlink-codegen/src/codegen.rs', 'struct CodeGenerator not found in the type facts')
        return
    SINK = {'std::string::String', 'alloc::string::String', 'String', 'usize', 'u32', 'u16', 'u8'}
    for p_, a in adts:
        for v in a.get('variants') or []:
            for f in v.get('fields') or []:
                ty = f.get('ty') or ''
                rep.check(ty in SINK, 'R15.7', '%s|field-%s|no-state-across-interfaces' % (p_, f.get('name')), '%s:%s' % (a.get('file'), a.get('line')),
                          'field `%s: %s` is the output text or the indentation counter' % (f.get('name'), ty),
                          'the generator object keeps `%s: %s` between the interfaces it is asked to generate: a value remembered for the first interface (an error type, a '
                          'name decision) is used for every later one, so their generated code decodes / names things as the first interface declares them' % (f.get('name'), ty))
    rep.floor('R15.7', 2, 'fields of CodeGenerator')


def check(fx, rep, tier):
    rep.rule('R15.7', 'the code generator carries no state from one interface to the next: its fields are the output text and the indentation level only')
    check_generator_state(fx, rep)
    rep.rule('R15.1', 'every case conversion of a wire name is paired, in the same emitter, with a rename attribute carrying the IDL spelling; error names are emitted verbatim')
    rep.rule('R15.2', 'the four IDL->Rust type tables agree with each other and with the reference table, constructor by constructor')
    rep.rule('R15.3', 'keyword table contains every strict/reserved keyword; self/Self/super/crate are never emitted as raw identifiers')
    rep.rule('R15.4', 'zlink-macros: every Ident -> String conversion that can become a wire/IDL name passes through unraw() (frozen exemption table)')
    rep.rule('R15.5', 'the proxy field emitter truth table / method path rules (C12) and the derive pairing rules (C05) hold')
    check_pairing(fx, rep)
    check_type_tables(fx, rep)
    check_keywords(fx, rep)
    check_idents(fx, rep)
    import_macro_rules(fx, rep)
    import imports as _imp
    _imp.layer(fx, rep, 'C15')
    return META
