"""Engine E: lifetime laundering (reference -> raw pointer -> reference in one body) and where the laundered borrow goes.

A *laundering site* re-creates a reference from a raw pointer that was itself made from a reference in the same body
(`&mut *(r as *mut T)`, `&mut *(&mut x as *mut _)`): the new reference has an unbounded lifetime chosen by inference.
From each site a forward, flow-insensitive taint over MIR locals follows the reference and everything that can carry it
(by type: only values whose type mentions a reference, a lifetime or a type parameter can hold a borrow).  The rules ask
(E1) does it reach the return place or get stored behind a `&mut` that outlives the call (escape), and (E2) is the place it
was laundered from structurally mutated while a tainted value is still read later.
"""
import re
import mir
from mir import op_place, place_is_local

PRIMS = {'usize', 'isize', 'u8', 'u16', 'u32', 'u64', 'u128', 'i8', 'i16', 'i32', 'i64', 'i128', 'bool', 'char', 'f32', 'f64', 'str',
         'mut', 'const', 'dyn', 'as', 'fn', 'unsafe', 'extern', 'for', 'impl', 'Self', 'static'}


def carries(ty):
    """can a value of this type hold a borrow?  (mentions a reference / lifetime / raw pointer / bare type parameter)"""
    if not ty:
        return True
    if '&' in ty or "'" in ty or '*mut' in ty or '*const' in ty or '{closure' in ty or '{coroutine' in ty or '{async' in ty:
        return True
    # associated-type projections without lifetime arguments cannot name the laundered lifetime
    t = ty
    for _ in range(6):
        t2 = re.sub(r"<[A-Za-z_][A-Za-z0-9_]* as [A-Za-z0-9_:]+>::[A-Za-z0-9_]+", 'PROJ::X', t)
        if t2 == t:
            break
        t = t2
    for tok in re.findall(r"[A-Za-z_][A-Za-z0-9_:]*", t):
        if '::' in tok or tok in PRIMS:
            continue
        return True   # bare identifier: a type parameter
    return False


class Site:
    def __init__(self, body, block, idx, stmt, raw_local, referent_ty, src_place):
        self.body, self.block, self.idx, self.stmt = body, block, idx, stmt
        self.raw_local = raw_local
        self.referent_ty = referent_ty
        self.src_place = src_place      # place the raw pointer was made from
        self.line = stmt.get('line')

    def key(self):
        return '%s|launder|%s' % (self.body.path, re.sub(r"<.*", '', self.referent_ty or '?'))


def sites(body):
    """laundering sites of a body: `x = &[mut] (*raw)` with `raw = &raw [mut] P`, P reached through a reference"""
    raws = {}
    for b, i, s in body.iter_assigns():
        if s['rv']['k'] == 'rawptr' and place_is_local(s['place']):
            raws[s['place']['l']] = (b, i, s)
        elif s['rv']['k'] == 'cast' and place_is_local(s['place']) and (s['place'].get('ty') or '').startswith(('*mut', '*const')):
            q = op_place(s['rv']['op'])
            if q and (q.get('ty') or '').startswith('&'):
                raws[s['place']['l']] = (b, i, s)
            elif q and q['l'] in raws:
                raws[s['place']['l']] = raws[q['l']]
    out = []
    for b, i, s in body.iter_assigns():
        rv = s['rv']
        if rv['k'] != 'ref':
            continue
        p = rv['place']
        if p['l'] in raws and p.get('p') and p['p'][0] == '*':
            rb, ri, rs = raws[p['l']]
            ty = (body.local_ty(p['l']) or '')
            ref_ty = re.sub(r'^\*(mut|const) ', '', ty)
            src = rs['rv'].get('place') or op_place(rs['rv'].get('op'))
            out.append(Site(body, b, i, s, p['l'], ref_ty, src))
    return out


def taint(body, site, extra_seeds=()):
    """forward closure of locals that may hold the laundered borrow. returns (tainted set, stores) where stores is a list of
    (block, term, target_base_local) for calls that receive a tainted value together with a `&mut` to something else"""
    tainted = {site.stmt['place']['l']} | set(extra_seeds)
    stores = []
    changed = True
    guard = 0
    while changed and guard < 60:
        guard += 1
        changed = False
        for b, i, s in body.iter_assigns():
            dst = s['place']
            if dst['l'] in tainted:
                continue
            reads = [q['l'] for q in mir.rv_places_read(s['rv'])]
            if any(r in tainted for r in reads):
                if carries(dst.get('ty')):
                    tainted.add(dst['l'])
                    changed = True
        for b, t in body.iter_terms('call'):
            args = [op_place(a) for a in t['args']]
            ind = op_place(t['callee'].get('indirect')) if t['callee'].get('indirect') else None
            hot = [q for q in args + [ind] if q and q['l'] in tainted]
            if not hot:
                continue
            d = t['dest']
            if d['l'] not in tainted and carries(d.get('ty')):
                tainted.add(d['l'])
                changed = True
            # a tainted value handed over together with a &mut to something not tainted: may be stored there
            for q in args:
                if not q or q['l'] in tainted:
                    continue
                ty = q.get('ty') or body.local_ty(q['l']) or ''
                if ty.startswith('&mut') or ty.startswith('std::pin::Pin<&mut'):
                    base = _ref_base(body, q)
                    if base is not None and base not in tainted and storage_type_may_hold(ty):
                        hot_carry = [h for h in hot if carries(h.get('ty') or body.local_ty(h['l']))]
                        if hot_carry:
                            tainted.add(base)
                            stores.append((b, t, base))
                            changed = True
    return tainted, stores


def storage_type_may_hold(ty):
    """may a `&mut T` argument be used to stash a borrow?  T must be able to name a lifetime (mentions a reference /
    lifetime / closure) or be an opaque type parameter itself; an ADT merely instantiated with type parameters cannot
    acquire a borrow created after those parameters were chosen.  task::Context only carries its waker."""
    t = ty or ''
    t = re.sub(r'^std::pin::Pin<(.*)>$', r'\1', t)
    t = re.sub(r"^&('[a-z_0-9]+ )?mut ", '', t)
    if 'task::Context' in t:
        return False
    if '&' in t or "'" in t or '{closure' in t or '{coroutine' in t or '*mut' in t or '*const' in t:
        return True
    return bool(re.fullmatch(r'[A-Za-z_][A-Za-z0-9_]*', t)) and t not in PRIMS


def _ref_base(body, q, depth=8):
    """base local of the place a `&mut` operand points into (through reborrows / Pin::as_mut / deref_mut)"""
    for _ in range(depth):
        sd = body.single_def(q['l'])
        if q.get('p') and q['p'] != ['*']:
            return q['l']
        if 1 <= q['l'] <= body.arg_count:
            return q['l']
        if not sd:
            return q['l']
        if sd[2] == 'assign':
            rv = sd[3]['rv']
            if rv['k'] in ('ref', 'rawptr'):
                p = rv['place']
                if place_is_local(p):
                    return p['l']
                q = p
                if p.get('p') and p['p'][0] != '*':
                    return p['l']
                if p.get('p') and p['p'][0] == '*':
                    q = {'l': p['l'], 'p': None}
                continue
            if rv['k'] in ('use', 'cast') and op_place(rv['op']):
                q = op_place(rv['op'])
                continue
            return q['l']
        if sd[2] == 'call' and sd[3]['callee'].get('name') in ('as_mut', 'deref_mut', 'get_mut', 'get_unchecked_mut', 'new_unchecked', 'new', 'borrow_mut') and sd[3]['args']:
            nq = op_place(sd[3]['args'][0])
            if not nq:
                return q['l']
            q = nq
            continue
        return q['l']
    return q['l']


def escapes(body, site):
    """E1: (reaches_return, stored_in_args) for the site"""
    tainted, stores = taint(body, site)
    ret = 0 in tainted
    arg_stores = [(b, t, base) for b, t, base in stores if _derives_from_arg(body, base)]
    return ret, arg_stores, tainted


def _derives_from_arg(body, l, depth=8):
    seen = set()
    work = [l]
    while work and len(seen) < 64:
        x = work.pop()
        if x in seen:
            continue
        seen.add(x)
        if 1 <= x <= body.arg_count:
            return True
        for (b, i, kind, payload) in body.defs().get(x, []):
            if kind == 'assign':
                for q in mir.rv_places_read(payload['rv']):
                    work.append(q['l'])
            elif kind == 'call':
                for a in payload['args']:
                    q = op_place(a)
                    if q:
                        work.append(q['l'])
    return False


def liveness_nodrop(body):
    """may-liveness where Drop / StorageDead are not uses (a value that is only dropped later is not read)"""
    n = body.n
    use = [set() for _ in range(n)]
    deff = [set() for _ in range(n)]
    for b in range(n):
        if body.is_cleanup(b):
            continue
        u, d = set(), set()

        def use_place(p, as_def=False):
            for e in p.get('p') or []:
                if isinstance(e, dict) and 'idx' in e and e['idx'] not in d:
                    u.add(e['idx'])
            if as_def and not p.get('p'):
                d.add(p['l'])
            elif p['l'] not in d:
                u.add(p['l'])
        for s in body.stmts(b):
            if s['k'] == 'assign':
                for q in mir.rv_places_read(s['rv']):
                    use_place(q)
                use_place(s['place'], as_def=True)
        t = body.term(b)
        k = t['k']
        if k == 'call':
            for a in t['args']:
                q = op_place(a)
                if q:
                    use_place(q)
            ind = t['callee'].get('indirect')
            if ind and op_place(ind):
                use_place(op_place(ind))
            use_place(t['dest'], as_def=True)
        elif k == 'switch':
            q = op_place(t['op'])
            if q:
                use_place(q)
        elif k == 'yield':
            q = op_place(t['value'])
            if q:
                use_place(q)
            use_place(t['resume_arg'], as_def=True)
        elif k == 'return':
            if 0 not in d:
                u.add(0)
        use[b], deff[b] = u, d
    live_in = [set() for _ in range(n)]
    live_out = [set() for _ in range(n)]
    changed = True
    while changed:
        changed = False
        for b in reversed(range(n)):
            if body.is_cleanup(b):
                continue
            out = set()
            for s in body.succ(b):
                out |= live_in[s]
            inn = use[b] | (out - deff[b])
            if out != live_out[b] or inn != live_in[b]:
                live_out[b], live_in[b] = out, inn
                changed = True
    return live_in, live_out
