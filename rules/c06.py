"""C06 - a chain's reply stream yields exactly the replies its calls are owed (R06.1 - R06.5)."""
import re
import mir
from mir import op_place, op_str, place_is_local
import common as C
import pathsens as PS
import sym

CH = 'connection::chain::Chain'
RS = 'connection::chain::reply_stream::ReplyStream'

META = {
    'level': 'other',
    'explanation': (
        'Accounting, guard-dominance and path rules over the MIR of Chain::{new, append, send} and ReplyStream::{new, '
        'poll_next}: (R06.1) reply accounting - the expression send() hands to the stream as "replies owed" is evaluated as a '
        'linear form over the chain\'s counters, and for every function that enqueues a call, on every feasible path (the '
        'Call::oneway() branch followed by constant propagation), that form grows by exactly 1 when the call is not oneway and '
        'by 0 when it is (constructors: its initial value is 1 / 0); a path that enqueues without consulting the flag fails '
        'both; (R06.2) send flushes exactly once, the flush dominates the construction of the stream, the stream reads the '
        'connection whose write half was flushed, no enqueue follows the flush; the proxy template for `more` methods builds '
        'the stream with the literal count 1 after send_call; Chain::new / append enqueue but never flush or touch the '
        'transport; (R06.3) exhaustion is decided before the first receive: the stream\'s done flag is initialised from a '
        'comparison of the owed count (not a constant), the receive future is created only on the not-done edge, and the done '
        'edge returns Ready(None) without polling; (R06.4) per-item bookkeeping: every store to the completed-call index is '
        '+1; the method-error arm increments on every path, the success arm increments exactly under a test of '
        'Reply::continues() against Some(true) (promoted constant read from the MIR) on the right polarity, the transport-error '
        'arm sets done; every path from an increment to the return re-evaluates exhaustion (index vs owed count -> done); '
        '(R06.5) one receive per poll: the receive future is created only in the Init state and the state returns to Init on '
        'every path that yields an item; (R06.6) the inbound framing rules of C01 (same rule code): each receive consumes exactly one frame. Not decided: item-by-item equality with a server script under every chunking.'),
    'assumptions': ['Connection::receive_reply consumes exactly one frame per successful or failed decode (C01)',
                    'typestate: the stream borrows the connection mutably for its lifetime, the chain is consumed by send (type checker)'],
}


def lin(e):
    """linear form over chain fields: dict {fieldname: coeff, 1: const} or None"""
    k = e[0]
    if k == 'const' and isinstance(e[1], int):
        return {1: e[1]}
    if k == 'field':
        return {e[1][-1]: 1}
    if k == 'bin' and e[1] in ('Add', 'Sub'):
        a, b = lin(e[2]), lin(e[3])
        if a is None or b is None:
            return None
        out = dict(a)
        for t, c in b.items():
            out[t] = out.get(t, 0) + (c if e[1] == 'Add' else -c)
        return out
    return None


def eval_flag_expr(e, oneway):
    """value (0/1/bool) of an expression built from Call::oneway(), `!`, `as usize` / usize::from / bool-to-int; None if it has another shape"""
    k = e[0]
    if k == 'const':
        return e[1]
    if k == 'call' and e[1] == 'oneway':
        return bool(oneway)
    if k == 'un' and e[1] == 'Not':
        v = eval_flag_expr(e[2], oneway)
        return None if v is None else (not v)
    if k == 'call' and e[1] in ('from', 'into', 'try_from') and len(e[2]) == 1:
        v = eval_flag_expr(e[2][0], oneway)
        return None if v is None else int(v)
    if k == 'call' and e[1] in ('then_some', 'unwrap_or', 'unwrap_or_default'):
        return None
    return None


def oneway_switch(body):
    """(switch block, true target, false target) of the branch on Call::oneway() of the enqueued call"""
    for sw in range(body.n):
        if body.is_cleanup(sw) or body.term(sw)['k'] != 'switch' or body.term(sw).get('op_ty') != 'bool':
            continue
        info = body.switch_info(sw)
        if not info:
            continue
        src = info['src']
        hit = src.get('kind') == 'call' and src['callee'].get('name') == 'oneway' and 'call::Call' in (src['callee'].get('def') or '')
        if not hit:
            q = op_place(body.term(sw)['op'])
            if q:
                locs, events = body.slice_back([q['l']])
                cs = [ev[2]['callee'].get('name') for ev in events if ev[0] == 'call']
                hit = 'oneway' in cs and all(c in ('oneway', 'not', 'unwrap_or', 'unwrap_or_default') for c in cs)
        if hit:
            return sw, info['true'], info['false']
    return None


def check_chain(fx, rep, crate, cfg):
    chain_fns = [b for b in C.methods(crate, CH) if not b.in_test]
    send = [b for b in chain_fns if any('ReplyStream' in (t['callee'].get('def') or '') and t['callee'].get('name') == 'new'
                                        for _, t in C.async_body(crate, b).iter_terms('call'))]
    if not send:
        rep.bad('R06.2', 'anchor-send|%s' % cfg, '-', 'no Chain method constructing the reply stream found')
        return
    sb = C.async_body(crate, send[0])
    news = [(b, t) for b, t in sb.iter_terms('call') if 'ReplyStream' in (t['callee'].get('def') or '') and t['callee'].get('name') == 'new']
    nb, nt = news[0]
    owed_e = sym.expr(crate, sb, nt['args'][2])
    owed = lin(owed_e)
    rep.check(owed is not None and any(k != 1 for k in owed), 'R06.1', '%s|owed-expression|%s' % (sb.path, cfg), C.where(sb, nb),
              'replies owed handed to the stream: %s' % sym.show(owed_e),
              'the owed-reply count handed to the stream is not a linear expression over the chain\'s counters: %s' % sym.show(owed_e))
    if owed is None:
        return
    # enqueue sites
    n_sites = 0
    for f in chain_fns:
        body = C.async_body(crate, f)
        enq = [(b, t) for b, t in body.iter_terms('call') if t['callee'].get('name') in ('enqueue_call', 'enqueue') and
               'write_connection::WriteConnection' in (t['callee'].get('def') or '')]
        if not enq:
            continue
        n_sites += 1
        ow = oneway_switch(body)
        watch = {}
        if ow:
            watch['ow_true'] = {ow[1]}
            watch['ow_false'] = {ow[2]}
        # field stores with constant deltas
        deltas = {}
        delta_exprs = {}
        for b, i, s in body.iter_assigns():
            lf = mir.place_last_field(s['place'])
            if not lf or not (lf[0] and CH in lf[0]):
                continue
            last = (s['place'].get('p') or [None])[-1]
            if not (isinstance(last, dict) and 'f' in last):
                continue
            e = sym.expr(crate, body, s['rv']['op']) if s['rv']['k'] == 'use' else None
            d = None
            if e and e[0] == 'bin' and e[1] in ('Add', 'Sub') and e[3][0] == 'const':
                d = e[3][1] if e[1] == 'Add' else -e[3][1]
            elif e and e[0] == 'bin' and e[1] in ('Add', 'Sub'):
                # the amount is an expression of the flag (e.g. usize::from(!call.oneway())): evaluated per polarity below
                d = 'expr%d' % b
                delta_exprs[d] = (e[3], 1 if e[1] == 'Add' else -1)
            name = 'store|%s|%s|%d' % (lf[1], d, b)
            watch[name] = {b}
        okb = set(C.ok_exit_blocks(body))
        watch['ok'] = okb
        # constructor aggregate?
        aggr = [(b, i, s) for b, i, s in C.aggr_adt_sites(body, CH)]
        paths = PS.explore(body, 0, set(), watch)
        paths = [p for p in paths if 'ok' in p[1]]
        bad = []
        seen_pol = set()
        for end, passed, ff in paths:
            pol = 'oneway' if 'ow_true' in passed else ('reply' if 'ow_false' in passed else 'unknown')
            seen_pol.add(pol)
            val = 0
            unknown = False
            flag_terms = []
            if aggr:
                b0, i0, s0 = aggr[0]
                fields = s0['rv'].get('fields') or []
                for name, coeff in owed.items():
                    if name == 1:
                        val += coeff
                        continue
                    if name not in fields:
                        unknown = True
                        continue
                    op = s0['rv']['ops'][fields.index(name)]
                    if op.get('k') == 'const' and isinstance(op.get('val'), int):
                        val += coeff * op['val']
                    else:
                        q = op_place(op)
                        fct = None
                        if q and place_is_local(q):
                            fct = ff.get(q['l'])
                            if fct is None:
                                sd = body.single_def(q['l'])
                                if sd and sd[2] == 'assign' and sd[3]['rv']['k'] == 'use' and op_place(sd[3]['rv']['op']):
                                    fct = ff.get(op_place(sd[3]['rv']['op'])['l'])
                        if fct and fct[0] == 'int':
                            val += coeff * fct[1]
                        else:
                            # the initial value is an expression of the flag (usize::from(!call.oneway())): evaluated per polarity below
                            fe = sym.expr(crate, body, op)
                            if eval_flag_expr(fe, True) is not None and eval_flag_expr(fe, False) is not None:
                                flag_terms.append((coeff, fe))
                            else:
                                unknown = True
            else:
                for m in passed:
                    if m.startswith('store|'):
                        _, fld, d, _b = m.split('|')
                        if fld in owed:
                            if d == 'None':
                                unknown = True
                            elif d.startswith('expr'):
                                pass
                            else:
                                val += owed[fld] * int(d)
            want = {'oneway': [0], 'reply': [1], 'unknown': [0, 1]}[pol]
            # amounts that are expressions of the flag: evaluate for each polarity the path is consistent with
            expr_marks = [m for m in passed if m.startswith('store|') and m.split('|')[2].startswith('expr')]
            if expr_marks and not aggr:
                okp = True
                for ow, w in ((True, 0), (False, 1)):
                    if pol == 'oneway' and not ow or pol == 'reply' and ow:
                        continue
                    v2 = val
                    for m in expr_marks:
                        _, fld, dk, _b = m.split('|')
                        ev = eval_flag_expr(delta_exprs[dk][0], ow)
                        if ev is None:
                            okp = False
                        elif fld in owed:
                            v2 += owed[fld] * ev * delta_exprs[dk][1]
                    if v2 != w:
                        okp = False
                if not okp:
                    bad.append({'call_is': pol, 'owed_changes_by': 'flag expression that does not evaluate to 1 / 0'})
                else:
                    seen_pol.update({'oneway', 'reply'} if pol == 'unknown' else {pol})
                continue
            if flag_terms and not unknown:
                okp = True
                for ow, w in ((True, 0), (False, 1)):
                    if pol == 'oneway' and not ow or pol == 'reply' and ow:
                        continue
                    if val + sum(c * eval_flag_expr(fe, ow) for c, fe in flag_terms) != w:
                        okp = False
                if okp:
                    seen_pol.update({'oneway', 'reply'} if pol == 'unknown' else {pol})
                else:
                    bad.append({'call_is': pol, 'owed_starts_at': 'flag expression that does not evaluate to 1 / 0'})
                continue
            if unknown or any(val != w for w in want):
                bad.append({'call_is': pol, 'owed_changes_by' if not aggr else 'owed_starts_at': None if unknown else val})
        kind = 'initial value' if aggr else 'change'
        rep.check(bool(paths) and not bad and seen_pol >= {'oneway', 'reply'}, 'R06.1', '%s|owed-accounting|%s' % (body.path, cfg), body.where(),
                  'on every feasible Ok path the %s of the owed-reply count is 1 for a call that expects a reply and 0 for a oneway call (%d paths)' % (kind, len(paths)),
                  'the owed-reply count (%s) is not accounted per call: %s of the count on Ok paths of this enqueue site: %s '
                  '(needed: 1 when the call is not oneway, 0 when it is)' % (sym.show(owed_e), kind, bad or 'the oneway flag is never consulted'),
                  {'paths': len(paths), 'bad': bad[:6]})
        # R06.2 enqueue sites do not flush / write
        fl = [C.where(body, b) for b, t in body.iter_terms('call') if t['callee'].get('name') in ('flush', 'write', 'send_call')]
        rep.check(not fl, 'R06.2', '%s|enqueue-only|%s' % (body.path, cfg), body.where(),
                  'enqueues without flushing (the whole chain goes out in one write at send)',
                  'a chain-building function flushes or writes: the chain no longer reaches the transport in one write', {'sites': fl})
    # constructions of the chain outside the enqueue sites: the owed count must start at 0 there (whoever enqueued the first call did
    # not account for its oneway flag)
    enq_paths = set()
    for f in chain_fns:
        body = C.async_body(crate, f)
        if any(t['callee'].get('name') in ('enqueue_call', 'enqueue') and 'write_connection::WriteConnection' in (t['callee'].get('def') or '') for _, t in body.iter_terms('call')):
            enq_paths.add(body.path)
    for body in crate.bodies:
        if body.in_test or body.path in enq_paths:
            continue
        for b0, i0, s0 in C.aggr_adt_sites(body, CH):
            if not (s0['rv'].get('adt') or '').endswith('chain::Chain'):
                continue
            fields = s0['rv'].get('fields') or []
            val, unknown = 0, False
            for name, coeff in owed.items():
                if name == 1:
                    val += coeff
                    continue
                if name not in fields:
                    unknown = True
                    continue
                op = s0['rv']['ops'][fields.index(name)]
                tr = body.trace(op)
                if tr.get('kind') == 'const' and isinstance(tr.get('val'), int):
                    val += coeff * tr['val']
                else:
                    unknown = True
            rep.check(not unknown and val == 0, 'R06.1', '%s|chain-built-without-enqueue|%s' % (body.path, cfg), C.where(body, b0, i0),
                      'a chain built by a function that enqueues nothing starts with 0 replies owed',
                      'a Chain is built here with %s replies owed although this function enqueues no call (and so cannot know whether the call was oneway): a chain that starts '
                      'with a oneway call then waits for a reply nobody owes' % ('an unknown number of' if unknown else val))
    rep.floor('R06.1', 2, 'owed expression + at least one enqueue site')
    # ---- R06.2 send
    flushes = [(b, t) for b, t in sb.iter_terms('call') if t['callee'].get('name') == 'flush']
    ok = len(flushes) == 1
    det = {'flush_sites': len(flushes)}
    if ok:
        fb, ft = flushes[0]
        # Ok continuation of the flush dominates stream construction
        edges = C.try_edges(sb, fb)
        okdom = any(sb.dominates(cont, nb) for sw, cont, brk in edges)
        same_conn = False
        fe = sym.expr(crate, sb, ft['args'][0])
        ne = sym.expr(crate, sb, nt['args'][0])
        if fe[0] == 'field' and ne[0] in ('call', 'field'):
            base = fe[1][:-1]
            nf = ne[2][0] if ne[0] == 'call' and ne[2] else ne
            same_conn = nf[0] == 'field' and nf[1][:len(base)] == base
        det.update({'flush_ok_edge_dominates_stream': okdom, 'same_connection': same_conn, 'flushed': sym.show(fe), 'stream_reads': sym.show(ne)})
        enq_after = [C.where(sb, b) for b, t in sb.iter_terms('call') if t['callee'].get('name') in ('enqueue_call', 'enqueue') and b in sb.reachable(fb)]
        ok = okdom and same_conn and not enq_after
    rep.check(ok, 'R06.2', '%s|one-flush-before-stream|%s' % (sb.path, cfg), sb.where(),
              'send flushes exactly once; the Ok edge of the flush dominates the stream construction; the stream reads the flushed connection',
              'send does not flush exactly once before building the stream on the same connection', det)


def check_stream(fx, rep, crate, cfg):
    pn = [b for b in crate.bodies if not b.in_test and b.name == 'poll_next' and b.impl_self and RS in b.impl_self]
    new = [b for b in C.methods(crate, RS, 'new')]
    if not pn or not new:
        rep.bad('R06.3', 'anchor|%s' % cfg, '-', 'ReplyStream::poll_next / new not found')
        return
    pn, new = pn[0], new[0]
    fk = pn.path
    # roles of the fields from the constructor
    ag = [x for x in C.aggr_adt_sites(new, RS) if x[2]['rv'].get('adt', '').endswith('::ReplyStream')]
    if not ag:
        rep.bad('R06.3', '%s|anchor-ctor|%s' % (new.path, cfg), new.where(), 'constructor aggregate not found')
        return
    b0, i0, s0 = ag[0]
    fields = s0['rv'].get('fields') or []
    role = {}
    exprs = {}
    adt = [a for p, a in crate.adts.items() if p.endswith('reply_stream::ReplyStream')]
    tys = {f['name']: f['ty'] for f in adt[0]['variants'][0]['fields']} if adt else {}
    for name, op in zip(fields, s0['rv']['ops']):
        e = sym.expr(crate, new, op)
        exprs[name] = e
        if tys.get(name) == 'usize':
            if e[0] == 'arg':
                role['count'] = name
            elif e == ('const', 0):
                role['index'] = name
        elif tys.get(name) == 'bool':
            role['done'] = name
        elif 'ReadConnection' in (tys.get(name) or ''):
            role['conn'] = name
    missing = [r for r in ('count', 'index', 'done') if r not in role]
    if missing:
        rep.bad('R06.3', '%s|anchor-roles|%s' % (new.path, cfg), new.where(), 'could not identify the %s field(s) of ReplyStream from its constructor' % missing)
        return
    cnt, idx, done = role['count'], role['index'], role['done']

    def fplace(p, name):
        return any(n == name for a, n in mir.place_fields(p))

    # ---- R06.3
    de = exprs[done]
    init_from_count = de[0] == 'bin' and de[1] in ('Eq', 'Le', 'Lt', 'Ge', 'Gt', 'Ne') and ('arg' in (de[2][0], de[3][0]))
    # done test at entry
    done_sw = None
    for sw in range(pn.n):
        if pn.is_cleanup(sw) or pn.term(sw)['k'] != 'switch' or pn.term(sw).get('op_ty') != 'bool':
            continue
        tr = pn.trace(pn.term(sw)['op'])
        if tr.get('kind') == 'place' and fplace(tr['place'], done):
            info = pn.switch_info(sw)
            done_sw = (sw, info['true'], info['false'])
            break
    creates = [(b, t) for b, t in pn.iter_terms('call') if t['callee'].get('name') in ('call_mut', 'call', 'call_once') and
               pn.trace(t['args'][0]).get('kind') == 'place']
    polls = [(b, t) for b, t in pn.iter_terms('call') if t['callee'].get('name') == 'poll' and 'Future' in (t['callee'].get('trait') or t['callee'].get('def') or '')]
    idx_cmp_dom = False
    for sw in range(pn.n):
        if pn.is_cleanup(sw) or pn.term(sw)['k'] != 'switch':
            continue
        info = pn.switch_info(sw)
        if info and info.get('kind') == 'cmp':
            fa = info['a'].get('kind') == 'place' and (fplace(info['a']['place'], idx) or fplace(info['a']['place'], cnt))
            fb = info['b'].get('kind') == 'place' and (fplace(info['b']['place'], idx) or fplace(info['b']['place'], cnt))
            if fa and fb and creates and all(pn.dominates(sw, cb) for cb, _ in creates):
                idx_cmp_dom = True
    ok = False
    det = {'done_initialised_as': sym.show(de), 'index_vs_count_test_dominates_receive': idx_cmp_dom}
    if done_sw and creates:
        sw, t_true, t_false = done_sw
        guarded = all(pn.dominates(sw, cb) and cb in pn.reachable(t_false) and cb not in pn.reachable(t_true, avoid={sw}) for cb, _ in creates + polls)
        none_ret = not any(b in pn.reachable(t_true, avoid={sw}) for b, _ in polls)
        det.update({'receive_only_on_not_done_edge': guarded, 'done_edge_polls_nothing': none_ret})
        ok = guarded and none_ret and (init_from_count or idx_cmp_dom)
    rep.check(ok, 'R06.3', '%s|exhaustion-before-first-receive|%s' % (fk, cfg), pn.where(),
              'the receive future is created only behind an exhaustion test that reflects the owed count before any item arrived (done := %s)' % sym.show(de),
              'the stream can start a receive although no reply is owed: the done flag is %s and no index-vs-count test dominates the creation of the '
              'receive future (a chain of oneway calls would swallow a frame of a later exchange)' % sym.show(de), det)
    # ---- R06.4
    idx_stores = []
    for b, i, s in pn.iter_assigns():
        if fplace(s['place'], idx) and not (s['place'].get('p') or [None])[-1] == {'f': None}:
            e = sym.expr(crate, pn, s['rv']['op']) if s['rv']['k'] == 'use' else None
            plus1 = bool(e) and e[0] == 'bin' and e[1] == 'Add' and e[3] == ('const', 1)
            idx_stores.append((b, plus1))
            rep.check(plus1, 'R06.4', '%s|index-store-is-increment|%d|%s' % (fk, len(idx_stores), cfg), C.where(pn, b, i),
                      'completed-call index is advanced by exactly 1', 'the completed-call index is changed by something other than +1')
    done_true = {b for b, i, s in pn.iter_assigns() if fplace(s['place'], done) and s['rv']['k'] == 'use' and s['rv']['op'].get('k') == 'const' and s['rv']['op'].get('val') is True}
    # exhaustion evaluation blocks
    exh = set()
    for sw in range(pn.n):
        if pn.is_cleanup(sw) or pn.term(sw)['k'] != 'switch':
            continue
        info = pn.switch_info(sw)
        if info and info.get('kind') == 'cmp' and info['op'] in ('Ge', 'Gt', 'Eq', 'Le', 'Lt'):
            fa = info['a'].get('kind') == 'place' and fplace(info['a']['place'], idx) and info['b'].get('kind') == 'place' and fplace(info['b']['place'], cnt)
            fb = info['b'].get('kind') == 'place' and fplace(info['b']['place'], idx) and info['a'].get('kind') == 'place' and fplace(info['a']['place'], cnt)
            if fa or fb:
                op = info['op'] if fa else {'Ge': 'Le', 'Gt': 'Lt', 'Le': 'Ge', 'Lt': 'Gt', 'Eq': 'Eq'}[info['op']]
                exhausted_edge = info['true'] if op in ('Ge', 'Eq') else (info['false'] if op == 'Lt' else None)
                if exhausted_edge is not None and any(d in pn.reachable(exhausted_edge) for d in done_true):
                    # done=true must be on every path of the exhausted edge before return
                    if not (set(pn.returns()) & pn.reachable(exhausted_edge, avoid=done_true)):
                        exh.add(sw)
    for b, i, s in pn.iter_assigns():
        if fplace(s['place'], done) and s['rv']['k'] in ('use', 'bin'):
            e = sym.expr(crate, pn, s['rv']['op']) if s['rv']['k'] == 'use' else None
            if s['rv']['k'] == 'bin':
                rv = s['rv']
                e = ('bin', rv['op'], sym.expr(crate, pn, rv['a']), sym.expr(crate, pn, rv['b']))
            if e and e[0] == 'bin' and e[1] == 'BitOr':
                # `done |= index >= count`: the old flag can only add to the verdict of the comparison
                side = [x for x in (e[2], e[3]) if x[0] == 'bin' and x[1] in ('Ge', 'Eq')]
                other = [x for x in (e[2], e[3]) if _is_field(x, done)]
                e = side[0] if len(side) == 1 and len(other) == 1 else None
            if e and e[0] == 'bin' and e[1] in ('Ge', 'Eq'):
                names = {x[1][-1] for x in (e[2], e[3]) if x[0] in ('field', 'tuplefield') and isinstance(x[1], tuple)}
                tr_a = e[2]
                if e[1] == 'Ge' and _is_field(e[2], idx) and _is_field(e[3], cnt) or e[1] == 'Eq' and {_fname(e[2]), _fname(e[3])} == {idx, cnt}:
                    exh.add(b)
    rets = set(pn.returns())
    for n_, (b, plus1) in enumerate(idx_stores):
        r = pn.reachable(b, avoid=exh) - ({b} if b not in exh else set())
        escapes = bool(rets & r) and b not in exh
        rep.check(not escapes, 'R06.4', '%s|increment-reevaluates-exhaustion|%d|%s' % (fk, n_ + 1, cfg), C.where(pn, b),
                  'every path from this index advance to the return passes the index-vs-owed-count test that sets done',
                  'after this index advance the function can return without re-evaluating exhaustion (index vs owed count): the stream '
                  'does not end after its last owed reply and reads a frame that belongs to a later exchange')
    rep.floor('R06.4', 4, 'index stores / re-evaluation obligations')
    # classification by item shape
    # every match on the received item counts: the normal form may have split the bookkeeping into one copy per known flag value
    item_sws = []
    for sw in range(pn.n):
        if pn.is_cleanup(sw) or pn.term(sw)['k'] != 'switch':
            continue
        info = pn.switch_info(sw)
        if info and info.get('kind') == 'discr' and (info['place'].get('ty') or '').startswith(('std::result::Result<', 'core::result::Result<')):
            inner = [s2 for s2 in range(pn.n) if not pn.is_cleanup(s2) and pn.term(s2)['k'] == 'switch' and s2 != sw and
                     (pn.switch_info(s2) or {}).get('kind') == 'discr' and pn.dominates(sw, s2) and
                     ((pn.switch_info(s2)['place'].get('ty') or '').startswith(('std::result::Result<', 'core::result::Result<')))]
            if inner:
                item_sws.append((sw, info, inner[0], pn.switch_info(inner[0])))
    # outermost ones only (a nested Result of the payload is not another item match)
    item_sws = [x for x in item_sws if not any(y is not x and y[2] == x[0] for y in item_sws)]
    if not item_sws:
        rep.bad('R06.4', '%s|item-match|%s' % (fk, cfg), pn.where(), 'match on the received item (Ok(Ok) / Ok(Err) / Err) not found')
        return
    err_ts = sorted({x[1]['arms'].get(1, x[1]['otherwise']) for x in item_sws})
    merr_ts = sorted({x[3]['arms'].get(1, x[3]['otherwise']) for x in item_sws})
    ok_ts = sorted({x[3]['arms'].get(0, x[3]['otherwise']) for x in item_sws})
    err_t, merr_t, ok_t = err_ts[0], merr_ts[0], ok_ts[0]

    def reach_all(starts, avoid=()):
        out = set()
        for st_ in starts:
            out |= pn.reachable(st_, avoid=avoid)
        return out
    inc_blocks = {b for b, p1 in idx_stores}
    # transport / decode error arm sets done
    r = reach_all(err_ts, avoid=done_true)
    rep.check(not (rets & r), 'R06.4', '%s|error-ends-stream|%s' % (fk, cfg), C.where(pn, err_t),
              'a transport/decode error marks the stream done on every path', 'after a transport/decode error the stream is not marked done on every path')
    r = reach_all(merr_ts, avoid=inc_blocks)
    rep.check(not (rets & r), 'R06.4', '%s|method-error-completes-call|%s' % (fk, cfg), C.where(pn, merr_t),
              'a method error advances the completed-call index on every path', 'a method error does not advance the completed-call index on every path')
    # success arm: increment iff continues != Some(true)
    cont = [(b, t) for b, t in pn.iter_terms('call') if t['callee'].get('name') == 'continues' and 'reply::Reply' in (t['callee'].get('def') or '')
            and b in reach_all(ok_ts)]
    ok = False
    det = {}
    if cont:
        cb = min(b for b, _ in cont)
        cont_reach = set()
        for b_, _ in cont:
            cont_reach |= pn.reachable(b_)
        # every comparison of a continues() result with the promoted Some(true): all of them read the same member of the same reply,
        # so after the `!=` edge of one the `==` edge of another is infeasible (and vice versa)
        comps = []
        for b, t in pn.iter_terms('call'):
            if t['callee'].get('name') in ('ne', 'eq') and b in cont_reach:
                prom = None
                for a in t['args']:
                    tr = pn.trace(a)
                    if tr.get('kind') == 'const' and tr['op'].get('promoted'):
                        m = re.search(r'promoted\[(\d+)\]', tr['op'].get('s', ''))
                        owner = pn
                        if tr['op'].get('def') and tr['op']['def'] != pn.path and crate.by_path.get(tr['op']['def']) is not None:
                            owner = crate.by_path[tr['op']['def']]      # the constant of a helper inlined into this body
                        if m and owner.d.get('promoted') and int(m.group(1)) < len(owner.d['promoted']):
                            prom = ' ; '.join(owner.d['promoted'][int(m.group(1))])
                det['compared_with'] = prom
                swb = t.get('t')
                while swb is not None and pn.term(swb)['k'] == 'goto':
                    swb = pn.term(swb)['t']
                if swb is None or pn.term(swb)['k'] != 'switch':
                    continue
                si = pn.switch_info(swb)
                ne_edge = si['true'] if t['callee']['name'] == 'ne' else si['false']
                eq_edge = si['false'] if t['callee']['name'] == 'ne' else si['true']
                comps.append((swb, ne_edge, eq_edge, bool(prom) and 'Some(const true)' in prom))
        if comps:
            ne_edges = {(c[0], c[1]) for c in comps}
            eq_edges = {(c[0], c[2]) for c in comps}

            def reach_wo(start, banned, avoid=()):
                seen, work = set(), [start]
                while work:
                    x = work.pop()
                    if x in seen or x in avoid:
                        continue
                    seen.add(x)
                    for s_ in pn.succ(x):
                        if (x, s_) not in banned:
                            work.append(s_)
                return seen
            some_true = all(c[3] for c in comps)
            inc_on_ne = all(not (rets & reach_wo(c[1], eq_edges, inc_blocks)) for c in comps)
            no_inc_on_eq = all(not any(x in reach_wo(c[2], ne_edges) for x in inc_blocks) for c in comps)
            # ... and nowhere else: from the success arm an increment is reachable only through a `!= Some(true)` edge
            only_via_ne = not any(x in reach_wo(o_, ne_edges) for x in inc_blocks for o_ in ok_ts)
            det.update({'comparisons': len(comps), 'increments_when_not_continuing': inc_on_ne, 'no_increment_when_continuing': no_inc_on_eq,
                        'no_other_way_to_the_increment': only_via_ne})
            ok = some_true and inc_on_ne and no_inc_on_eq and only_via_ne
    if cont and not ok and 'compared_with' not in det:
        # pattern form: `match reply.continues() { Some(true) => .., _ => .. }` / `matches!(reply.continues(), Some(true))`: a switch on the
        # discriminant of the returned Option, then a switch on the bool payload of its Some
        cb, ct = cont[0]
        dl = ct['dest']['l']
        d_sw = p_sw = None
        for s2 in sorted(pn.reachable(cb)):
            if pn.is_cleanup(s2) or pn.term(s2)['k'] != 'switch':
                continue
            si = pn.switch_info(s2) or {}
            q = op_place(pn.term(s2)['op'])
            if si.get('kind') == 'discr' and si['place']['l'] == dl and not si['place'].get('p') and d_sw is None:
                d_sw = (s2, si)
            elif pn.term(s2).get('op_ty') == 'bool' and p_sw is None:
                tr = pn.trace(pn.term(s2)['op'])
                pl = tr.get('place') if tr.get('kind') == 'place' else q
                pr = (pl or {}).get('p') or []
                if pl and pl['l'] == dl and len(pr) == 2 and isinstance(pr[0], dict) and pr[0].get('dc') == 'Some' and isinstance(pr[1], dict) and pr[1].get('f') == 0:
                    p_sw = (s2, pn.term(s2))
        if d_sw and p_sw and pn.dominates(d_sw[0], p_sw[0]):
            some_t = d_sw[1]['arms'].get(1, d_sw[1]['otherwise'])
            arms = {a[0]: a[1] for a in p_sw[1]['arms']}
            true_t = p_sw[1]['otherwise'] if 0 in arms else arms.get(1)
            false_t = arms.get(0, p_sw[1]['otherwise'])
            other_edges = [(d_sw[0], t_) for t_ in set(pn.succ(d_sw[0])) if t_ != some_t] + [(p_sw[0], false_t)]
            if true_t is not None and true_t != false_t and p_sw[0] in pn.reachable(some_t):
                inc_on_ne = all(not (rets & pn.reachable(t_, avoid=inc_blocks)) for _, t_ in other_edges)
                no_inc_on_eq = not any(x in pn.reachable(true_t, avoid={d_sw[0]}) for x in inc_blocks)
                seen, work = set(), list(ok_ts)
                while work:
                    x = work.pop()
                    if x in seen:
                        continue
                    seen.add(x)
                    for s_ in pn.succ(x):
                        if (x, s_) in other_edges:
                            continue
                        work.append(s_)
                only_via_ne = not any(x in seen for x in inc_blocks)
                det.update({'idiom': 'match on continues(): Some(true) / other', 'increments_when_not_continuing': inc_on_ne,
                            'no_increment_when_continuing': no_inc_on_eq, 'no_other_way_to_the_increment': only_via_ne})
                ok = inc_on_ne and no_inc_on_eq and only_via_ne
    rep.check(ok, 'R06.4', '%s|success-completes-call-unless-continues|%s' % (fk, cfg), C.where(pn, ok_t),
              'a successful reply advances the index exactly when continues() != Some(true)',
              'a successful reply does not advance the completed-call index exactly when Reply::continues() != Some(true) '
              '(accepted idioms: comparison of continues() with the constant Some(true) by ==/!=; a match on continues() whose Some(true) arm is the only one that skips the advance)', det)
    # ---- R06.5 one receive per poll
    inits = [(b, i) for b, i, s in pn.iter_assigns() if s['rv']['k'] == 'aggr' and s['rv'].get('variant') == 'Init' and s['rv'].get('adt', '').startswith('connection::chain::')]
    item_ret = [b for b, i, s in C.aggr_adt_sites(pn, 'task::Poll', 'Ready') if s['place']['l'] == 0 and
                pn.trace(s['rv']['ops'][0]).get('kind') == 'aggr' and pn.trace(s['rv']['ops'][0])['rv'].get('variant') == 'Some']
    set_blocks = set()
    for b, i in inits:
        # the Pin::set call consuming it
        for bb, t in pn.iter_terms('call'):
            if t['callee'].get('name') in ('set', 'project_replace') and bb in pn.reachable(b):
                set_blocks.add(bb)
                break
    # start of "an item has been received": the Ready edge of the poll of the receive future (the reset may come before or after the
    # bookkeeping match); fall back to the arms of that match
    starts = []
    for bb, t in pn.iter_terms('call'):
        if t['callee'].get('name') == 'poll' and not pn.is_cleanup(bb) and t.get('t') is not None:
            swb = t['t']
            hops = 0
            while pn.term(swb)['k'] == 'goto' and hops < 4:
                swb = pn.term(swb)['t']
                hops += 1
            if pn.term(swb)['k'] == 'switch':
                si = pn.switch_info(swb)
                if si and si.get('kind') == 'discr' and 0 in si['arms'] and 'Poll' in (si['place'].get('ty') or ''):
                    starts.append(si['arms'][0])
    if not starts:
        starts = ok_ts + merr_ts + err_ts
    ok = bool(item_ret) and bool(set_blocks) and all(not (pn.reachable(st_, avoid=set_blocks) & {r_}) for st_ in starts for r_ in item_ret)
    rep.check(ok, 'R06.5', '%s|state-reset-per-item|%s' % (fk, cfg), pn.where(),
              'the state returns to Init on every path that yields an item (the next poll starts a fresh receive)',
              'an item can be yielded without resetting the state to Init: the finished receive future would be polled again')


def _fname(e):
    if e[0] == 'field':
        return e[1][-1]
    if e[0] == 'tuplefield':
        return e[1]
    if e[0] == 'proj':
        return _fname(e[2])
    return None


def _is_field(e, name):
    return _fname(e) == name


def check_proxy_template(fx, rep):
    hits = 0
    for fn, it in fx.tpl.fns('zlink-macros/src'):
        def visit(n, path):
            nonlocal hits
            if n.get('k') == 'macro' and n.get('name') in ('quote', 'parse_quote') and 'ReplyStream :: new' in (n.get('tokens') or ''):
                if n.get('spliced'):
                    return              # a named fragment: judged inside the template it is spliced into (engine P)
                hits += 1
                toks = n['tokens']
                i = toks.index('ReplyStream :: new') + len('ReplyStream :: new')
                j = toks.index('(', i)
                depth, k, args, cur = 0, j, [], ''
                while k < len(toks):
                    ch = toks[k]
                    if ch in '([{':
                        depth += 1
                        if depth > 1:
                            cur += ch
                    elif ch in ')]}':
                        depth -= 1
                        if depth == 0:
                            if cur.strip():
                                args.append(cur.strip())
                            break
                        cur += ch
                    elif ch == ',' and depth == 1:
                        args.append(cur.strip())
                        cur = ''
                    else:
                        cur += ch
                    k += 1
                pre = toks[:toks.index('ReplyStream :: new')]
                ok = len(args) >= 3 and args[-1] == '1' and 'send_call' in pre and 'set_more (true)' in pre
                rep.check(ok, 'R06.2', '%s::%s|proxy-stream-owed-one|full' % (fn, it['name']), '%s:%s' % (fn, n.get('line')),
                          'the proxy template for streaming methods sends one `more` call and builds the stream with the literal count 1',
                          'the proxy template for streaming methods does not build its reply stream as (one `more` call sent, owed count 1): args=%s' % args)
        import facts as F
        F.walk(it.get('body'), visit)
    if hits == 0:
        rep.bad('R06.2', 'proxy-stream-template|anchor', 'zlink-macros/src', 'no proxy template constructing a ReplyStream found')


def check(fx, rep, tier):
    rep.rule('R06.1', 'the owed-reply count handed to the stream grows by 1 per enqueued call that expects a reply and by 0 per oneway call, on every feasible path of every enqueue site')
    rep.rule('R06.2', 'send flushes exactly once before building the stream on the same connection; chain-building functions never flush; the proxy streaming template owes exactly 1')
    rep.rule('R06.3', 'exhaustion is decided before the first receive (done flag initialised from the owed count or index-vs-count test dominating the receive)')
    rep.rule('R06.4', 'index advances by 1: always on a method error, on success exactly when continues() != Some(true); errors end the stream; every advance re-evaluates exhaustion')
    rep.rule('R06.5', 'the per-item state is reset to Init on every path that yields an item')
    for cfg in ['full'] + (['ws', 'nostd'] if tier == 'thorough' else []):
        crate = fx.crate('zlink_core', cfg)
        check_chain(fx, rep, crate, cfg)
        check_stream(fx, rep, crate, cfg)
    check_proxy_template(fx, rep)
    # R06.8: width of the counters.  Every enqueued call occupies at least one byte of the write buffer, which is bounded by
    # MAX_BUFFER_SIZE (100 MiB < 2^27): a counter of at least 32 bits cannot wrap, a u16 / u8 wraps for chains the buffer still holds
    rep.rule('R06.8', 'the chain / stream counters (calls enqueued, replies owed, calls completed) are integers of at least 32 bits: a chain that fits the write buffer cannot wrap them')
    crate = fx.crate('zlink_core', 'full')
    narrow = {'u8', 'u16', 'i8', 'i16'}
    wide = {'usize', 'u32', 'u64', 'u128', 'isize', 'i32', 'i64', 'i128'}
    nint = 0
    for suffix in ('connection::chain::Chain', 'reply_stream::ReplyStream'):
        for p_, a in crate.adts.items():
            if not p_.endswith(suffix):
                continue
            for v in a.get('variants') or []:
                for f in v.get('fields') or []:
                    ty = (f.get('ty') or '').replace('std::num::', '').replace('core::num::', '')
                    base = ty.split('<')[-1].rstrip('>') if ty.startswith(('Wrapping<', 'Saturating<', 'NonZero<')) else ty
                    if base in narrow or base in wide:
                        nint += 1
                        rep.check(base in wide, 'R06.8', '%s|counter-width|%s' % (p_, f.get('name')), '%s:%s' % (a.get('file'), a.get('line')),
                                  'counter `%s: %s` of %s is at least 32 bits wide' % (f.get('name'), ty, p_.split('::')[-1]),
                                  'counter `%s` of %s has type %s: it wraps (or panics on overflow) for a chain of 2^%d calls, which the write buffer '
                                  'still holds - the stream then yields too few replies and the rest is taken for a later exchange'
                                  % (f.get('name'), p_.split('::')[-1], ty, 8 if '8' in base else 16))
    rep.floor('R06.8', 1, 'integer counters of Chain / ReplyStream')
    # R06.6: the stream consumes exactly one frame per receive only if the inbound framing rules hold (same rule code as C01)
    rep.rule('R06.6', 'inbound framing rules of C01 (each receive consumes exactly one frame; no early return with a partial frame buffered)')
    import engine, c01
    sub = engine.Report('C01', 'quick')
    c01.check(fx, sub, 'quick')
    for i in sub.insts:
        (rep.ok if i.ok else rep.bad)('R06.6', i.rule + '|' + i.key, i.where, i.msg, i.detail)
    for rule, (fl, what) in sub.floors.items():
        if sub.count(rule) < fl:
            rep.bad('R06.6', 'floor|' + rule, '-', 'anchor lost in imported rule %s: expected %d %s' % (rule, fl, what))
    import imports as _imp
    _imp.layer(fx, rep, 'C06')
    return META
