"""C07 - receiving is cancel-safe (R07.1 - R07.4)."""
import mir
from mir import op_place
import common as C
import corostate as CS

RC = 'read_connection::ReadConnection'

META = {
    'level': 'proof',
    'explanation': (
        'Coroutine-state lint over the pre-state-transform MIR of every async fn on the receive path (every coroutine of '
        'zlink-core from which ReadHalf::read is awaited, plus every workspace impl of ReadHalf::read). Obligations: '
        '(R07.1) no progress is held in a future: the locals saved across suspension points are the parameters, `self` and '
        'the awaited sub-future only - no user local that is (re)assigned after a suspension; (R07.2) no store to '
        'ReadConnection fields, and no mutating call on one of them (truncate, clear, ...), before the first suspension (a restarted receive re-executes that prefix); (R07.3) '
        'ReadConnection awaits nothing but ReadHalf::read, and between the completion of the read and the store that '
        'records the received bytes in the connection there is no further suspension; (R07.4) the server\'s select helper '
        'returns at the first completed future: no poll of another future is reachable once one returned Ready (a completed '
        'receive is never dropped unobserved); (R07.5) the read-loop guards of C01 (same rule code): a restarted receive skips the transport only when the message '
        'cursor says a complete frame is buffered. A future can only be dropped at a suspension point, so these obligations '
        'entail that at every cancellation point the connection fields alone describe the bytes received so far. Not '
        'decided: that the eventually returned messages equal the sent ones (that is C01).'),
    'assumptions': [
        'futures are dropped only at suspension points (Rust semantics)',
        'the transport crates\' own read futures are cancel-safe (tokio AsyncReadExt::read, futures-lite read: documented)',
    ],
    'trusted_base': [
        'rustc coroutine witness computation (mir_coroutine_witnesses) and MIR construction',
        'tokio / futures-lite read futures are cancel-safe as documented',
    ],
}


def check(fx, rep, tier):
    rep.rule('R07.1', 'no receive-path coroutine saves, across a suspension point, a user local that is assigned after a suspension '
                      '(progress held in the future is lost when the future is dropped)')
    rep.rule('R07.2', 'no store to a ReadConnection field between the entry of a receive-path coroutine and its first suspension')
    rep.rule('R07.3', 'ReadConnection awaits only ReadHalf::read; exactly one suspension (that await) lies between the read call and '
                      'the store recording the received bytes')
    rep.rule('R07.4', 'select helper: once a polled future returned Ready no other future is polled before returning (a completed '
                      'receive is never discarded)')
    cfgs = ['full'] + (['ws', 'nostd'] if tier == 'thorough' else [])
    n_path = 0
    for cfg in cfgs:
        crate = fx.crate('zlink_core', cfg)
        coros = [b for b in crate.bodies if b.is_coroutine and not b.in_test]
        memo = {}
        for co in coros:
            CS.reaches_leaf(crate, co, 'socket::ReadHalf', 'read', memo)
        on_path = [co for co in coros if memo.get(co.path)]
        for co in on_path:
            n_path += 1
            prog = CS.progress_locals(co)
            rep.check(not prog, 'R07.1', '%s|saved-progress|%s' % (co.path, cfg), co.where(),
                      'saved across suspension: %s - no progress local' % [s.get('name') for s in (co.saved or [])],
                      'user local(s) %s are assigned after a suspension and saved across another one: dropping the future loses '
                      'what they recorded' % [p['name'] for p in prog], {'progress_locals': prog})
            if co.impl_self and RC in co.impl_self:
                st = CS.stores_before_first_yield(crate, co, RC)
                rep.check(not st, 'R07.2', '%s|pre-suspension-store|%s' % (co.path, cfg), co.where(),
                          'no ReadConnection field is written before the first suspension',
                          'ReadConnection field(s) written before the first suspension (re-executed when the receive is restarted): %s'
                          % sorted({mir.place_last_field(s['place'])[1] for _, _, _, s in st}),
                          {'sites': ['%s:%s' % (bd.file, s.get('line')) for bd, _, _, s in st]})
                mc = CS.mutating_calls_before_first_yield(crate, co, RC)
                rep.check(not mc, 'R07.2', '%s|pre-suspension-mutation|%s' % (co.path, cfg), co.where(),
                          'no mutating call on a ReadConnection field before the first suspension',
                          'ReadConnection field(s) are mutated by %s before the first suspension: this runs again when an abandoned receive is restarted, while the cursors '
                          'still describe the partially received frame' % ['%s.%s(..)' % (f, t['callee'].get('name')) for b, t, f in mc],
                          {'sites': [C.where(co, b) for b, t, f in mc]})
                leaves = CS.await_leaves(co)
                bad = [t for b, t in leaves if not ('socket::ReadHalf' in (t['callee'].get('trait') or '') and t['callee'].get('name') == 'read')]
                rep.check(not bad, 'R07.3', '%s|await-leaves|%s' % (co.path, cfg), co.where(),
                          'awaited leaf futures: %s' % sorted({(t['callee'].get('trait') or '') + '::' + (t['callee'].get('name') or '') for _, t in leaves}),
                          'ReadConnection awaits a future other than ReadHalf::read: %s' % [t['callee'].get('def') for t in bad])
                # one suspension between the read call and the recording store
                for rb, rt in C.calls_to(co, trait='socket::ReadHalf', name='read'):
                    read_cursor = C.read_cursor_of(co, rt, RC)
                    advances = [b for b, i, s in C.field_stores(co, RC, read_cursor)
                                if not (s['rv']['k'] == 'use' and mir.op_is_const(s['rv']['op']))] if read_cursor else []
                    if not advances:
                        rep.bad('R07.3', '%s|record-store|%s' % (co.path, cfg), C.where(co, rb),
                                'the bytes returned by ReadHalf::read are not recorded in a ReadConnection field by this coroutine')
                        continue
                    ab = advances[0]
                    fwd = co.reachable(rb, avoid={ab}) | {ab}
                    # backward reach to ab avoiding rb
                    back, work = set(), [ab]
                    while work:
                        x = work.pop()
                        if x in back:
                            continue
                        back.add(x)
                        if x == rb:
                            continue
                        work.extend(co.pred(x))
                    region = fwd & back
                    ys = [b for b in co.yields() if b in region]
                    rep.check(len(ys) == 1, 'R07.3', '%s|single-suspension|%s' % (co.path, cfg), C.where(co, ab),
                              'exactly one suspension (the read itself) between the read call and the store recording its result',
                              '%d suspension points lie between the ReadHalf::read call and the store recording its result: bytes '
                              'already taken from the transport can be forgotten' % len(ys),
                              {'yield_lines': [co.term(b).get('line') for b in ys]})
        # R07.4 select helper
        for body in crate.bodies:
            if body.in_test or body.kind != 'AssocFn' or not (body.impl_self and 'select_all::SelectAll' in body.impl_self and body.name == 'poll'):
                continue
            # same rule code as R18.2 "a ready output is returned at once" (loop form and iterator form of the sweep)
            import c18, engine
            sub = engine.Report('C18', 'quick')
            c18.check_select(fx, sub, crate, cfg)
            hits = [i for i in sub.insts if i.rule == 'R18.2' and '|ready-returned-at-once|' in i.key]
            if not hits:
                anchors = [i for i in sub.insts if i.rule == 'R18.2' and not i.ok]
                rep.bad('R07.4', '%s|first-ready-returns|%s' % (body.path, cfg), body.where(),
                        'the sweep of the select helper was not recognised: %s' % (anchors[0].msg if anchors else 'no poll site'))
            for i in hits:
                (rep.ok if i.ok else rep.bad)('R07.4', '%s|first-ready-returns|%s' % (body.path, cfg), i.where,
                                              i.msg if i.ok else 'after a future returned Ready the helper polls again before returning: a completed receive can be dropped')
    rep.floor('R07.1', 7 * len(cfgs), 'receive-path coroutines in zlink-core')
    rep.floor('R07.4', len(cfgs), 'SelectAll::poll bodies')
    # transports
    for cn in ('zlink_tokio', 'zlink_smol', 'zlink_core'):
        crate = fx.crate(cn, 'full')
        for b in crate.bodies:
            if b.is_coroutine and b.impl_trait and 'socket::ReadHalf' in b.impl_trait and 'read' in b.path.split('::')[-2:][0]:
                prog = CS.progress_locals(b)
                rep.check(not prog, 'R07.1', '%s|saved-progress|transport' % b.path, b.where(),
                          'transport read impl saves %s' % [s.get('name') for s in (b.saved or [])],
                          'transport read impl keeps progress in locals %s across a suspension' % [p['name'] for p in prog],
                          {'progress_locals': prog})
    rep.note('receive-path coroutines analysed: %d' % n_path)
    # R07.5: whether a (re)started receive reads the transport is decided by the message cursor alone (R01.2 of C01, same rule code):
    # after an abandonment mid-frame the read cursor is > 0 while no frame is complete
    rep.rule('R07.5', 'the read-loop guards of C01 (R01.2): skip the transport only while a complete frame is buffered (message cursor), EOF and terminator tests')
    import engine, c01
    sub = engine.Report('C01', 'quick')
    for cfg in cfgs:
        c01.check_crate(fx, sub, fx.crate('zlink_core', cfg), cfg)
    n5 = 0
    for i in sub.insts:
        if i.rule in ('R01.2', 'R01.6'):
            n5 += 1
            (rep.ok if i.ok else rep.bad)('R07.5', i.key, i.where, i.msg if i.ok else i.msg + ' - a receive restarted after an abandonment takes the wrong branch', i.detail)
    if not n5:
        rep.bad('R07.5', 'anchor', '-', 'read-loop guard instances not found')
    import imports as _imp
    _imp.layer(fx, rep, 'C07')
    return META
