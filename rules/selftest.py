"""Positive/negative controls compiled by the same driver (filled in later)."""
def run(pid, tier):
    return {}
