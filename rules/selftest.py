"""Checker sensitivity run (thorough tier): the property's check is run against variants of the current tree that are known
to break the property - the independently written changes in seeded/<Cxx>-*/patch.diff, the hand mutants in
selftest/mutants/<Cxx>-*.diff and the reverse patches of the recorded fixes - each applied to a scratch copy of /repo
outside /repo and /verif that is removed afterwards.  Nothing of zlink is executed: the same static rules analyse the variant.

The result is evidence about the *checker* (how many breaking variants it reports), not a verdict on the tree; a survivor is
listed in the evidence and printed as a note, it never turns into a VIOLATION of the unchanged tree."""
import os, glob, json, shutil, subprocess, tempfile

VERIF = os.path.dirname(os.path.dirname(os.path.abspath(__file__)))


def _variants(pid):
    out = []
    for d in sorted(glob.glob(os.path.join(VERIF, 'seeded', pid + '-*'))):
        p = os.path.join(d, 'patch.diff')
        if not os.path.exists(p):
            continue
        expect = True
        try:
            m = json.load(open(os.path.join(d, 'meta.json')))
            if m.get('superseded_by_fix'):
                expect = False
        except Exception:
            pass
        out.append((os.path.basename(d), p, expect))
    for p in sorted(glob.glob(os.path.join(VERIF, 'selftest', 'mutants', pid + '-*.diff'))):
        out.append((os.path.basename(p)[:-5], p, True))
    # behaviour-preserving refactorings of the code this property is anchored in: must NOT be reported
    for p in sorted(glob.glob(os.path.join(VERIF, 'selftest', 'benign', pid + '-*.diff'))) + sorted(glob.glob(os.path.join(VERIF, 'selftest', 'benign', 'r1', pid + '-*.diff'))):
        out.append(('benign:' + os.path.relpath(p, os.path.join(VERIF, 'selftest', 'benign'))[:-5], p, False))
    return out


def run(pid, tier):
    if tier != 'thorough' or os.environ.get('ZL_REPO', '/repo') != '/repo' or os.environ.get('ZL_NO_SELFTEST'):
        return {}
    variants = _variants(pid)
    if not variants:
        return {'variants': 0}
    base = tempfile.mkdtemp(prefix='zlself-')
    res = []
    try:
        for name, patch, expect in variants:
            wt = os.path.join(base, 'tree')
            shutil.rmtree(wt, ignore_errors=True)
            r = subprocess.run(['rsync', '-a', '--exclude', 'target', '--exclude', '.git', '/repo/', wt + '/'], capture_output=True, text=True)
            if r.returncode:
                res.append({'variant': name, 'status': 'copy-failed'})
                continue
            r = subprocess.run(['git', 'apply', '--unsafe-paths', '--directory', wt, patch], capture_output=True, text=True, cwd='/')
            if r.returncode:
                r = subprocess.run(['patch', '-p1', '-s', '-d', wt, '-i', patch], capture_output=True, text=True)
            if r.returncode:
                res.append({'variant': name, 'status': 'patch-does-not-apply-to-current-tree'})
                continue
            env = dict(os.environ, ZL_REPO=wt, ZL_TARGET=os.path.join(base, 'target'), ZL_NO_SELFTEST='1')
            r = subprocess.run([os.path.join(VERIF, 'check'), pid, '--tier', 'quick'], env=env, capture_output=True, text=True, cwd=VERIF)
            rules = sorted({l.split(':')[0].strip().split(' ')[1] for l in r.stdout.splitlines() if l.startswith('  rule ')})
            st = {0: 'not-reported', 1: 'reported'}.get(r.returncode, 'check-error')
            res.append({'variant': name, 'status': st, 'rules': rules, 'expected_to_break': expect})
    finally:
        shutil.rmtree(base, ignore_errors=True)
    rep = [x for x in res if x.get('expected_to_break', True) and x['status'] in ('reported', 'not-reported')]
    ben = [x for x in res if x['variant'].startswith('benign:') and x['status'] in ('reported', 'not-reported')]
    out = {'variants': len(res), 'breaking_variants_analysed': len(rep), 'reported': sum(1 for x in rep if x['status'] == 'reported'),
           'benign_refactorings_analysed': len(ben), 'benign_refactorings_reported': sum(1 for x in ben if x['status'] == 'reported'), 'results': res}
    for x in res:
        if x.get('expected_to_break', True) and x['status'] == 'not-reported':
            print('NOTE: sensitivity run - breaking variant %s is not reported by the %s rules' % (x['variant'], pid))
        if not x.get('expected_to_break', True) and x['status'] == 'reported':
            print('NOTE: sensitivity run - variant %s %s but is reported' % (x['variant'], 'preserves behaviour' if x['variant'].startswith('benign:') else 'no longer breaks the property (superseded by a fix)'))
    return out
