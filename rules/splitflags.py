"""Engine Q - constant-flag path splitting (part of the MIR normal form).

A maintainer can compute a decision in one place and act on it in another:

    let (call_finished, fatal) = match &item { Ok(Ok(r)) => (r.continues() != Some(true), false), Ok(Err(_)) => (true, false), Err(_) => (false, true) };
    if call_finished { index += 1 }
    if fatal || index >= count { done = true }

is the same program as the `match` with the stores in its arms.  Path-insensitive rules (dominance, must-pass-through, reachability)
see a join between the decision and the action and lose the connection.  This pass unfolds the control-flow graph over the *known
values of steering locals*: bool locals / tuple fields and variant tags of the crate's own enums that (a) some `switchInt` of the body decides on and (b)
receive constants (or copies / `!` / `|` / `&` of such) somewhere.  A node of the unfolded graph is (block, facts about the live
steering keys); a switch whose operand is known keeps only the taken edge, an unknown bool switch refines the fact on its edges.  The
result is ordinary MIR facts (blocks cloned, terminators retargeted); the first state reached for a block keeps the block's id, so
unwind / drop edges and blocks that are not reachable from the entry stay valid.  Nothing is evaluated beyond constants: every path of
the result is a path of the original and every *feasible* path of the original is a path of the result (edges are removed only when the
switch operand is a known constant on that path).

Budget: the pass gives up (returns the body unchanged) when the unfolded graph would exceed MAX_GROWTH new blocks.
"""
import copy

MAX_GROWTH = 500
MAX_FACTOR = 4

_STD_VARIANTS = {'None': 0, 'Some': 1, 'Ok': 0, 'Err': 1, 'Ready': 0, 'Pending': 1, 'Continue': 0, 'Break': 1}


def _key(p):
    if not isinstance(p, dict) or 'l' not in p:
        return None
    pr = p.get('p') or []
    if not pr:
        return p['l']
    if len(pr) == 1 and isinstance(pr[0], dict) and 'f' in pr[0] and isinstance(pr[0]['f'], int):
        return (p['l'], pr[0]['f'])
    return None


def _op_key(op):
    if not isinstance(op, dict) or op.get('k') not in ('copy', 'move'):
        return None
    return _key(op.get('place'))


def _const_bool(op):
    if not isinstance(op, dict) or op.get('k') != 'const' or op.get('ty') != 'bool':
        return None
    v = op.get('val')
    if isinstance(v, bool):
        return v
    if v in (0, 1):
        return bool(v)
    s = str(op.get('s', '')).lower()
    if s in ('true', 'const true'):
        return True
    if s in ('false', 'const false'):
        return False
    return None


def _succs(t):
    k = t['k']
    if k in ('goto', 'drop', 'assert'):
        return [t['t']]
    if k == 'switch':
        return [a[1] for a in t['arms']] + [t['otherwise']]
    if k in ('call', 'yield'):
        return [t['t']] if t.get('t') is not None else []
    return []


def _variant_index(adts, adt, variant):
    if variant in _STD_VARIANTS and (adt or '').split('::')[-1] in ('Option', 'Result', 'Poll', 'ControlFlow'):
        return _STD_VARIANTS[variant]
    a = adts.get(adt)
    if a is None:
        tail = (adt or '').split('::')[-1]
        cands = [v for k, v in adts.items() if k.split('::')[-1] == tail]
        a = cands[0] if len(cands) == 1 else None
    if a is None:
        return None
    vs = a.get('variants') or []
    names = [v.get('name') for v in vs]
    if variant not in names:
        return None
    # explicit discriminants would break index == value; the facts carry them as 'discr' when present
    i = names.index(variant)
    dv = vs[i].get('discr')
    return dv if isinstance(dv, int) else i


class _Split:
    def __init__(self, d, adts):
        self.d = d
        self.blocks = d['blocks']
        self.n = len(self.blocks)
        self.adts = adts or {}
        self.addr_taken = set()
        self.bool_locals = set()
        for i, l in enumerate(d.get('locals') or []):
            if isinstance(l, dict) and l.get('ty') == 'bool':
                self.bool_locals.add(i)
        self._scan()

    # ---- relevance
    def _scan(self):
        R = set()
        discr_src = {}          # local holding a discriminant -> key of the place it was read from
        for bl in self.blocks:
            for s in bl['stmts']:
                if s.get('k') != 'assign':
                    continue
                rv = s['rv']
                if rv['k'] in ('ref', 'rawptr') and (rv.get('mut') or rv['k'] == 'rawptr'):
                    q = rv.get('place') or {}
                    if '*' not in (q.get('p') or []):
                        self.addr_taken.add(q.get('l'))
                if rv['k'] == 'discr' and not s['place'].get('p'):
                    k = _key(rv['place'])
                    if k is not None:
                        discr_src.setdefault(s['place']['l'], set()).add(k)
        self.discr_src = discr_src
        for bl in self.blocks:
            if bl.get('cleanup'):
                continue
            t = bl['term']
            if t['k'] != 'switch':
                continue
            k = _op_key(t['op'])
            if k is None:
                continue
            if t.get('op_ty') == 'bool':
                R.add(k)
            elif isinstance(k, int) and k in discr_src:
                R.update(discr_src[k])
        # backward closure through copies / Not / bool operators / tuples
        changed = True
        while changed:
            changed = False
            for bl in self.blocks:
                for s in bl['stmts']:
                    if s.get('k') != 'assign':
                        continue
                    dk = _key(s['place'])
                    if dk is None:
                        continue
                    rv = s['rv']
                    add = set()
                    if rv['k'] == 'use':
                        sk = _op_key(rv['op'])
                        if sk is not None:
                            if dk in R:
                                add.add(sk)
                            if isinstance(dk, int) and isinstance(sk, int):
                                for r in list(R):
                                    if isinstance(r, tuple) and r[0] == dk:
                                        add.add((sk, r[1]))
                    elif rv['k'] == 'un' and rv.get('op') == 'Not' and dk in R:
                        sk = _op_key(rv['a'])
                        if sk is not None:
                            add.add(sk)
                    elif rv['k'] == 'bin' and rv.get('op') in ('BitAnd', 'BitOr', 'BitXor', 'Eq', 'Ne') and dk in R:
                        for o in (rv['a'], rv['b']):
                            sk = _op_key(o)
                            if sk is not None and (o.get('place') or {}).get('ty') == 'bool':
                                add.add(sk)
                    elif rv['k'] == 'aggr' and rv.get('kind') == 'tuple' and isinstance(dk, int):
                        for i, o in enumerate(rv.get('ops') or []):
                            if (dk, i) in R:
                                sk = _op_key(o)
                                if sk is not None:
                                    add.add(sk)
                    if add - R:
                        R |= add
                        changed = True
        R = {k for k in R if (k if isinstance(k, int) else k[0]) not in self.addr_taken}
        self.R = R
        self.Rl = {(k if isinstance(k, int) else k[0]) for k in R}

    def _crate_enum(self, adt):
        if not adt or (adt or '').split('::')[0] in ('std', 'core', 'alloc'):
            return False
        if adt in self.adts:
            return True
        tail = adt.split('::')[-1]
        return sum(1 for k in self.adts if k.split('::')[-1] == tail) == 1

    def has_constant_source(self):
        """some relevant key receives a constant / a variant aggregate - otherwise there is nothing to split on"""
        for bl in self.blocks:
            if bl.get('cleanup'):
                continue
            for s in bl['stmts']:
                if s.get('k') != 'assign':
                    continue
                dk = _key(s['place'])
                rv = s['rv']
                if dk in self.R:
                    if rv['k'] == 'use' and _const_bool(rv['op']) is not None:
                        return True
                    if rv['k'] == 'aggr' and rv.get('kind') == 'adt' and rv.get('variant') and self._crate_enum(rv.get('adt')):
                        return True
                if isinstance(dk, int) and rv['k'] == 'aggr' and rv.get('kind') == 'tuple':
                    for i, o in enumerate(rv.get('ops') or []):
                        if (dk, i) in self.R and _const_bool(o) is not None:
                            return True
        return False

    # ---- liveness of relevant keys
    def _uses_kills(self, bl):
        """(upward-exposed uses, kills) of relevant keys in a block"""
        use, kill = set(), set()

        def read_place(p):
            k = _key(p)
            if k is None:
                l = (p or {}).get('l')
                if l in self.Rl:
                    for r in self.R:
                        if (r == l or (isinstance(r, tuple) and r[0] == l)) and r not in kill:
                            use.add(r)
                return
            if isinstance(k, int):
                for r in self.R:
                    if (r == k or (isinstance(r, tuple) and r[0] == k)) and r not in kill:
                        use.add(r)
            elif k in self.R and k not in kill:
                use.add(k)

        def read_any(x):
            if isinstance(x, dict):
                if 'l' in x and 's' in x:
                    read_place(x)
                    return
                for v in x.values():
                    read_any(v)
            elif isinstance(x, list):
                for v in x:
                    read_any(v)
        for s in bl['stmts']:
            if s.get('k') == 'assign':
                read_any(s['rv'])
                dk = _key(s['place'])
                if dk is None:
                    read_any({'x': s['place']}) if False else None
                elif isinstance(dk, int):
                    for r in self.R:
                        if r == dk or (isinstance(r, tuple) and r[0] == dk):
                            kill.add(r)
                else:
                    kill.add(dk)
            elif s.get('k') == 'dead':
                l = s.get('l') if 'l' in s else (s.get('place') or {}).get('l')
                for r in self.R:
                    if r == l or (isinstance(r, tuple) and r[0] == l):
                        kill.add(r)
        t = bl['term']
        for kk, v in t.items():
            if kk in ('dest', 'resume_arg'):
                continue
            read_any(v)
        return use, kill

    def liveness(self):
        uk = [self._uses_kills(bl) for bl in self.blocks]
        live_in = [set() for _ in range(self.n)]
        changed = True
        while changed:
            changed = False
            for b in range(self.n - 1, -1, -1):
                out = set()
                for s in _succs(self.blocks[b]['term']):
                    out |= live_in[s]
                t = self.blocks[b]['term']
                dk = _key(t.get('dest')) if t['k'] == 'call' else None
                if isinstance(dk, int):
                    out = {r for r in out if not (r == dk or (isinstance(r, tuple) and r[0] == dk))}
                new = uk[b][0] | (out - uk[b][1])
                if new != live_in[b]:
                    live_in[b] = new
                    changed = True
        self.live_in = live_in

    # ---- transfer
    def _val(self, op, f):
        c = _const_bool(op)
        if c is not None:
            return ('b', c)
        k = _op_key(op)
        if k is not None:
            return f.get(k)
        return None

    def transfer(self, b, facts):
        """facts at entry -> list of (successor, facts at its entry, pruned?)"""
        f = dict(facts)
        bl = self.blocks[b]

        def kill_local(l):
            for r in [r for r in f if r == l or (isinstance(r, tuple) and r[0] == l)]:
                del f[r]
        for s in bl['stmts']:
            if s.get('k') == 'dead':
                l = s.get('l') if 'l' in s else (s.get('place') or {}).get('l')
                kill_local(l)
                continue
            if s.get('k') != 'assign':
                continue
            dk = _key(s['place'])
            if dk is None:
                continue            # stores through a pointer cannot reach a tracked local (address-taken locals are not tracked)
            rv = s['rv']
            newf = {}
            v = None
            if rv['k'] == 'use':
                v = self._val(rv['op'], f)
                sk = _op_key(rv['op'])
                if isinstance(dk, int) and isinstance(sk, int):
                    for r, vv in f.items():
                        if isinstance(r, tuple) and r[0] == sk:
                            newf[(dk, r[1])] = vv
            elif rv['k'] == 'un' and rv.get('op') == 'Not':
                a = self._val(rv['a'], f)
                if a and a[0] == 'b':
                    v = ('b', not a[1])
            elif rv['k'] == 'bin' and rv.get('op') in ('BitAnd', 'BitOr', 'BitXor', 'Eq', 'Ne'):
                a, c = self._val(rv['a'], f), self._val(rv['b'], f)
                ab = a[1] if a and a[0] == 'b' else None
                cb = c[1] if c and c[0] == 'b' else None
                op = rv['op']
                if ab is not None and cb is not None:
                    v = ('b', {'BitAnd': ab and cb, 'BitOr': ab or cb, 'BitXor': ab != cb, 'Eq': ab == cb, 'Ne': ab != cb}[op])
                elif op == 'BitAnd' and (ab is False or cb is False):
                    v = ('b', False)
                elif op == 'BitOr' and (ab is True or cb is True):
                    v = ('b', True)
            elif rv['k'] == 'aggr' and rv.get('kind') == 'tuple' and isinstance(dk, int):
                for i, o in enumerate(rv.get('ops') or []):
                    vv = self._val(o, f)
                    if vv is not None:
                        newf[(dk, i)] = vv
            elif rv['k'] == 'aggr' and rv.get('kind') == 'adt' and rv.get('variant') and self._crate_enum(rv.get('adt')):
                # only enums of the crate itself steer control (`enum Outcome { Keep, Close }`); Option / Result / Poll values are data - splitting on
                # them would duplicate everything between `let r = match .. { .. => Ok(x), .. => Err(e) }` and the later `match r`
                v = ('v', rv.get('adt'), rv['variant'])
            if isinstance(dk, int):
                kill_local(dk)
            else:
                f.pop(dk, None)
                f.pop(dk[0], None)
            if v is not None and dk in self.R:
                f[dk] = v
            for r, vv in newf.items():
                if r in self.R:
                    f[r] = vv
        t = bl['term']
        k = t['k']
        if k == 'call':
            dk = _key(t.get('dest'))
            if isinstance(dk, int):
                kill_local(dk)
            elif dk is not None:
                f.pop(dk, None)
        elif k == 'yield':
            dk = _key(t.get('resume_arg'))
            if isinstance(dk, int):
                kill_local(dk)
        if k != 'switch':
            return [(s, f, False) for s in _succs(t)]
        ok = _op_key(t['op'])
        arms = {a[0]: a[1] for a in t['arms']}
        if ok is not None and t.get('op_ty') == 'bool':
            v = f.get(ok)
            if v and v[0] == 'b':
                return [(arms.get(1 if v[1] else 0, t['otherwise']), f, True)]
            out = []
            if ok in self.R:
                # refine: which value of the flag leads to which target
                tgt_false = arms.get(0, t['otherwise'])
                tgt_true = arms.get(1, t['otherwise'])
                if tgt_false != tgt_true:
                    f0 = dict(f)
                    f0[ok] = ('b', False)
                    f1 = dict(f)
                    f1[ok] = ('b', True)
                    return [(tgt_false, f0, False), (tgt_true, f1, False)]
            return [(s, f, False) for s in _succs(t)]
        if isinstance(ok, int) and ok in self.discr_src and len(self.discr_src[ok]) == 1:
            src = next(iter(self.discr_src[ok]))
            # the discriminant must have been read in this block (after the last change of the source)
            read_here = any(s.get('k') == 'assign' and _key(s['place']) == ok and s['rv']['k'] == 'discr' for s in bl['stmts'])
            v = f.get(src) if read_here else None
            if v and v[0] == 'v':
                idx = _variant_index(self.adts, v[1], v[2])
                if idx is not None:
                    return [(arms.get(idx, t['otherwise']), f, True)]
        return [(s, f, False) for s in _succs(t)]

    # ---- unfolding
    def run(self):
        self.liveness()
        ids = {}            # (block, facts) -> new id
        first = {}          # block -> id of the first state
        order = []
        extra = 0

        def node(b, f):
            nonlocal extra
            ff = frozenset((k, v) for k, v in f.items() if k in self.live_in[b])
            key = (b, ff)
            if key in ids:
                return ids[key], False
            if b not in first:
                first[b] = b
                ids[key] = b
            else:
                ids[key] = self.n + extra
                extra += 1
            order.append(key)
            return ids[key], True
        work = []
        nid, _ = node(0, {})
        work.append((0, frozenset()))
        edges = {}
        pruned_any = False
        while work:
            b, ff = work.pop()
            me = ids[(b, ff)]
            outs = self.transfer(b, dict(ff))
            res = []
            for s, f2, pruned in outs:
                pruned_any = pruned_any or pruned
                sid, fresh = node(s, f2)
                res.append((s, sid, pruned))
                if fresh:
                    fs = frozenset((k, v) for k, v in f2.items() if k in self.live_in[s])
                    work.append((s, fs))
                if extra > MAX_GROWTH or extra > MAX_FACTOR * self.n:
                    return None
            edges[me] = (b, res)
        if not pruned_any and extra == 0:
            return None
        if not pruned_any:
            return None
        new = [None] * (self.n + extra)
        for b in range(self.n):
            new[b] = self.blocks[b]
        for me, (b, res) in edges.items():
            bl = copy.deepcopy(self.blocks[b]) if me != b else dict(self.blocks[b], term=copy.deepcopy(self.blocks[b]['term']))
            if me != b:
                _strip_annotations(bl)
                bl['split_of'] = b
            t = bl['term']
            k = t['k']
            if k == 'switch':
                if len(res) == 1 and res[0][2]:
                    bl['term'] = {'k': 'goto', 't': res[0][1], 'line': t.get('line'), 'glue': 'split'}
                else:
                    m = {}
                    for s, sid, _ in res:
                        m.setdefault(s, sid)
                    # refined bool switch: targets per value
                    if len(res) == 2 and t.get('op_ty') == 'bool' and all(not p for _, _, p in res):
                        arms = {a[0]: a[1] for a in t['arms']}
                        tf = arms.get(0, t['otherwise'])
                        tt = arms.get(1, t['otherwise'])
                        if res[0][0] == tf and res[1][0] == tt and len(_succs(t)) == 2 and tf != tt:
                            t['arms'] = [[0, res[0][1]]]
                            t['otherwise'] = res[1][1]
                            new[me] = bl
                            continue
                    t['arms'] = [[a[0], m.get(a[1], a[1])] for a in t['arms']]
                    t['otherwise'] = m.get(t['otherwise'], t['otherwise'])
            elif res:
                t['t'] = res[0][1]
            new[me] = bl
        d2 = dict(self.d)
        d2['blocks'] = new
        d2['flag_split'] = extra
        return d2


def _strip_annotations(x):
    if isinstance(x, dict):
        x.pop('@', None)
        x.pop('@i', None)
        for v in x.values():
            _strip_annotations(v)
    elif isinstance(x, list):
        for v in x:
            _strip_annotations(v)


def split_flags(d, adts=None):
    """returns the unfolded body dict, or d itself when there is nothing to split (or the budget is exceeded)"""
    if d.get('in_test') or not d.get('blocks'):
        return d
    sp = _Split(d, adts)
    if not sp.R or not sp.has_constant_source():
        return d
    try:
        out = sp.run()
    except RecursionError:
        return d
    return out or d
