"""C04 - a reply carrying an error is never reported to the caller as success (R04.1 - R04.4)."""
import re
import mir
from mir import op_place, op_str
import common as C
import facts as F
import serdeshape as SS

RC = 'read_connection::ReadConnection'
ANY_VALUE = ('IgnoredAny', 'serde_json::Value', 'Value', 'serde::de::IgnoredAny', 'de::IgnoredAny')

META = {
    'level': 'other',
    'explanation': (
        'Serde-shape analysis of the decode target of receive_reply (type-checked ADT from the compiler + the serde attributes '
        'of the same item from the syntax tree) and arm mapping over MIR: (R04.1) the target is an untagged enum whose attempts '
        'are, in order, the standard org.varlink.service error type, the caller\'s error type parameter, a catch-all, and the '
        'success shape Reply<T> last; (R04.2) the success shape cannot be reached by an object that has an `error` member: the '
        'catch-all attempt preceding it is a struct with a required member whose wire name is `error`, not optional, not '
        'defaulted, whose type accepts every JSON value (IgnoredAny / serde_json::Value) - a narrower type (string, borrowed '
        'str) lets escaped or non-string values fall through to success; alternatively the success type itself denies unknown '
        'members; (R04.3) no other decode of the frame to the success shape exists in the connection code: every call whose '
        'instantiation decodes reply::Reply<_> is the derived impl of that enum (no byte-scan fast path, no second decoder); '
        '(R04.4) the match on the decoded enum maps the standard-error variant to Err(Error::VarlinkService), the caller-error '
        'variant to Ok(Err(e)), the catch-all to Err(_) and only the success variant to Ok(Ok(reply)), each returning its own '
        'payload. Not decided: classification of every frame x every user Deserialize impl.'),
    'assumptions': ['serde untagged enums try variants in declaration order and take the first that deserialises (serde documentation)',
                    'serde_derive struct deserialisation fails on a missing non-Option, non-default field'],
}


def _is_type(ty, short):
    """ty is (a reference to) the type whose last path segment is `short` - not a type that merely mentions it as an argument"""
    ty = re.sub(r'^&(mut )?', '', ty or '')
    m = re.search(r'(^|::)%s(<|$)' % re.escape(short), ty)
    while m:
        pre = ty[:m.start()]
        if pre.count('<') == pre.count('>'):
            return True
        m = re.search(r'(^|::)%s(<|$)' % re.escape(short), ty[m.end():]) and None
    return False


def visitor_total(crate, vm, any_value):
    """Why the hand-written catch-all visitor `vm` (MIR of its visit_map) is NOT total over objects with an `error` member; [] if it is.
    Read off the control-flow graph, whatever the idiom (while-let / loop+match / `?` / explicit returns, `|=` / `if eq { flag = true }`):
      - Ok is returned only after the member source reported exhaustion (the None edge of next_key's result);
      - every turn of the loop consumes the member's value as an any-value type;
      - the visitor raises no error of its own while members remain (an Err of the catch-all is a fall-through to the success shape): errors
        before exhaustion are propagated results of next_key / next_value only;
      - after exhaustion Ok / Err is decided by a flag that starts false, is only ever raised inside the loop, and is raised on every path
        from a member-name comparison with "error" that came out equal."""
    why = []
    from mir import op_place
    K = [(b, t) for b, t in vm.iter_terms('call') if t['callee'].get('name') in ('next_key', 'next_key_seed', 'next_entry', 'next_entry_seed')]
    V = [(b, t) for b, t in vm.iter_terms('call') if t['callee'].get('name') in ('next_value', 'next_value_seed')]
    if len(K) != 1:
        return ['expected one call that asks the map for the next member (next_key / next_entry), found %d' % len(K)]
    kb, kt = K[0]
    entry_form = kt['callee'].get('name').startswith('next_entry')
    for b, t in V + ([K[0]] if entry_form else []):
        args = t['callee'].get('args') or ''
        if not any(a in args for a in any_value):
            why.append('a member value is decoded as %s' % args)
    kt_args = (kt['callee'].get('args') or '').strip('[]').split(', ')
    kt_args = [x for x in kt_args if not x.startswith("'") and '/#' not in x]
    if not kt_args or not any(re.search(r'(^|::)(String|Cow<)', x) for x in kt_args[:1]):
        why.append('member names are decoded as %s: a borrowed or narrower key type does not accept every member name '
                   '(`{"\\u0065rror":..}` is an owned string in the buffered content), so such a frame falls through to the success shape' % (kt_args[0] if kt_args else '?'))
    # the exhaustion test: discriminant switch on the Option that came out of K
    none_t = some_t = None
    for sw in sorted(vm.reachable(kb)):
        if vm.is_cleanup(sw) or vm.term(sw)['k'] != 'switch':
            continue
        info = vm.switch_info(sw)
        if not info or info.get('kind') != 'discr':
            continue
        ty = (info['place'].get('ty') or '')
        if not ty.startswith(('std::option::Option<', 'core::option::Option<')):
            continue
        locs, evs = vm.slice_back([info['place']['l']])
        if any(e[0] == 'call' and e[1] == kb for e in evs) and not any(e[0] == 'call' and any(e[1] == vb for vb, _ in V) for e in evs):
            none_t = info['arms'].get(0, info['otherwise'])
            some_t = info['arms'].get(1, info['otherwise'])
            break
    if none_t is None or none_t == some_t:
        return why + ['no test of the member source for exhaustion (None from next_key) found']
    ret0 = {0}
    for b_, i_, s_ in vm.iter_assigns():
        if s_['place']['l'] == 0 and not s_['place'].get('p') and s_['rv']['k'] == 'use' and op_place(s_['rv']['op']) and not op_place(s_['rv']['op']).get('p'):
            ret0.add(op_place(s_['rv']['op'])['l'])
    oks, errs_own, errs_prop = set(), set(), set()
    kv_blocks = {kb} | {b for b, _ in V}

    def from_kv(op):
        q = op_place(op)
        if not q:
            return False
        locs, evs = vm.slice_back([q['l']])
        return any(e[0] == 'call' and e[1] in kv_blocks for e in evs)
    for b, i, st in vm.iter_assigns():
        rv = st['rv']
        if rv['k'] == 'aggr' and rv.get('adt', '').endswith('result::Result') and st['place']['l'] in ret0 and not st['place'].get('p'):
            if rv.get('variant') == 'Ok':
                oks.add(b)
            elif rv.get('ops') and from_kv(rv['ops'][0]):
                errs_prop.add(b)
            else:
                errs_own.add(b)
    for b, t in vm.iter_terms('call'):
        if t['callee'].get('name') == 'from_residual' and t['dest']['l'] in ret0:
            (errs_prop if t['args'] and from_kv(t['args'][0]) else errs_own).add(b)
    before = vm.reachable(0, avoid={none_t})
    if not oks:
        why.append('the visitor never returns Ok')
    if oks & before:
        why.append('Ok can be returned before every member was visited (the loop can stop early: a later member is left unread, which the buffered content of an untagged enum reports as an error - the frame falls through to the success shape)')
    if errs_own & before:
        why.append('the visitor can fail on its own while members remain (an error of the catch-all is a fall-through to the success shape)')
    if not entry_form:
        if not V:
            why.append('member values are not consumed')
        elif kb in vm.reachable(some_t, avoid={b for b, _ in V}):
            why.append('a turn of the member loop can skip the member\'s value')
    # the flag that decides Ok / Err after exhaustion
    after = vm.reachable(none_t)
    flag = None
    for sw in sorted(after):
        if vm.is_cleanup(sw) or vm.term(sw)['k'] != 'switch' or vm.term(sw).get('op_ty') != 'bool':
            continue
        info = vm.switch_info(sw)
        t_true, t_false = info.get('true'), info.get('false')
        if t_true is None or t_false is None:
            continue
        ok_true = bool(oks & vm.reachable(t_true)) and not (oks & vm.reachable(t_false))
        if ok_true and (errs_own & vm.reachable(t_false)):
            src = info.get('src') or {}
            if src.get('kind') == 'place' and not (src['place'].get('p')):
                flag = src['place']['l']
            else:
                q = op_place(vm.term(sw)['op'])
                flag = q['l'] if q and not q.get('p') else None
            # through copies
            for _ in range(4):
                sd = vm.single_def(flag) if flag is not None else None
                if sd and sd[2] == 'assign' and sd[3]['rv']['k'] == 'use' and op_place(sd[3]['rv']['op']) and not op_place(sd[3]['rv']['op']).get('p'):
                    flag = op_place(sd[3]['rv']['op'])['l']
                else:
                    break
            break
    if flag is None:
        if oks and not (oks & before) and not (errs_own & after):
            why.append('after the last member Ok is returned unconditionally: an object without an `error` member is claimed by the catch-all too')
        else:
            why.append('Ok is not returned exactly when a flag recording the `error` member is set')
        return why
    loop = {b for b in vm.reachable(some_t) if kb in vm.reachable(b)} | {some_t}
    eq_blocks = []
    for b, t in vm.iter_terms('call'):
        if t['callee'].get('name') in ('eq', 'ne') and b in loop:
            txt = ''
            for a in t['args']:
                q = op_place(a)
                if q:
                    locs, evs = vm.slice_back([q['l']])
                    for e in evs:
                        if e[0] == 'assign':
                            for o in mir.rv_operands(e[3]['rv']):
                                if o.get('k') == 'const':
                                    if o.get('promoted'):
                                        m = re.search(r'promoted\[(\d+)\]', o.get('s', ''))
                                        owner = crate.by_path.get(o.get('def')) or vm
                                        pr = owner.d.get('promoted') or []
                                        if m and int(m.group(1)) < len(pr):
                                            txt += ' ; '.join(pr[int(m.group(1))])
                                    else:
                                        txt += str(o.get('s', '')) + (' "%s"' % o['str'] if isinstance(o.get('str'), str) else '')
                elif a.get('k') == 'const':
                    txt += str(a.get('s', '')) + (' "%s"' % a['str'] if isinstance(a.get('str'), str) else '')
            if '"error"' in txt:
                eq_blocks.append((b, t))
    if not eq_blocks:
        why.append('no comparison of the member name with "error" in the loop')
        return why
    stores = [(b, i, st) for b, i, st in vm.iter_assigns() if st['place']['l'] == flag and not st['place'].get('p')]
    init_false = [b for b, i, st in stores if b not in loop and st['rv']['k'] == 'use' and st['rv']['op'].get('k') == 'const' and st['rv']['op'].get('val') in (False, 0)]
    other_outside = [b for b, i, st in stores if b not in loop and b not in init_false]
    if not init_false or other_outside:
        why.append('the flag does not start as false')
    raised = set()
    for b, i, st in stores:
        if b not in loop:
            continue
        rv = st['rv']
        if rv['k'] == 'use' and rv['op'].get('k') == 'const' and rv['op'].get('val') in (True, 1):
            raised.add(b)
        elif rv['k'] == 'bin' and rv.get('op') == 'BitOr' and any((op_place(o) or {}).get('l') == flag for o in (rv['a'], rv['b'])):
            other = [o for o in (rv['a'], rv['b']) if (op_place(o) or {}).get('l') != flag]
            q = op_place(other[0]) if other else None
            if q and any(e[0] == 'call' and any(e[1] == eb for eb, _ in eq_blocks) for e in vm.slice_back([q['l']])[1]):
                raised.add(b)
                for eb, et in eq_blocks:
                    if et['callee'].get('name') == 'ne':
                        why.append('the flag accumulates `!=` instead of `==`')
            else:
                why.append('the flag is or-ed with something that is not the comparison with "error"')
        else:
            why.append('the flag is overwritten inside the loop (the last member decides instead of any member)')
    # raised on every path from an equal comparison back to the next member
    for eb, et in eq_blocks:
        nxt = et.get('t')
        direct = any(b == eb or vm.dominates(eb, b) for b in raised if vm.term(b) is not None) and any(
            st['rv']['k'] == 'bin' for b, i, st in stores if b in raised)
        if direct:
            continue
        swb = nxt
        while swb is not None and vm.term(swb)['k'] == 'goto':
            swb = vm.term(swb)['t']
        if swb is None or vm.term(swb)['k'] != 'switch':
            why.append('the result of the comparison with "error" does not reach the flag')
            continue
        info = vm.switch_info(swb)
        eq_edge = info.get('true') if et['callee'].get('name') == 'eq' else info.get('false')
        if eq_edge is None or kb in vm.reachable(eq_edge, avoid=raised) or (set(vm.returns()) & vm.reachable(eq_edge, avoid=raised | {kb})):
            why.append('a member named `error` does not raise the flag on every path')
    return why


def check(fx, rep, tier):
    rep.rule('R04.1', 'decode target of receive_reply: untagged enum; attempts ordered standard error, caller error, catch-all, success (last)')
    rep.rule('R04.2', 'an object with an `error` member cannot reach the success shape: catch-all with required any-value `error` member before it, or success type denies unknown members')
    rep.rule('R04.5', 'the catch-all accepts every object with an `error` member, also one that repeats it: a derived struct does not (duplicate field) - a hand-written visitor over all members does')
    rep.rule('R04.3', 'the success shape Reply<_> is decoded nowhere else in the connection code (no bypass of the classification)')
    rep.rule('R04.4', 'match arms: standard error -> Err(VarlinkService), caller error -> Ok(Err), catch-all -> Err, success -> Ok(Ok), each with its own payload')
    for cfg in ['full'] + (['ws', 'nostd'] if tier == 'thorough' else []):
        crate = fx.crate('zlink_core', cfg)
        rr = [b for b in C.methods(crate, RC, 'receive_reply')]
        if not rr:
            rep.bad('R04.1', 'anchor|%s' % cfg, '-', 'ReadConnection::receive_reply not found')
            continue
        co = C.async_body(crate, rr[0])
        fk = co.path
        # decode target: generic argument of the awaited message reader
        target = None
        for b, t in co.iter_terms('call'):
            d = t['callee'].get('def') or ''
            if RC in d and t['callee'].get('name') not in ('receive_reply',) and t['callee'].get('args'):
                cands = []
                for p, a in crate.adts.items():
                    short = p.split('::')[-1]
                    if a.get('kind') == 'Enum' and not a.get('mac') and re.search(r'\b%s\b' % re.escape(short), t['callee']['args']):
                        local = p.startswith(rr[0].path.replace('::<Read>', '<Read>')) or p.startswith('connection::read_connection::ReadConnection<Read>::receive_reply')
                        module = p.startswith('connection::read_connection::') or p.startswith('connection::')
                        if local or module:
                            cands.append((0 if local else 1, p, a))
                if cands:
                    cands.sort(key=lambda x: x[0])
                    target = (cands[0][1], cands[0][2], b)
        if target is None:
            rep.bad('R04.1', '%s|decode-target|%s' % (fk, cfg), co.where(), 'the enum receive_reply decodes the frame into was not found (anchor: generic argument of the message reader call)')
            continue
        tp, tadt, tb = target
        short = tp.split('::')[-1]
        # syntax item
        items = []
        for fn, it in fx.tpl.fns('connection/read_connection.rs', 'receive_reply'):
            def visit(n, path):
                if n.get('k') == 'items':
                    items.extend(n['items'])
            F.walk(it.get('body'), visit)
            for st in it.get('body') or []:
                if isinstance(st, dict) and st.get('k') == 'items':
                    items.extend(st['items'])
        # the same items may live at module level (moved out of the function): file-level structs / enums of the module
        for fname, f in fx.tpl.files.items():
            if fname.endswith('connection/read_connection.rs'):
                items.extend(i for i in f['items'] if i.get('k') in ('enum', 'struct'))
        synt = {i['name']: i for i in items if i.get('k') in ('enum', 'struct')}
        en = synt.get(short)
        if en is None:
            rep.bad('R04.1', '%s|decode-target-syntax|%s' % (fk, cfg), co.where(), 'syntax item of %s not found' % short)
            continue
        ca = SS.container(en)
        rep.check(bool(ca.get('untagged')) and 'Deserialize' in SS.derives(en), 'R04.1', '%s|untagged|%s' % (fk, cfg), '%s:%s' % (co.file, en.get('line')),
                  '%s is a derived untagged enum (first matching attempt wins)' % short, '%s is not a derived #[serde(untagged)] enum: the attempt order argument does not apply' % short)
        # classify variants by resolved field type
        roles = []
        for v in tadt['variants']:
            ty = v['fields'][0]['ty'] if len(v['fields']) == 1 else '?'
            if ty.endswith('varlink_service::api::Error') or ty.endswith('varlink_service::Error'):
                roles.append((v['name'], 'standard', ty))
            elif ty.startswith('reply::Reply<'):
                roles.append((v['name'], 'success', ty))
            elif re.fullmatch(r'[A-Za-z_]\w*', ty):
                roles.append((v['name'], 'caller', ty))
            else:
                roles.append((v['name'], 'other', ty))
        order = [r for _, r, _ in roles]
        ok = order.count('success') == 1 and order[-1] == 'success' and 'standard' in order and 'caller' in order and order.index('standard') < order.index('caller')
        rep.check(ok, 'R04.1', '%s|attempt-order|%s' % (fk, cfg), '%s:%s' % (co.file, en.get('line')),
                  'attempt order: %s' % order, 'attempt order %s is not (standard error, caller error, ..., success last)' % order, {'variants': roles})
        # R04.2 catch-all
        succ_i = order.index('success') if 'success' in order else len(order)
        guard_ok = False
        det = {}
        for name, role, ty in roles[:succ_i]:
            if role != 'other':
                continue
            st = synt.get(ty.split('::')[-1])
            if not st or st.get('k') != 'struct':
                continue
            sa = SS.container(st)
            for f in st.get('fields') or []:
                fi = SS.field(f)
                if fi['wire'] == 'error':
                    anyv = any(fi['ty'].endswith(x) for x in ANY_VALUE)
                    det = {'catch_all': name, 'error_member_type': fi['ty'], 'optional': fi['optional'], 'default': fi['default'] or 'default' in sa,
                           'accepts_any_json_value': anyv}
                    if anyv and not fi['optional'] and not fi['default'] and 'default' not in sa and 'Deserialize' in SS.derives(st):
                        guard_ok = True
        # R04.5 the catch-all is total over objects that carry `error` - also when the member is repeated
        import ast as A
        for name, role, ty in roles[:succ_i]:
            if role != 'other':
                continue
            st = synt.get(ty.split('::')[-1])
            if not st or st.get('k') != 'struct':
                continue
            short_ca = ty.split('::')[-1]
            if 'Deserialize' in SS.derives(st):
                rep.bad('R04.5', '%s|catch-all-total|derived|%s' % (fk, cfg), '%s:%s' % (co.file, st.get('line')),
                        'the catch-all %s is a derived struct: serde\'s derived visitor rejects an object that repeats the `error` member (duplicate field), so '
                        '`{"error":"io.systemd.System","error":"x"}` falls through to the success shape and is reported as a successful reply' % short_ca,
                        {'catch_all': short_ca})
                continue
            vms = [b2 for b2 in crate.bodies if b2.name == 'visit_map' and not b2.in_test and re.search(r'\b%s\b' % re.escape(short_ca), (b2.d.get('ret_ty') or '') + ' ' + b2.path)]
            why = []
            if len(vms) != 1:
                why.append('expected one hand-written visitor (visit_map) producing %s, found %d' % (short_ca, len(vms)))
            else:
                why = visitor_total(crate, vms[0], ANY_VALUE)
            rep.check(not why, 'R04.5', '%s|catch-all-total|hand-written|%s' % (fk, cfg), '%s:%s' % (co.file, st.get('line')),
                      'the catch-all %s visits every member, ignores the values, and succeeds exactly when a member named `error` was seen (repeated members included)' % short_ca,
                      'the hand-written catch-all %s is not total over objects with an `error` member: %s' % (short_ca, '; '.join(why)))
            if not why:
                guard_ok = True
                det = {'catch_all': name, 'idiom': 'hand-written visitor over all members'}
        reply_items = [it for fn, it in fx.tpl.items('zlink-core/src/reply.rs', 'struct') if it.get('name') == 'Reply']
        denies = bool(reply_items) and 'deny_unknown_fields' in SS.container(reply_items[0])
        det['success_type_denies_unknown_members'] = denies
        rep.check(guard_ok or denies, 'R04.2', '%s|success-shape-rejects-error-member|%s' % (fk, cfg), '%s:%s' % (co.file, en.get('line')),
                  'an object carrying an `error` member is intercepted before the success attempt (%s)' % det,
                  'a frame with an `error` member that neither error type recognises can be decoded as a success: no attempt before Reply<_> has a required '
                  '`error` member accepting every JSON value, and Reply does not deny unknown members (accepted idioms: catch-all struct with '
                  '`error: IgnoredAny | serde_json::Value`; #[serde(deny_unknown_fields)] on Reply)', det)
        # R04.3 bypass: any zlink / serde / serde_json function instantiated with the bare success shape as a type argument
        bad = []
        n_dec = 0
        for body in crate.raw_bodies:     # who-may-instantiate rule: the calls as written (a helper inlined by the normal form has no call site left)
            if body.in_test or body.mac or not (body.path.startswith('connection::')):
                continue
            if 'write_connection' in body.path:
                continue            # the sending side serialises Reply<_>; it decodes nothing
            for b, t in body.iter_terms('call'):
                c = t['callee']
                a = c.get('args') or ''
                if 'write_connection' in (c.get('def') or '') or 'json_ser' in (c.get('def') or '') or (c.get('name') or '').startswith(('send_', 'enqueue')):
                    continue
                nm = c.get('name')
                d = c.get('def') or ''
                local_or_serde = c.get('local') or c.get('krate') in ('serde', 'serde_json', 'serde_core') or d.startswith(('serde', 'connection::', 'reply::'))
                if not local_or_serde:
                    continue
                if d.startswith('reply::Reply') or (c.get('impl_self') or '').startswith('reply::Reply'):
                    continue        # methods of Reply itself (constructors / accessors)
                if nm in ('read_message', 'deserialize', 'from_slice', 'from_str', 'from_reader') or 'Deserialize' in (c.get('trait') or '') or a:
                    n_dec += 1
                if re.search(r"(^\[|, )reply::Reply<", a):
                    bad.append('%s::<Reply<_>> at %s' % (nm, C.where(body, b)))
            for b, i, st in body.iter_assigns():
                # a generic decoder passed as a function value: `decode::<Reply<_>>`
                for o in mir.rv_operands(st['rv']):
                    if o.get('k') == 'const' and o.get('fn') and (o.get('fn_local') or 'serde' in o['fn']) and re.search(r"(^\[|, )reply::Reply<", o.get('fn_args') or ''):
                        bad.append('%s::<Reply<_>> (as a function value) at %s' % (o['fn'].split('::')[-1], C.where(body, b, i)))
        rep.check(not bad and n_dec > 0, 'R04.3', 'connection|no-direct-success-decode|%s' % cfg, 'zlink-core/src/connection',
                  'no function of the connection code (or of serde / serde_json called from it) is instantiated with the bare success shape Reply<_> (%d instantiations inspected)' % n_dec,
                  'a frame can be decoded directly as the success shape, bypassing the error classification: %s' % bad)
        # R04.4 arms
        msw = None
        co_rr = co
        # the classification match: in receive_reply itself or in a function of the module it hands the decoded value to
        def _classifier(b):
            # derived impls (Debug, Deserialize) also match on the enum: the classification is the function that turns it into the caller's Result
            it = b.impl_trait or ''
            return not any(x in it for x in ('Debug', 'Deserialize', 'Serialize', 'Clone', 'PartialEq')) and 'Result' in (b.d.get('ret_ty') or 'Result')
        for cand in [co] + [b for b in crate.bodies if not b.in_test and b is not co and (b.file or '').endswith('connection/read_connection.rs') and _classifier(b)]:
            for sw in range(cand.n):
                if cand.is_cleanup(sw) or cand.term(sw)['k'] != 'switch':
                    continue
                info = cand.switch_info(sw)
                pty = (info['place'].get('ty') or '') if info and info.get('kind') == 'discr' else ''
                if info and info.get('kind') == 'discr' and _is_type(pty, short) and len(info['arms']) >= 2:
                    msw = (sw, info)
                    co = cand
            if msw is not None:
                break
        if msw is None:
            rep.bad('R04.4', '%s|match|%s' % (fk, cfg), co.where(), 'match on the decoded %s not found' % short)
            continue
        sw, info = msw
        rets = set(co.returns())
        ret_locals = {0}
        for b_, i_, s_ in co.iter_assigns():
            if s_['place']['l'] == 0 and not s_['place'].get('p') and s_['rv']['k'] == 'use' and op_place(s_['rv']['op']) and not op_place(s_['rv']['op']).get('p'):
                ret_locals.add(op_place(s_['rv']['op'])['l'])
        covered = set(info['arms'].keys())
        for i, (name, role, ty) in enumerate(roles):
            tgt = info['arms'].get(i)
            if tgt is None and len(covered) == len(roles) - 1 and co.term(info['otherwise'])['k'] != 'unreachable':
                tgt = info['otherwise']         # the last variant is the `otherwise` edge of the switch
            if tgt is None:
                rep.bad('R04.4', '%s|arm-%s|%s' % (fk, role, cfg), C.where(co, sw), 'no arm for variant %s' % name)
                continue
            others = {t2 for j, t2 in info['arms'].items() if j != i} | ({info['otherwise']} if tgt != info['otherwise'] else set())
            region = co.reachable(tgt, avoid=set())
            # blocks exclusive to this arm: reachable from tgt but not from the other arms' targets before the join
            excl = {b for b in region if not any(b in co.reachable(o) for o in others)}
            outer = inner = None
            payload_used = False
            for b in sorted(excl):
                for s in co.stmts(b):
                    if s['k'] != 'assign':
                        continue
                    rv = s['rv']
                    if rv['k'] == 'aggr' and rv.get('adt', '').endswith('result::Result') and s['place']['l'] in ret_locals and not s['place'].get('p'):
                        outer = rv.get('variant')
                        tr = co.trace(rv['ops'][0])
                        if tr.get('kind') == 'aggr':
                            inner = (tr['rv'].get('adt', '').split('::')[-1], tr['rv'].get('variant'))
                            if tr['rv'].get('ops'):
                                q = op_place(tr['rv']['ops'][0])
                                if q:
                                    locs, ev = co.slice_back([q['l']])
                                    payload_used = any(e[0] == 'assign' and e[3]['rv']['k'] == 'use' and op_place(e[3]['rv']['op']) and
                                                       any(isinstance(pp, dict) and pp.get('dc') == name for pp in (op_place(e[3]['rv']['op']).get('p') or []))
                                                       for e in ev)
            if outer is None:
                # the arm only computes the inner value; the outer Ok(..) is built once behind the join:
                # `let r = match msg { Reply(x) => Ok(x), Error(e) => Err(e), .. => return Err(..) }; Ok(r)`
                def arm_def(l, depth=0):
                    for b in sorted(excl):
                        for s_ in co.stmts(b):
                            if s_['k'] == 'assign' and s_['place']['l'] == l and not s_['place'].get('p'):
                                if s_['rv']['k'] == 'aggr':
                                    return s_['rv']
                                if s_['rv']['k'] == 'use' and op_place(s_['rv']['op']) and not op_place(s_['rv']['op']).get('p') and depth < 4:
                                    return arm_def(op_place(s_['rv']['op'])['l'], depth + 1)
                    return None
                for b in sorted(region - excl):
                    for s in co.stmts(b):
                        if s['k'] == 'assign' and s['rv']['k'] == 'aggr' and s['rv'].get('adt', '').endswith('result::Result') and s['place']['l'] in ret_locals and \
                                not s['place'].get('p') and s['rv'].get('ops'):
                            q = op_place(s['rv']['ops'][0])
                            cur = q['l'] if q and not q.get('p') else None
                            irv = None
                            for _ in range(4):
                                if cur is None:
                                    break
                                irv = arm_def(cur)
                                if irv is not None:
                                    break
                                sd = co.single_def(cur)
                                cur = op_place(sd[3]['rv']['op'])['l'] if sd and sd[2] == 'assign' and sd[3]['rv']['k'] == 'use' and op_place(sd[3]['rv']['op']) and \
                                    not op_place(sd[3]['rv']['op']).get('p') else None
                            if irv is not None and irv.get('adt', '').endswith('result::Result'):
                                outer = s['rv'].get('variant')
                                inner = ('Result', irv.get('variant'))
                                if irv.get('ops'):
                                    q2 = op_place(irv['ops'][0])
                                    if q2:
                                        locs, ev = co.slice_back([q2['l']])
                                        payload_used = any(e[0] == 'assign' and e[3]['rv']['k'] == 'use' and op_place(e[3]['rv']['op']) and
                                                           any(isinstance(pp, dict) and pp.get('dc') == name for pp in (op_place(e[3]['rv']['op']).get('p') or []))
                                                           for e in ev)
            want = {'standard': ('Err', ('Error', 'VarlinkService'), True), 'caller': ('Ok', ('Result', 'Err'), True),
                    'success': ('Ok', ('Result', 'Ok'), True), 'other': ('Err', None, False)}[role]
            ok = outer == want[0] and (want[1] is None or inner == want[1]) and (not want[2] or payload_used)
            rep.check(ok, 'R04.4', '%s|arm-%s|%s' % (fk, role, cfg), C.where(co, tgt),
                      'variant %s (%s) is returned as %s(%s)' % (name, role, outer, inner),
                      'variant %s (%s attempt) is returned as %s(%s)%s - expected %s(%s)' % (name, role, outer, inner, '' if payload_used or not want[2] else ' without its own payload', want[0], want[1]),
                      {'outer': outer, 'inner': inner, 'payload_is_variant_payload': payload_used})
        rep.floor('R04.4', 3, 'match arms')
    import imports as _imp
    _imp.layer(fx, rep, 'C04')
    return META
