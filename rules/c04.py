"""C04 - a reply carrying an error is never reported to the caller as success (R04.1 - R04.4)."""
import re
import mir
from mir import op_place, op_str
import common as C
import facts as F
import serdeshape as SS

RC = 'read_connection::ReadConnection'
ANY_VALUE = ('IgnoredAny', 'serde_json::Value', 'Value', 'serde::de::IgnoredAny', 'de::IgnoredAny')

META = {
    'level': 'other',
    'explanation': (
        'Serde-shape analysis of the decode target of receive_reply (type-checked ADT from the compiler + the serde attributes '
        'of the same item from the syntax tree) and arm mapping over MIR: (R04.1) the target is an untagged enum whose attempts '
        'are, in order, the standard org.varlink.service error type, the caller\'s error type parameter, a catch-all, and the '
        'success shape Reply<T> last; (R04.2) the success shape cannot be reached by an object that has an `error` member: the '
        'catch-all attempt preceding it is a struct with a required member whose wire name is `error`, not optional, not '
        'defaulted, whose type accepts every JSON value (IgnoredAny / serde_json::Value) - a narrower type (string, borrowed '
        'str) lets escaped or non-string values fall through to success; alternatively the success type itself denies unknown '
        'members; (R04.3) no other decode of the frame to the success shape exists in the connection code: every call whose '
        'instantiation decodes reply::Reply<_> is the derived impl of that enum (no byte-scan fast path, no second decoder); '
        '(R04.4) the match on the decoded enum maps the standard-error variant to Err(Error::VarlinkService), the caller-error '
        'variant to Ok(Err(e)), the catch-all to Err(_) and only the success variant to Ok(Ok(reply)), each returning its own '
        'payload. Not decided: classification of every frame x every user Deserialize impl.'),
    'assumptions': ['serde untagged enums try variants in declaration order and take the first that deserialises (serde documentation)',
                    'serde_derive struct deserialisation fails on a missing non-Option, non-default field'],
}


def _is_type(ty, short):
    """ty is (a reference to) the type whose last path segment is `short` - not a type that merely mentions it as an argument"""
    ty = re.sub(r'^&(mut )?', '', ty or '')
    m = re.search(r'(^|::)%s(<|$)' % re.escape(short), ty)
    while m:
        pre = ty[:m.start()]
        if pre.count('<') == pre.count('>'):
            return True
        m = re.search(r'(^|::)%s(<|$)' % re.escape(short), ty[m.end():]) and None
    return False


def check(fx, rep, tier):
    rep.rule('R04.1', 'decode target of receive_reply: untagged enum; attempts ordered standard error, caller error, catch-all, success (last)')
    rep.rule('R04.2', 'an object with an `error` member cannot reach the success shape: catch-all with required any-value `error` member before it, or success type denies unknown members')
    rep.rule('R04.5', 'the catch-all accepts every object with an `error` member, also one that repeats it: a derived struct does not (duplicate field) - a hand-written visitor over all members does')
    rep.rule('R04.3', 'the success shape Reply<_> is decoded nowhere else in the connection code (no bypass of the classification)')
    rep.rule('R04.4', 'match arms: standard error -> Err(VarlinkService), caller error -> Ok(Err), catch-all -> Err, success -> Ok(Ok), each with its own payload')
    for cfg in ['full'] + (['ws', 'nostd'] if tier == 'thorough' else []):
        crate = fx.crate('zlink_core', cfg)
        rr = [b for b in C.methods(crate, RC, 'receive_reply')]
        if not rr:
            rep.bad('R04.1', 'anchor|%s' % cfg, '-', 'ReadConnection::receive_reply not found')
            continue
        co = C.async_body(crate, rr[0])
        fk = co.path
        # decode target: generic argument of the awaited message reader
        target = None
        for b, t in co.iter_terms('call'):
            d = t['callee'].get('def') or ''
            if RC in d and t['callee'].get('name') not in ('receive_reply',) and t['callee'].get('args'):
                cands = []
                for p, a in crate.adts.items():
                    short = p.split('::')[-1]
                    if a.get('kind') == 'Enum' and not a.get('mac') and re.search(r'\b%s\b' % re.escape(short), t['callee']['args']):
                        local = p.startswith(rr[0].path.replace('::<Read>', '<Read>')) or p.startswith('connection::read_connection::ReadConnection<Read>::receive_reply')
                        module = p.startswith('connection::read_connection::') or p.startswith('connection::')
                        if local or module:
                            cands.append((0 if local else 1, p, a))
                if cands:
                    cands.sort(key=lambda x: x[0])
                    target = (cands[0][1], cands[0][2], b)
        if target is None:
            rep.bad('R04.1', '%s|decode-target|%s' % (fk, cfg), co.where(), 'the enum receive_reply decodes the frame into was not found (anchor: generic argument of the message reader call)')
            continue
        tp, tadt, tb = target
        short = tp.split('::')[-1]
        # syntax item
        items = []
        for fn, it in fx.tpl.fns('connection/read_connection.rs', 'receive_reply'):
            def visit(n, path):
                if n.get('k') == 'items':
                    items.extend(n['items'])
            F.walk(it.get('body'), visit)
            for st in it.get('body') or []:
                if isinstance(st, dict) and st.get('k') == 'items':
                    items.extend(st['items'])
        # the same items may live at module level (moved out of the function): file-level structs / enums of the module
        for fname, f in fx.tpl.files.items():
            if fname.endswith('connection/read_connection.rs'):
                items.extend(i for i in f['items'] if i.get('k') in ('enum', 'struct'))
        synt = {i['name']: i for i in items if i.get('k') in ('enum', 'struct')}
        en = synt.get(short)
        if en is None:
            rep.bad('R04.1', '%s|decode-target-syntax|%s' % (fk, cfg), co.where(), 'syntax item of %s not found' % short)
            continue
        ca = SS.container(en)
        rep.check(bool(ca.get('untagged')) and 'Deserialize' in SS.derives(en), 'R04.1', '%s|untagged|%s' % (fk, cfg), '%s:%s' % (co.file, en.get('line')),
                  '%s is a derived untagged enum (first matching attempt wins)' % short, '%s is not a derived #[serde(untagged)] enum: the attempt order argument does not apply' % short)
        # classify variants by resolved field type
        roles = []
        for v in tadt['variants']:
            ty = v['fields'][0]['ty'] if len(v['fields']) == 1 else '?'
            if ty.endswith('varlink_service::api::Error') or ty.endswith('varlink_service::Error'):
                roles.append((v['name'], 'standard', ty))
            elif ty.startswith('reply::Reply<'):
                roles.append((v['name'], 'success', ty))
            elif re.fullmatch(r'[A-Za-z_]\w*', ty):
                roles.append((v['name'], 'caller', ty))
            else:
                roles.append((v['name'], 'other', ty))
        order = [r for _, r, _ in roles]
        ok = order.count('success') == 1 and order[-1] == 'success' and 'standard' in order and 'caller' in order and order.index('standard') < order.index('caller')
        rep.check(ok, 'R04.1', '%s|attempt-order|%s' % (fk, cfg), '%s:%s' % (co.file, en.get('line')),
                  'attempt order: %s' % order, 'attempt order %s is not (standard error, caller error, ..., success last)' % order, {'variants': roles})
        # R04.2 catch-all
        succ_i = order.index('success') if 'success' in order else len(order)
        guard_ok = False
        det = {}
        for name, role, ty in roles[:succ_i]:
            if role != 'other':
                continue
            st = synt.get(ty.split('::')[-1])
            if not st or st.get('k') != 'struct':
                continue
            sa = SS.container(st)
            for f in st.get('fields') or []:
                fi = SS.field(f)
                if fi['wire'] == 'error':
                    anyv = any(fi['ty'].endswith(x) for x in ANY_VALUE)
                    det = {'catch_all': name, 'error_member_type': fi['ty'], 'optional': fi['optional'], 'default': fi['default'] or 'default' in sa,
                           'accepts_any_json_value': anyv}
                    if anyv and not fi['optional'] and not fi['default'] and 'default' not in sa and 'Deserialize' in SS.derives(st):
                        guard_ok = True
        # R04.5 the catch-all is total over objects that carry `error` - also when the member is repeated
        import ast as A
        for name, role, ty in roles[:succ_i]:
            if role != 'other':
                continue
            st = synt.get(ty.split('::')[-1])
            if not st or st.get('k') != 'struct':
                continue
            short_ca = ty.split('::')[-1]
            if 'Deserialize' in SS.derives(st):
                rep.bad('R04.5', '%s|catch-all-total|derived|%s' % (fk, cfg), '%s:%s' % (co.file, st.get('line')),
                        'the catch-all %s is a derived struct: serde\'s derived visitor rejects an object that repeats the `error` member (duplicate field), so '
                        '`{"error":"io.systemd.System","error":"x"}` falls through to the success shape and is reported as a successful reply' % short_ca,
                        {'catch_all': short_ca})
                continue
            vm = [(f, n, impl) for f, n, impl in A.all_fns(fx.tpl, 'connection/read_connection.rs') if n['name'] == 'visit_map']
            des = [(f, n, impl) for f, n, impl in A.all_fns(fx.tpl, 'connection/read_connection.rs')
                   if n['name'] == 'deserialize' and impl and (impl.get('self_ty') or '') == short_ca and 'Deserialize' in (impl.get('trait') or '')]
            why = []
            if len(vm) != 1 or len(des) != 1:
                why.append('expected one hand-written Deserialize impl of %s with one visit_map, found %d / %d' % (short_ca, len(des), len(vm)))
            else:
                f, n, impl = vm[0]
                loops = [x for x in n['body'] if isinstance(x, dict) and (x.get('expr') or x).get('k') == 'while']
                loops = [(x.get('expr') or x) for x in loops]
                if len(loops) != 1 or 'next_key' not in (loops[0].get('cond') or ''):
                    why.append('visit_map is not one `while let Some(key) = map.next_key()?` loop over all members')
                else:
                    lp = loops[0]
                    inner = list(A.nodes(lp.get('body')))
                    if any(x.get('k') in ('return', 'break') or (x.get('k') == 'call' and x.get('func') == 'Err') for x in inner):
                        why.append('the member loop can stop early or fail on its own')
                    cmpn = [x for x in inner if x.get('k') == 'binary' and x.get('op') == '==' and any(isinstance(y, dict) and y.get('k') == 'str' and y.get('value') == 'error' for y in (x.get('l'), x.get('r')))]
                    flags = set()
                    for x in inner:
                        if x.get('k') == 'binary' and x.get('op') in ('|=', '=') and isinstance(x.get('l'), dict) and x['l'].get('k') == 'path':
                            flags.add(x['l'].get('text'))
                    if not cmpn or not flags:
                        why.append('no member-name comparison with "error" recorded in a flag')
                    if not any(x.get('k') == 'mcall' and x.get('method') == 'next_value' for x in inner):
                        why.append('member values are not consumed')
                    tails = [x.get('expr') or x for x in n['body'] if isinstance(x, dict) and (x.get('expr') or x).get('k') == 'if']
                    ok_tail = any((tl.get('cond') or '').strip() in flags and any(y.get('k') == 'call' and y.get('func') == 'Ok' for y in A.nodes(tl.get('then'))) for tl in tails)
                    if not ok_tail:
                        why.append('Ok is not returned exactly when the flag is set')
                # value type: every next_value is instantiated with an any-value type
                for b2 in crate.bodies:
                    if b2.name == 'visit_map' and not b2.in_test and re.search(r'\b%s\b' % re.escape(short_ca), b2.path):
                        for blk, tm in b2.iter_terms('call'):
                            if tm['callee'].get('name') == 'next_value' and not any(a in (tm['callee'].get('args') or '') for a in ANY_VALUE):
                                why.append('a member value is decoded as %s' % tm['callee'].get('args'))
                            if tm['callee'].get('name') in ('next_key', 'next_entry'):
                                # the untagged enum replays the frame from serde's buffered Content: a member name that was written with an
                                # escape is an owned string there, which only an owning key type can be decoded from
                                kt = (tm['callee'].get('args') or '').strip('[]').split(', ')
                                kt = [x for x in kt if not x.startswith("'") and '/#' not in x]
                                if not kt or not any(re.search(r'(^|::)(String|Cow<)', x) for x in kt[:1]):
                                    why.append('member names are decoded as %s: a borrowed or narrower key type does not accept every member name '
                                               '(`{"\\u0065rror":..}` is an owned string in the buffered content), so such a frame falls through to the success shape' % (kt[0] if kt else '?'))
            rep.check(not why, 'R04.5', '%s|catch-all-total|hand-written|%s' % (fk, cfg), '%s:%s' % (co.file, st.get('line')),
                      'the catch-all %s visits every member, ignores the values, and succeeds exactly when a member named `error` was seen (repeated members included)' % short_ca,
                      'the hand-written catch-all %s is not total over objects with an `error` member: %s' % (short_ca, '; '.join(why)))
            if not why:
                guard_ok = True
                det = {'catch_all': name, 'idiom': 'hand-written visitor over all members'}
        reply_items = [it for fn, it in fx.tpl.items('zlink-core/src/reply.rs', 'struct') if it.get('name') == 'Reply']
        denies = bool(reply_items) and 'deny_unknown_fields' in SS.container(reply_items[0])
        det['success_type_denies_unknown_members'] = denies
        rep.check(guard_ok or denies, 'R04.2', '%s|success-shape-rejects-error-member|%s' % (fk, cfg), '%s:%s' % (co.file, en.get('line')),
                  'an object carrying an `error` member is intercepted before the success attempt (%s)' % det,
                  'a frame with an `error` member that neither error type recognises can be decoded as a success: no attempt before Reply<_> has a required '
                  '`error` member accepting every JSON value, and Reply does not deny unknown members (accepted idioms: catch-all struct with '
                  '`error: IgnoredAny | serde_json::Value`; #[serde(deny_unknown_fields)] on Reply)', det)
        # R04.3 bypass: any zlink / serde / serde_json function instantiated with the bare success shape as a type argument
        bad = []
        n_dec = 0
        for body in crate.raw_bodies:     # who-may-instantiate rule: the calls as written (a helper inlined by the normal form has no call site left)
            if body.in_test or body.mac or not (body.path.startswith('connection::')):
                continue
            if 'write_connection' in body.path:
                continue            # the sending side serialises Reply<_>; it decodes nothing
            for b, t in body.iter_terms('call'):
                c = t['callee']
                a = c.get('args') or ''
                if 'write_connection' in (c.get('def') or '') or 'json_ser' in (c.get('def') or '') or (c.get('name') or '').startswith(('send_', 'enqueue')):
                    continue
                nm = c.get('name')
                d = c.get('def') or ''
                local_or_serde = c.get('local') or c.get('krate') in ('serde', 'serde_json', 'serde_core') or d.startswith(('serde', 'connection::', 'reply::'))
                if not local_or_serde:
                    continue
                if d.startswith('reply::Reply') or (c.get('impl_self') or '').startswith('reply::Reply'):
                    continue        # methods of Reply itself (constructors / accessors)
                if nm in ('read_message', 'deserialize', 'from_slice', 'from_str', 'from_reader') or 'Deserialize' in (c.get('trait') or '') or a:
                    n_dec += 1
                if re.search(r"(^\[|, )reply::Reply<", a):
                    bad.append('%s::<Reply<_>> at %s' % (nm, C.where(body, b)))
            for b, i, st in body.iter_assigns():
                # a generic decoder passed as a function value: `decode::<Reply<_>>`
                for o in mir.rv_operands(st['rv']):
                    if o.get('k') == 'const' and o.get('fn') and (o.get('fn_local') or 'serde' in o['fn']) and re.search(r"(^\[|, )reply::Reply<", o.get('fn_args') or ''):
                        bad.append('%s::<Reply<_>> (as a function value) at %s' % (o['fn'].split('::')[-1], C.where(body, b, i)))
        rep.check(not bad and n_dec > 0, 'R04.3', 'connection|no-direct-success-decode|%s' % cfg, 'zlink-core/src/connection',
                  'no function of the connection code (or of serde / serde_json called from it) is instantiated with the bare success shape Reply<_> (%d instantiations inspected)' % n_dec,
                  'a frame can be decoded directly as the success shape, bypassing the error classification: %s' % bad)
        # R04.4 arms
        msw = None
        co_rr = co
        # the classification match: in receive_reply itself or in a function of the module it hands the decoded value to
        for cand in [co] + [b for b in crate.bodies if not b.in_test and b is not co and (b.file or '').endswith('connection/read_connection.rs')]:
            for sw in range(cand.n):
                if cand.is_cleanup(sw) or cand.term(sw)['k'] != 'switch':
                    continue
                info = cand.switch_info(sw)
                pty = (info['place'].get('ty') or '') if info and info.get('kind') == 'discr' else ''
                if info and info.get('kind') == 'discr' and _is_type(pty, short) and len(info['arms']) >= 2:
                    msw = (sw, info)
                    co = cand
            if msw is not None:
                break
        if msw is None:
            rep.bad('R04.4', '%s|match|%s' % (fk, cfg), co.where(), 'match on the decoded %s not found' % short)
            continue
        sw, info = msw
        rets = set(co.returns())
        ret_locals = {0}
        for b_, i_, s_ in co.iter_assigns():
            if s_['place']['l'] == 0 and not s_['place'].get('p') and s_['rv']['k'] == 'use' and op_place(s_['rv']['op']) and not op_place(s_['rv']['op']).get('p'):
                ret_locals.add(op_place(s_['rv']['op'])['l'])
        covered = set(info['arms'].keys())
        for i, (name, role, ty) in enumerate(roles):
            tgt = info['arms'].get(i)
            if tgt is None and len(covered) == len(roles) - 1 and co.term(info['otherwise'])['k'] != 'unreachable':
                tgt = info['otherwise']         # the last variant is the `otherwise` edge of the switch
            if tgt is None:
                rep.bad('R04.4', '%s|arm-%s|%s' % (fk, role, cfg), C.where(co, sw), 'no arm for variant %s' % name)
                continue
            others = {t2 for j, t2 in info['arms'].items() if j != i} | ({info['otherwise']} if tgt != info['otherwise'] else set())
            region = co.reachable(tgt, avoid=set())
            # blocks exclusive to this arm: reachable from tgt but not from the other arms' targets before the join
            excl = {b for b in region if not any(b in co.reachable(o) for o in others)}
            outer = inner = None
            payload_used = False
            for b in sorted(excl):
                for s in co.stmts(b):
                    if s['k'] != 'assign':
                        continue
                    rv = s['rv']
                    if rv['k'] == 'aggr' and rv.get('adt', '').endswith('result::Result') and s['place']['l'] in ret_locals and not s['place'].get('p'):
                        outer = rv.get('variant')
                        tr = co.trace(rv['ops'][0])
                        if tr.get('kind') == 'aggr':
                            inner = (tr['rv'].get('adt', '').split('::')[-1], tr['rv'].get('variant'))
                            if tr['rv'].get('ops'):
                                q = op_place(tr['rv']['ops'][0])
                                if q:
                                    locs, ev = co.slice_back([q['l']])
                                    payload_used = any(e[0] == 'assign' and e[3]['rv']['k'] == 'use' and op_place(e[3]['rv']['op']) and
                                                       any(isinstance(pp, dict) and pp.get('dc') == name for pp in (op_place(e[3]['rv']['op']).get('p') or []))
                                                       for e in ev)
            want = {'standard': ('Err', ('Error', 'VarlinkService'), True), 'caller': ('Ok', ('Result', 'Err'), True),
                    'success': ('Ok', ('Result', 'Ok'), True), 'other': ('Err', None, False)}[role]
            ok = outer == want[0] and (want[1] is None or inner == want[1]) and (not want[2] or payload_used)
            rep.check(ok, 'R04.4', '%s|arm-%s|%s' % (fk, role, cfg), C.where(co, tgt),
                      'variant %s (%s) is returned as %s(%s)' % (name, role, outer, inner),
                      'variant %s (%s attempt) is returned as %s(%s)%s - expected %s(%s)' % (name, role, outer, inner, '' if payload_used or not want[2] else ' without its own payload', want[0], want[1]),
                      {'outer': outer, 'inner': inner, 'payload_is_variant_payload': payload_used})
        rep.floor('R04.4', 3, 'match arms')
    return META
