"""Symbolic value expressions over MIR: follow an operand back through copies, arithmetic, Option combinators with
closures (map / map_or / unwrap_or / and_then-free), range loop variables.  Pure syntax-directed extraction; the rules
compare the resulting trees with the shape a property needs (e.g. `(start + i) % n`).

Expression forms (nested tuples):
  ('const', v)                      integer / bool constant
  ('cdef', path)                    named constant (symbolic)
  ('field', (name, ...))            read of self.<name>... (fields of the ADT reached from an argument)
  ('arg', name)                     function parameter
  ('var', name)                     bound variable of a closure
  ('bin', op, a, b)                 Add Sub Mul Rem Div Eq Lt ... (checked forms normalised)
  ('un', op, a)
  ('some', a) / ('none',)
  ('map', opt, ('lam', x, body))    Option::map
  ('map_or', opt, dflt, ('lam', x, body))
  ('unwrap_or', opt, dflt)
  ('rangevar', lo, hi)              loop variable of `for i in lo..hi`
  ('len', a)                        Vec/slice len
  ('call', name, (args...))         any other call
  ('phi', name_or_index, n_defs)    local with several definitions
  ('tuplefield', i, a) / ('payload', variant, a)
  ('unknown', text)
"""
from mir import op_place, place_is_local


def expr(crate, body, op, env=None, depth=24):
    env = env or {}
    if op is None:
        return ('unknown', 'none')
    if op.get('k') == 'const':
        if 'val' in op and op['val'] is not None:
            return ('const', op['val'])
        if op.get('def'):
            return ('cdef', op['def'])
        if op.get('fn'):
            return ('fn', op['fn'])
        return ('unknown', op.get('s', 'const'))
    p = op_place(op)
    if p is None:
        return ('unknown', op.get('s', '?'))
    return place_expr(crate, body, p, env, depth)


def _proj_names(pr):
    out = []
    for e in pr:
        if isinstance(e, dict) and 'f' in e:
            out.append(('f', e.get('name') if e.get('name') is not None else str(e.get('f')), e.get('adt'), e.get('f')))
        elif isinstance(e, dict) and 'dc' in e:
            out.append(('dc', e['dc']))
        elif e == '*':
            out.append(('*',))
        elif isinstance(e, dict) and 'idx' in e:
            out.append(('idx', e['idx']))
        else:
            out.append(('?', str(e)))
    return out


def place_expr(crate, body, p, env, depth):
    l = p['l']
    pr = p.get('p') or []
    if depth <= 0:
        return ('unknown', 'depth')
    # copies, reborrows and scalar-replacement steps do not use up the structural depth (a value handed through helpers that were absorbed
    # into this body travels through a dozen copies); a step budget keeps the walk finite
    steps = env.setdefault(('steps',), [0])
    steps[0] += 1
    if steps[0] > 20000:
        return ('unknown', 'depth')
    if ('local', l) in env and not pr:
        return env[('local', l)]
    if pr:
        names = _proj_names(pr)
        # closure upvar: (*_1.k) / _1.k
        if l == 1 and ('upvars',) in env and names and names[0][0] == 'f':
            k = pr[0].get('f')
            ups = env[('upvars',)]
            if isinstance(k, int) and k < len(ups):
                base = ups[k]
                rest = [n for n in names[1:] if n != ('*',)]
                return _apply_proj(base, rest)
        # coroutine upvar = parameter of the async fn
        if l == 1 and ('upvars',) not in env and names and names[0][0] == 'f' and str(names[0][2] or '').startswith('upvars'):
            k = pr[0].get('f')
            base = ('arg', _upvar_name(body, k))
            return _apply_proj(base, [n for n in names[1:] if n != ('*',)])
        # checked arithmetic result
        if len(pr) == 1 and isinstance(pr[0], dict) and pr[0].get('f') == 0:
            sd = body.single_def(l)
            if sd and sd[2] == 'assign' and sd[3]['rv']['k'] == 'bin' and sd[3]['rv']['op'].endswith('WithOverflow'):
                rv = sd[3]['rv']
                return ('bin', rv['op'][:-len('WithOverflow')], expr(crate, body, rv['a'], env, depth - 1), expr(crate, body, rv['b'], env, depth - 1))
        # scalar replacement: a field of an aggregate built in this body (also behind `?` and copies, engine O)
        if not (1 <= l <= body.arg_count) and pr[0] != '*' and hasattr(body, '_peel'):
            q = body._peel(p)
            if q is not None:
                if q.get('k') in ('const', 'copy', 'move'):
                    return expr(crate, body, q, env, depth)
                return place_expr(crate, body, q, env, depth)
        base = place_expr(crate, body, {'l': l, 'p': None}, env, depth - 1)
        rest = [n for n in names if n != ('*',)]
        return _apply_proj(base, rest)
    if 1 <= l <= body.arg_count:
        if ('argmap', l) in env:
            return env[('argmap', l)]
        return ('arg', body.local_name(l) or '_%d' % l)
    defs = [d for d in body.defs().get(l, []) if d[2] != 'partial']
    if len(defs) != 1:
        sd_ = body.single_def_at(l, p.get('@'), p.get('@i')) if hasattr(body, 'single_def_at') else None
        if sd_ is None:
            # a value chosen by a `match` / `if` (two or three plain assignments): keep the alternatives, so that a rule can ask whether each of them
            # is acceptable (`match start { Some(i) => i % n, None => 0 }` is `start.map_or(0, |i| i % n)`)
            if 2 <= len(defs) <= 3 and depth > 4 and all(d[2] == 'assign' for d in defs):
                alts = tuple(_def_expr(crate, body, d, env, depth - 3) for d in defs)
                return ('phi', body.local_name(l) or '_%d' % l, len(defs), alts)
            return ('phi', body.local_name(l) or '_%d' % l, len(defs))
        defs = [sd_]
    return _def_expr(crate, body, defs[0], env, depth)


def _def_expr(crate, body, d, env, depth):
    b, i, kind, payload = d
    if kind == 'yield':
        return ('unknown', 'resume')
    if kind == 'call':
        return call_expr(crate, body, payload, env, depth - 1)
    rv = payload['rv']
    k = rv['k']
    if k in ('use', 'cast'):
        return expr(crate, body, rv['op'], env, depth)
    if k in ('ref', 'rawptr'):
        return place_expr(crate, body, rv['place'], env, depth)
    if k == 'bin':
        op = rv['op']
        if op.endswith('WithOverflow'):
            op = op[:-len('WithOverflow')]
        return ('bin', op, expr(crate, body, rv['a'], env, depth - 1), expr(crate, body, rv['b'], env, depth - 1))
    if k == 'un':
        return ('un', rv['op'], expr(crate, body, rv['a'], env, depth - 1))
    if k == 'aggr':
        if rv.get('kind') == 'adt' and rv.get('adt', '').endswith('option::Option'):
            if rv.get('variant') == 'Some':
                return ('some', expr(crate, body, rv['ops'][0], env, depth - 1))
            return ('none',)
        if rv.get('kind') == 'tuple':
            return ('tuple',) + tuple(expr(crate, body, o, env, depth - 1) for o in rv['ops'])
        if rv.get('kind') == 'closure':
            return ('closure', rv.get('def'), tuple(expr(crate, body, o, env, depth - 1) for o in rv['ops']))
        if rv.get('kind') == 'adt':
            return ('adt', rv.get('adt'), rv.get('variant'), tuple(expr(crate, body, o, env, depth - 1) for o in rv['ops']))
    if k == 'discr':
        return ('discr', place_expr(crate, body, rv['place'], env, depth - 1))
    if k == 'len':
        return ('len', place_expr(crate, body, rv['place'], env, depth - 1))
    return ('unknown', rv.get('s', k))


def _upvar_name(body, k):
    for b, i, st in body.iter_assigns():
        rv = st['rv']
        if rv['k'] == 'use' and place_is_local(st['place']):
            q = op_place(rv['op'])
            if q and q['l'] == 1 and q.get('p') and len(q['p']) == 1 and isinstance(q['p'][0], dict) and q['p'][0].get('f') == k:
                nm = body.local_name(st['place']['l'])
                if nm:
                    return nm
    return 'upvar%d' % k


def _apply_proj(base, names):
    cur = base
    for n in names:
        if n[0] == 'f':
            if cur[0] in ('arg', 'field') and n[2] and not str(n[2]).startswith('upvars'):
                prev = cur[1] if cur[0] == 'field' else ()
                cur = ('field', tuple(prev) + (n[1],)) if cur[0] == 'field' else ('field', (n[1],))
            elif cur[0] == 'tuple' and n[1].isdigit() and int(n[1]) + 1 < len(cur):
                cur = cur[int(n[1]) + 1]
            elif cur[0] == 'adt' and len(n) > 3 and isinstance(n[3], int) and cur[2] in (None, '', str(cur[1]).rsplit('::', 1)[-1]) and n[3] < len(cur[3]):
                cur = cur[3][n[3]]          # field of a struct literal built in this body
            elif cur[0] == 'payload' and n[1] == '0':
                cur = cur   # (x as Variant).0 : keep payload
            else:
                cur = ('tuplefield', n[1], cur)
        elif n[0] == 'dc':
            if cur[0] == 'some' and n[1] == 'Some':
                cur = ('payload0', cur[1])
            elif cur[0] == 'call' and cur[1] == 'next' and n[1] == 'Some':
                it = cur[2][0] if cur[2] else None
                rng = _range_of(it)
                cur = ('payload', 'Some', ('rangevar', rng[0], rng[1])) if rng else ('payload', n[1], cur)
            else:
                cur = ('payload', n[1], cur)
        elif n[0] == 'idx':
            cur = ('index', cur, n[1])
        else:
            cur = ('proj', n, cur)
    # unwrap helper forms
    return _simplify(cur)


def _simplify(e):
    if e[0] == 'tuplefield' and e[1] == '0' and e[2][0] == 'payload0':
        return e[2][1]
    if e[0] == 'tuplefield' and e[1] == '0' and e[2][0] == 'payload' and e[2][2][0] == 'rangevar':
        return e[2][2]
    if e[0] == 'tuplefield' and e[1] == '0' and e[2][0] == 'payload':
        return ('payload', e[2][1], e[2][2])
    return e


def _range_of(it):
    """iterator expression -> (lo, hi) when it is into_iter(Range{lo,hi}) (possibly through &mut / copies)"""
    seen = 0
    while it is not None and seen < 6:
        seen += 1
        if it[0] == 'adt' and str(it[1]).endswith('ops::Range') and len(it[3]) == 2:
            return it[3]
        if it[0] == 'call' and it[1] in ('into_iter',) and it[2]:
            it = it[2][0]
            continue
        if it[0] == 'phi':
            return None
        return None
    return None


def closure_body(crate, path):
    return crate.by_path.get(path)


def apply_closure(crate, clo, arg_exprs, depth):
    """clo = ('closure', def, upvars) ; returns ('lam', body_expr) with parameters bound to ('var', i)"""
    if clo[0] == 'fn':
        return ('fnitem', clo[1])
    if clo[0] != 'closure':
        return ('unknown', 'not-a-closure')
    cb = closure_body(crate, clo[1])
    if cb is None:
        return ('unknown', 'closure-body-missing')
    env = {('upvars',): clo[2]}
    for i in range(2, cb.arg_count + 1):
        env[('argmap', i)] = arg_exprs[i - 2] if i - 2 < len(arg_exprs) else ('var', cb.local_name(i) or 'x%d' % i)
    return place_expr(crate, cb, {'l': 0, 'p': None}, env, depth)


def call_expr(crate, body, t, env, depth):
    c = t['callee']
    name = c.get('name') or ''
    d = c.get('def') or ''
    args = [expr(crate, body, a, env, depth) for a in t['args']]
    if d.startswith('std::option::Option') or 'option::Option' in (c.get('impl_self') or ''):
        if name == 'map' and len(args) == 2:
            return ('map', args[0], ('lam', apply_closure(crate, args[1], [('var', 'x')], depth)))
        if name == 'map_or' and len(args) == 3:
            return ('map_or', args[0], args[1], ('lam', apply_closure(crate, args[2], [('var', 'x')], depth)))
        if name == 'unwrap_or' and len(args) == 2:
            return ('unwrap_or', args[0], args[1])
        if name == 'unwrap_or_default':
            return ('unwrap_or', args[0], ('const', 0))
    if name == 'len' and args:
        return ('len', args[0])
    if name in ('deref', 'deref_mut', 'as_mut', 'as_ref', 'borrow', 'borrow_mut', 'clone', 'into', 'from') and len(args) == 1:
        return args[0]
    return ('call', name, tuple(args), d)


def show(e, maxlen=300):
    def go(x):
        if not isinstance(x, tuple):
            return str(x)
        if not x:
            return '()'
        k = x[0]
        if k == 'const':
            return str(x[1])
        if k == 'bin':
            sym = {'Add': '+', 'Sub': '-', 'Mul': '*', 'Rem': '%', 'Div': '/', 'Eq': '==', 'Lt': '<', 'Le': '<=', 'Gt': '>', 'Ge': '>=', 'Ne': '!='}.get(x[1], x[1])
            return '(%s %s %s)' % (go(x[2]), sym, go(x[3]))
        if k == 'field':
            return 'self.' + '.'.join(x[1])
        if k in ('arg', 'var'):
            return str(x[1])
        if k == 'rangevar':
            return 'i∈%s..%s' % (go(x[1]), go(x[2]))
        if k == 'len':
            return 'len(%s)' % go(x[1])
        if k == 'lam':
            return 'λx.' + go(x[1])
        if k == 'call':
            return '%s(%s)' % (x[1], ', '.join(go(a) for a in x[2]))
        if k == 'phi':
            return 'φ(%s)' % x[1]
        return '%s(%s)' % (k, ', '.join(go(a) for a in x[1:]))
    s = go(e)
    return s if len(s) <= maxlen else s[:maxlen] + '…'
