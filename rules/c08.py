"""C08 - server answers each call once, in order, on its own connection; oneway gets none."""
import mir
from mir import op_place, op_str
import common as C
import srv

WC = 'write_connection::WriteConnection'

META = {
    'level': 'other',
    'explanation': (
        'Guard-dominance, must-pass-through and index-provenance rules over the MIR of Server::run / handle_call: '
        '(R08.1) every reply/error send of the call handler is dominated by the "not oneway" edge of a test of '
        'Call::oneway() of the call being handled; (R08.2) from the completion of Service::handle, the Single and Error '
        'arms pass through exactly one send and the Multi arm through none; (R08.3) the writer handed to the handler is '
        'connections[i].write_mut() with i the index returned together with the call by the select; (R08.4) the handler is '
        'awaited in the loop body (sequential handling per decode order, no spawn/join); (R08.5) every decoded call reaches '
        'the handler and Service::handle lies on every path of the handler; (R08.6) every reply operation used by the '
        'handler flushes (enqueue followed by the transport write on all paths) - a reply is never left queued; (R08.7) the receive '
        'path is cancel-safe (same rule code as C07) because the select loop drops pending receive futures on every iteration. '
        'Not decided: equality with a sequential reference for all interleavings of several connections.'),
    'assumptions': ['moves make "at most once" a type fact (a Call value cannot be handled twice)',
                    'send_reply/send_error framing is C02'],
}


def is_flushing_send(crate, t, depth=3):
    """callee is a WriteConnection/Connection async method that enqueues AND reaches the transport write"""
    d = t['callee'].get('def')
    co = crate.by_path.get((d or '') + '::{closure#0}')
    if co is None:
        return None

    def reach(b, pred, k, seen):
        if b.path in seen:
            return False
        seen.add(b.path)
        for _, tt in b.iter_terms('call'):
            if pred(tt):
                return True
            cd = tt['callee'].get('def')
            for cand in (cd, (cd or '') + '::{closure#0}'):
                cb = crate.by_path.get(cand) if cand else None
                if cb is not None and k > 0 and reach(cb, pred, k - 1, seen):
                    return True
        return False
    enq = reach(co, lambda tt: 'json_ser::to_slice' in (tt['callee'].get('def') or ''), depth + 1, set())
    wr = reach(co, lambda tt: 'socket::WriteHalf' in (tt['callee'].get('trait') or '') and tt['callee'].get('name') == 'write', depth + 1, set())
    return enq, wr


def check_cfg(fx, rep, crate, cfg):
    S = srv.Srv(crate)
    for e in S.errors:
        rep.bad('R08.0', 'anchor|%s|%s' % (e, cfg), '-', e)
    hc = S.handle_call
    if hc is None:
        rep.bad('R08.1', 'anchor|%s' % cfg, '-', 'no Server method awaiting Service::handle found: anchor lost')
        return
    fk = hc.path
    # reply operations in the handler: calls with a WriteConnection receiver that serialise something
    sends, enq_only = [], []
    for b, t in hc.iter_terms('call'):
        d = t['callee'].get('def') or ''
        if not (WC in d or 'connection::Connection' in d):
            continue
        fl = is_flushing_send(crate, t)
        cb = crate.by_path.get(d)
        direct_enq = cb is not None and any('json_ser::to_slice' in (tt['callee'].get('def') or '') or tt['callee'].get('name') == 'enqueue'
                                              for _, tt in cb.iter_terms('call'))
        if fl and fl[0]:
            sends.append((b, t))
            if not fl[1]:
                enq_only.append((b, t))
        elif direct_enq:
            sends.append((b, t))
            enq_only.append((b, t))
    handle_calls = C.calls_to(hc, trait='service::Service', name='handle')
    hb = handle_calls[0][0]
    # R08.1 oneway guard
    ow = [(b, t) for b, t in hc.iter_terms('call') if t['callee'].get('name') == 'oneway' and 'call::Call' in (t['callee'].get('def') or '')]
    guard = None
    for sw in range(hc.n):
        if hc.is_cleanup(sw) or hc.term(sw)['k'] != 'switch':
            continue
        info = hc.switch_info(sw)
        if not info or info.get('kind') not in ('bool',):
            continue
        src = info['src']
        if src.get('kind') == 'call' and src['callee'].get('name') == 'oneway':
            guard = (sw, info)
        elif src.get('kind') == 'local':
            # named local assigned once from the call
            pass
    if guard is None:
        # the flag may be read into a named local first: trace the switch operand through the local's single def
        for sw in range(hc.n):
            if hc.is_cleanup(sw) or hc.term(sw)['k'] != 'switch' or hc.term(sw).get('op_ty') != 'bool':
                continue
            q = op_place(hc.term(sw)['op'])
            if not q:
                continue
            locs, events = hc.slice_back([q['l']])
            if any(ev[0] == 'call' and ev[2]['callee'].get('name') == 'oneway' for ev in events) and \
                    not any(ev[0] == 'call' and ev[2]['callee'].get('name') not in ('oneway',) for ev in events):
                guard = (sw, hc.switch_info(sw))
    for b, t in sends:
        ok = False
        if guard:
            sw, info = guard
            ok = hc.dominates(sw, b) and b not in hc.reachable(info['true']) or \
                (hc.dominates(sw, b) and b in hc.reachable(info['false']) and b not in hc.reachable(info['true'], avoid={sw}))
        rep.check(ok, 'R08.1', '%s|send|%s|%s' % (fk, t['callee'].get('name'), cfg), C.where(hc, b),
                  'send is reachable only on the not-oneway edge of a Call::oneway() test',
                  'the handler sends a reply/error without testing Call::oneway(): a oneway call gets an answer')
    rep.floor('R08.1', 2, 'reply/error send sites in the call handler')
    # the oneway flag must be read from the call that is handed to the service
    if ow:
        hq = op_place(handle_calls[0][1]['args'][1])
        same = False
        if hq:
            l1, _ = hc.slice_back([hq['l']])
            oq = op_place(ow[0][1]['args'][0])
            if oq:
                l2, _ = hc.slice_back([oq['l']])
                same = bool((l1 & l2) - {0})
        rep.check(same, 'R08.1', '%s|flag-of-this-call|%s' % (fk, cfg), C.where(hc, ow[0][0]),
                  'the oneway flag is read from the call that is handed to Service::handle',
                  'the oneway flag tested is not that of the call handed to the service')
    # R08.2 arm mapping
    # switch on discriminant of the handle() result
    ready = None
    arms = None
    adt = [a for p, a in crate.adts.items() if p.endswith('service::MethodReply')]
    names = {i: v['name'] for i, v in enumerate(adt[0]['variants'])} if adt else {}
    for sw in range(hc.n):
        if hc.is_cleanup(sw) or hc.term(sw)['k'] != 'switch':
            continue
        info = hc.switch_info(sw)
        if info and info.get('kind') == 'discr' and (info['place'].get('ty') or '').startswith('server::service::MethodReply') and hb in hc.dom().get(sw, ()):
            arms = (sw, info)
            break
    if not arms or not names:
        rep.bad('R08.2', '%s|reply-match|%s' % (fk, cfg), hc.where(), 'no match on the MethodReply returned by Service::handle found')
    else:
        sw, info = arms
        rets = set(hc.returns())
        send_blocks = {b for b, t in sends}
        arm_map = dict(info['arms'])
        missing = [v for v in names if v not in arm_map]
        if len(missing) == 1 and hc.term(info['otherwise'])['k'] != 'unreachable':
            arm_map[missing[0]] = info['otherwise']
        for val, tgt in sorted(arm_map.items()):
            name = names.get(val, str(val))
            # paths from tgt to return, restricted to the not-oneway edge if the guard follows the discriminant switch
            start = tgt
            avoid = set()
            if guard and guard[0] in hc.reachable(tgt) and not hc.dominates(guard[0], sw):
                avoid = {guard[1]['true']} if guard[1]['true'] != guard[1]['false'] else set()
            region = hc.reachable(start, avoid=avoid)
            # arm-specific region: blocks that read the variant's payload identify the arm; simpler: count sends on
            # paths tgt -> return that are not shared with other arms
            others = set()
            for v2, t2 in info['arms'].items():
                if v2 != val:
                    others |= {t2}
            region_wo = hc.reachable(start, avoid=avoid | send_blocks)
            reaches_ret_without_send = bool(region_wo & rets)
            s_in = [b for b in send_blocks if b in region]
            # two sends on one path?
            double = any(b2 in hc.reach_from_succ(b1) for b1 in s_in for b2 in s_in)
            if name == 'Multi':
                # the Multi arm must not be able to reach a send before returning: sends reachable only through other arms' code
                payload_blocks = [b for b, i, s in hc.iter_assigns() if s['rv']['k'] == 'use' and op_place(s['rv']['op']) and
                                  any(isinstance(e, dict) and e.get('dc') == 'Multi' for e in (op_place(s['rv']['op']).get('p') or []))]
                bad = [b for pb in payload_blocks for b in send_blocks if b in hc.reachable(pb)]
                rep.check(not bad and bool(payload_blocks), 'R08.2', '%s|arm-Multi|%s' % (fk, cfg), C.where(hc, tgt),
                          'Multi arm reaches no send', 'the Multi (streaming) arm sends a reply itself')
            else:
                payload_blocks = [b for b, i, s in hc.iter_assigns() if s['rv']['k'] == 'use' and op_place(s['rv']['op']) and
                                  any(isinstance(e, dict) and e.get('dc') == name for e in (op_place(s['rv']['op']).get('p') or []))]
                ok = bool(payload_blocks)
                detail = {}
                for pb in payload_blocks:
                    r = hc.reachable(pb)
                    s_arm = [b for b in send_blocks if b in r]
                    wo = hc.reachable(pb, avoid=send_blocks)
                    twice = any(b2 in hc.reach_from_succ(b1) for b1 in s_arm for b2 in s_arm)
                    detail = {'sends_reachable': len(s_arm), 'return_without_send': bool(wo & rets), 'two_sends_on_a_path': twice}
                    if not s_arm or (wo & rets) or twice:
                        ok = False
                rep.check(ok, 'R08.2', '%s|arm-%s|%s' % (fk, name, cfg), C.where(hc, tgt),
                          '%s arm passes through exactly one send on every path to return' % name,
                          'the %s arm of the handler does not pass through exactly one send on every path' % name, detail)
        rep.floor('R08.2', 3, 'MethodReply arms')
    # R08.5 (handler side): Service::handle on every path
    rep.check(hc.postdominates(hb, 0), 'R08.5', '%s|handle-on-every-path|%s' % (fk, cfg), C.where(hc, hb),
              'Service::handle post-dominates the entry of the handler', 'there is a path through the handler that never calls Service::handle')
    # R08.2b a single reply is final: continues is Some(false) or unset
    for b, t in hc.iter_terms('call'):
        if t['callee'].get('name') == 'set_continues' and 'reply::Reply' in (t['callee'].get('def') or ''):
            tr = hc.trace(t['args'][1])
            val = None
            if tr.get('kind') == 'aggr' and tr['rv'].get('adt', '').endswith('option::Option'):
                val = (tr['rv'].get('variant'), tr['rv']['ops'][0].get('val') if tr['rv'].get('ops') and tr['rv']['ops'][0].get('k') == 'const' else '?')
            rep.check(val in (('Some', False), ('None', '?')), 'R08.2', '%s|single-reply-is-final|%s' % (fk, cfg), C.where(hc, b),
                      'the reply to a plain call is marked continues=%s' % (val,),
                      'the single reply of the handler is marked continues=%s: the client is told that more replies follow' % (val,))
    # R08.6 every reply operation flushes
    for b, t in enq_only:
        fl = [bb for bb, tt in hc.iter_terms('call') if tt['callee'].get('name') == 'flush']
        rets = set(hc.returns())
        ok = bool(fl) and not (hc.reachable(b, avoid=set(fl)) - {b}) & rets
        rep.check(ok, 'R08.6', '%s|flush-after|%s|%s' % (fk, t['callee'].get('name'), cfg), C.where(hc, b),
                  'an enqueue-only reply operation is followed by flush on every path to return',
                  'the handler queues a reply with %s and can return without flushing it: the client may wait forever' % t['callee'].get('name'))
    rep.ok('R08.6', '%s|all-sends-flush|%s' % (fk, cfg), hc.where(),
           '%d of %d reply operations of the handler flush by themselves' % (len(sends) - len(enq_only), len(sends)), nontrivial=bool(sends))

    # ---- run loop
    run = S.run
    if run is None or S.errors:
        return
    k, arm = S.arm_of_kind('calls')
    if arm is None:
        rep.bad('R08.3', 'anchor|%s' % cfg, run.where(), 'select arm fed by get_next_call not found')
        return
    hcalls = [(b, t) for b, t in run.iter_terms('call') if t['callee'].get('def') == S.handle_call_fn]
    idx = S.index_locals(k)
    items = S.item_locals(k)
    for b, t in hcalls:
        # R08.3 writer = connections[idx].write_mut()
        tr = run.trace(t['args'][2])
        ok = False
        detail = {'writer': op_str(t['args'][2])}
        if tr.get('kind') == 'call' and tr['callee'].get('name') == 'write_mut':
            tr2 = run.trace(tr['args'][0])
            if tr2.get('kind') == 'call' and tr2['callee'].get('name') in ('index_mut', 'get_mut', 'get_unchecked_mut'):
                v = S.vec_of_operand(run, tr2['args'][0])
                iq = op_place(tr2['args'][1])
                ok = v == S.conn_vec and bool(iq) and iq['l'] in idx
                detail.update({'vec_is_connection_list': v == S.conn_vec, 'index_is_select_index': bool(iq) and iq['l'] in idx})
        rep.check(ok, 'R08.3', '%s|writer-of-calling-connection|%s' % (run.path, cfg), C.where(run, b),
                  'the handler writes to connections[i].write_mut() with i the index returned with the call',
                  'the writer handed to the call handler is not the write half of the connection the call came from', detail)
        # the call handed over is the select item
        cq = op_place(t['args'][1])
        rep.check(bool(cq) and cq['l'] in items, 'R08.5', '%s|call-is-select-item|%s' % (run.path, cfg), C.where(run, b),
                  'the call handed to the handler is the one returned by the select',
                  'the call handed to the handler is not the one returned by the select')
        # R08.4 awaited in place
        awaited = any(tt['callee'].get('name') == 'into_future' and tt.get('ds') == 'Await' and op_place(tt['args'][0]) and
                      op_place(tt['args'][0])['l'] == t['dest']['l'] for _, tt in run.iter_terms('call'))
        rep.check(awaited, 'R08.4', '%s|handler-awaited-in-loop|%s' % (run.path, cfg), C.where(run, b),
                  'the handler future is awaited in the loop body (calls of a connection are handled in decode order)',
                  'the handler future is not awaited in place (spawned / stored): calls may be answered out of order')
    rep.floor('R08.3', 1, 'handle_call call sites in Server::run')
    # R08.5 every Ok(call) reaches the handler
    ok_arm = None
    for sw in range(run.n):
        if run.is_cleanup(sw) or run.term(sw)['k'] != 'switch':
            continue
        info = run.switch_info(sw)
        if info and info.get('kind') == 'discr' and info['place']['l'] in items and not info['place'].get('p'):
            ok_arm = (sw, info['arms'].get(0))
    if ok_arm and hcalls and S.loop_head is not None:
        sw, tgt = ok_arm
        hb2 = {b for b, t in hcalls}
        r = run.reachable(tgt, avoid=hb2)
        escapes = S.loop_head in r or bool(set(run.returns()) & r)
        rep.check(not escapes, 'R08.5', '%s|ok-call-reaches-handler|%s' % (run.path, cfg), C.where(run, sw),
                  'every path from the Ok(call) arm passes through the handler before the next iteration',
                  'a successfully decoded call can be dropped without being handled')
    else:
        rep.bad('R08.5', '%s|ok-call-reaches-handler|%s' % (run.path, cfg), run.where(), 'match on the decoded call result not found')
    # no spawn/join in the server module
    bad = []
    for body in crate.bodies:
        if body.in_test or not body.path.startswith('server::'):
            continue
        for b, t in body.iter_terms('call'):
            n = t['callee'].get('name') or ''
            d = t['callee'].get('def') or ''
            if n in ('spawn', 'spawn_local', 'join_all', 'try_join_all') or 'FuturesUnordered' in d or 'JoinSet' in d:
                bad.append(C.where(body, b))
    rep.check(not bad, 'R08.4', 'server|no-concurrent-handling|%s' % cfg, 'zlink-core/src/server', 'no spawn / join / FuturesUnordered on the call path',
              'the server module spawns or joins handler futures: per-connection order is no longer implied', {'sites': bad})


def check(fx, rep, tier):
    rep.rule('R08.1', 'every reply/error send in the call handler is dominated by the not-oneway edge of a Call::oneway() test on the handled call')
    rep.rule('R08.2', 'Single and Error arms of the handler pass through exactly one send on every path; Multi through none')
    rep.rule('R08.3', 'the writer given to the handler is connections[i].write_mut(), i = index returned with the call by the select')
    rep.rule('R08.4', 'the handler future is awaited in the loop body; no spawn/join in the server module')
    rep.rule('R08.5', 'every decoded call reaches the handler; Service::handle is on every path of the handler; the handled call is the select item')
    rep.rule('R08.6', 'reply operations used by the handler flush: nothing stays queued when the handler returns')
    rep.rule('R08.8', 'the select over the connections hands out the output of the first ready future with its own index and polls nothing after it (R18.2 of C18): a completed receive is never dropped')
    rep.rule('R08.7', 'the receive path is cancel-safe (R07.1-R07.3): the select loop drops every pending receive future each time another branch '
                      'wins, so a call arriving in several reads is still decoded whole and handled exactly once')
    for cfg in ['full'] + (['ws'] if tier == 'thorough' else []):
        check_cfg(fx, rep, fx.crate('zlink_core', cfg), cfg)
    import imports
    imports.cancel_safety(fx, rep, 'R08.7', 'the server loop drops pending receive futures whenever another connection, an accept or a stream item wins the select')
    imports.rules_of(fx, rep, 'C18', {'R18.2'}, 'R08.8', 'a future that completed in the select has consumed its call from the connection buffer: unless it is handed out at once the call is never answered')
    import imports as _imp
    _imp.layer(fx, rep, 'C08')
    return META
