"""Shared anchors of the server loop (Server::run, handle_call, get_next_call, SelectAll)."""
import re
import mir
from mir import op_place, op_str, place_fields
import common as C


def _proj_names(pr):
    """projection elements as path names; the tuple field `.0` that holds the payload of a Result / Option / ControlFlow variant is not a step of its
    own (`(r as Ok).0` is "the Ok payload", just as the Continue payload of `Try::branch(r)`)"""
    out = []
    prev_dc = False
    for e in pr:
        if isinstance(e, dict) and 'dc' in e:
            out.append(e.get('dc'))
            prev_dc = e.get('dc') in ('Ok', 'Err', 'Some', 'Continue', 'Break', 'Ready')
            continue
        if isinstance(e, dict) and 'f' in e:
            if prev_dc and e.get('f') == 0:
                prev_dc = False
                continue
            out.append(e.get('name'))
        else:
            out.append('*')
        prev_dc = False
    return tuple(out)


class Srv:
    def __init__(self, crate):
        self.crate = crate
        self.errors = []
        run_fn = [b for b in C.methods(crate, 'server::Server') if b.name == 'run']
        self.run = C.async_body(crate, run_fn[0]) if run_fn else None
        hc = []
        for b in C.methods(crate, 'server::Server'):
            co = C.async_body(crate, b)
            if any('service::Service' in (t['callee'].get('trait') or '') and t['callee'].get('name') == 'handle'
                   for _, t in co.iter_terms('call')):
                hc.append(co)
        self.handle_call = hc[0] if hc else None
        self.handle_call_fn = self.handle_call.path.rsplit('::{closure#0}', 1)[0] if self.handle_call else None
        gn = []
        cands = [C.async_body(crate, b) for b in C.methods(crate, 'server::Server')]
        # ... or a free async function of the server modules (the method never used `self`)
        cands += [b for b in crate.bodies if b.is_coroutine and not b.in_test and b.path.startswith('server::') and b.path.endswith('::{closure#0}') and b not in cands]
        for co in cands:
            if co is not self.run and any('SelectAll' in (t['callee'].get('def') or '') for _, t in co.iter_terms('call')) and \
                    any(t['callee'].get('name') == 'receive_call' for cb in C.nested(crate, co) + [co] for _, t in cb.iter_terms('call')):
                gn.append(co)
        self.get_next_call = gn[0] if gn else None
        self.get_next_call_fn = self.get_next_call.path.rsplit('::{closure#0}', 1)[0] if self.get_next_call else None
        if self.run is None:
            self.errors.append('Server::run not found')
            return
        # private async helpers awaited by the loop / the handler (other than the anchors themselves) are analysed in place
        import inline
        ex = {x for x in (self.handle_call_fn, self.get_next_call_fn) if x}
        ex |= {x + '::{closure#0}' for x in ex}
        try:
            self.run = inline.expand_async(crate, self.run, exclude=ex)
            if self.handle_call is not None:
                self.handle_call = inline.expand_async(crate, self.handle_call, exclude=ex)
        except Exception as e:      # fail closed: the rules report what they cannot find
            self.errors.append('async helper expansion failed: %s' % e)
        self._analyse_run()

    # ------------------------------------------------------------------
    def _analyse_run(self):
        run = self.run
        # vector locals
        self.conn_vec = self.stream_vec = None
        for l in run.locals:
            ty = l.get('ty', '')
            if l.get('name') and 'Vec<' in ty and l.get('user') and not l.get('from') and not ty.startswith('&'):
                if ty.startswith('std::vec::Vec<connection::Connection<') or ty.startswith('alloc::vec::Vec<connection::Connection<'):
                    self.conn_vec = l['i']
                elif re.search(r'Vec<server::(\w+::)*\w*Stream\w*<', ty):
                    self.stream_vec = l['i']
        if self.conn_vec is None or self.stream_vec is None:
            self.errors.append('connection list / reply-stream list locals not found in Server::run')
        # select arms: local named `_k` = fuse(call X)
        self.arms = {}      # k -> {'future_local', 'kind', 'call_block', 'target'}
        sel = None
        for l in run.locals:
            if l.get('name') == '__select_result':
                sel = l['i']
        self.sel_local = sel
        for l in run.locals:
            n = l.get('name') or ''
            if len(n) >= 2 and n[0] == '_' and n[1:].isdigit():
                sd = run.single_def(l['i'])
                if sd and sd[2] == 'call' and sd[3]['callee'].get('name') == 'fuse':
                    tr = run.trace(sd[3]['args'][0])
                    kind, cb = 'unknown', None
                    if tr.get('kind') == 'call':
                        cn = tr['callee'].get('name')
                        cd = tr['callee'].get('def') or ''
                        cb = tr['block']
                        if cn == 'accept':
                            kind = 'accept'
                        elif cd == self.get_next_call_fn:
                            kind = 'calls'
                        elif 'select_all::SelectAll' in cd:
                            kind = 'streams'
                        else:
                            kind = cn or 'unknown'
                    elif tr.get('kind') in ('local', 'call') or True:
                        # moved SelectAll local
                        q = op_place(sd[3]['args'][0])
                        if q and 'select_all::SelectAll' in run.local_ty(q['l']):
                            kind = 'streams'
                        t2 = run.trace(sd[3]['args'][0])
                        if t2.get('kind') == 'call' and 'SelectAll' in (t2['callee'].get('def') or ''):
                            kind = 'streams'
                    self.arms[int(n[1:])] = {'future_local': l['i'], 'kind': kind, 'call_block': cb, 'fuse_block': sd[0]}
        # dispatch switch on the select result
        self.dispatch = None
        if sel is not None:
            for sw in range(run.n):
                if run.is_cleanup(sw) or run.term(sw)['k'] != 'switch':
                    continue
                info = run.switch_info(sw)
                if info and info.get('kind') == 'discr' and info['place']['l'] == sel and not info['place'].get('p'):
                    self.dispatch = (sw, info)
        if self.dispatch:
            for k, tgt in self.dispatch[1]['arms'].items():
                if k in self.arms:
                    self.arms[k]['target'] = tgt
        else:
            self.errors.append('select dispatch over the three futures not found in Server::run')
        # loop head: header of the outermost loop containing the dispatch
        self.loop_heads = sorted({h for a, h in run.back_edges()})
        self.loop_head = None
        if self.dispatch:
            cands = [h for a, h in run.back_edges() if self.dispatch[0] in run.loop_body(h, a)]
            if cands:
                self.loop_head = min(cands, key=lambda h: len(run.dom()[h]))

    def arm_of_kind(self, kind):
        for k, a in self.arms.items():
            if a['kind'] == kind:
                return k, a
        return None, None

    def payload_locals(self, k):
        """locals assigned from `(__select_result as _k).0` and copies / tuple fields of them, with the
        projection path relative to the payload: returns dict local -> tuple(path)"""
        run = self.run
        out = {}
        name = '_%d' % k
        changed = True
        while changed:
            changed = False
            for b, i, s in run.iter_assigns():
                if not mir.place_is_local(s['place']):
                    continue
                rv = s['rv']
                if rv['k'] != 'use':
                    continue
                q = op_place(rv['op'])
                if not q:
                    continue
                dst = s['place']['l']
                path = None
                pr = q.get('p') or []
                if q['l'] == self.sel_local and pr and isinstance(pr[0], dict) and pr[0].get('dc') == name:
                    rest = pr[1:]
                    # first .0 is the variant payload
                    if rest and isinstance(rest[0], dict) and rest[0].get('f') == 0:
                        path = tuple(e.get('name') if isinstance(e, dict) and 'f' in e else '?' for e in rest[1:])
                elif q['l'] in out:
                    path = out[q['l']] + _proj_names(pr)
                if path is not None and out.get(dst) != path and dst not in out:
                    out[dst] = path
                    changed = True
        # through `?`: Try::branch(payload) -> (_x as Continue).0
        for b, t in run.iter_terms('call'):
            if t['callee'].get('name') == 'branch':
                q = op_place(t['args'][0])
                if q and not q.get('p') and q['l'] in out:
                    base = out[q['l']]
                    d = t['dest']['l']
                    for b2, i2, s2 in run.iter_assigns():
                        rv = s2['rv']
                        if rv['k'] == 'use' and mir.place_is_local(s2['place']):
                            q2 = op_place(rv['op'])
                            if q2 and q2['l'] == d and q2.get('p') and any(isinstance(e, dict) and e.get('dc') == 'Continue' for e in q2['p']):
                                out.setdefault(s2['place']['l'], base + ('Ok',))
        # second pass to propagate from the `?` results
        changed = True
        while changed:
            changed = False
            for b, i, s in run.iter_assigns():
                if not mir.place_is_local(s['place']) or s['rv']['k'] != 'use':
                    continue
                q = op_place(s['rv']['op'])
                if q and q['l'] in out and s['place']['l'] not in out:
                    pr = q.get('p') or []
                    out[s['place']['l']] = out[q['l']] + _proj_names(pr)
                    changed = True
        return out

    def index_locals(self, k):
        """locals holding the index component (.0 of the (idx, item) tuple) of arm k's result"""
        pl = self.payload_locals(k)
        out = set()
        for l, path in pl.items():
            p = [x for x in path if x not in ('Ok',)]
            if p == ['0']:
                out.add(l)
        return out

    def item_locals(self, k):
        pl = self.payload_locals(k)
        out = set()
        for l, path in pl.items():
            p = [x for x in path if x not in ('Ok',)]
            if p and p[0] == '1':
                out.add(l)
        return out

    def vec_of_operand(self, body, op):
        """which vector local (conn_vec / stream_vec) a `&mut vec` / `&vec` operand refers to"""
        q = op_place(op)
        if not q:
            return None
        seen = set()
        cur = q
        for _ in range(12):
            if cur.get('p') and cur['p'] != ['*']:
                return None
            l = cur['l']
            if l in (self.conn_vec, self.stream_vec):
                return l
            if l in seen:
                return None
            seen.add(l)
            sd = body.single_def(l)
            if not sd:
                return None
            if sd[2] == 'assign':
                rv = sd[3]['rv']
                if rv['k'] in ('ref', 'rawptr'):
                    cur = rv['place']
                    if cur['l'] in (self.conn_vec, self.stream_vec) and not cur.get('p'):
                        return cur['l']
                    continue
                if rv['k'] in ('use', 'cast'):
                    nq = op_place(rv['op'])
                    if not nq:
                        return None
                    cur = nq
                    continue
                return None
            if sd[2] == 'call' and sd[3]['callee'].get('name') in ('deref_mut', 'deref', 'as_mut_slice', 'as_slice', 'as_mut'):
                nq = op_place(sd[3]['args'][0])
                if not nq:
                    return None
                cur = nq
                continue
            return None
        return None
