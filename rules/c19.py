"""C19 - end to end over real Unix sockets (tokio / smol) nothing is lost or corrupted (R19.1 - R19.6)."""
import re
import mir
from mir import op_place, op_str, place_is_local
import common as C
import corostate as CS
import sym

META = {
    'level': 'other',
    'explanation': (
        'Who-may-write, dataflow and coroutine-state rules over the MIR of zlink-core, zlink-tokio and zlink-smol: (R19.1) '
        'connection ids: the id counter static is touched by exactly one atomic fetch_add(1), inside Connection::new, whose result '
        'initialises both halves\' id fields, and no id field is stored to afterwards; (R19.2) both WriteHalf::write impls are '
        'write-until-done loops: every call that hands bytes of `buf` to the underlying stream starts at buf[progress..], the count '
        'it returns flows into the progress value every later write starts from (no accepted byte is written twice or skipped), '
        'and Ok is returned only behind a comparison of the progress/count with buf.len(); (R19.3) no progress lives only in the '
        'write future: a user local that is advanced after a suspension and saved across another is lost when the send is '
        'abandoned, while the connection still holds the whole flush buffer (the prefix is sent again); (R19.4) a listener built '
        'from an inherited descriptor calls set_nonblocking(true), checked, before registering it with the reactor, in both crates; '
        '(R19.5) the outbound framing rules of C02 and (R19.6) the inbound framing rules of C01 hold (same rule code) - what the two '
        'ends exchange over the socket. Not decided: anything the kernel or the runtimes do (delivery, ordering on the wire).'),
    'assumptions': ['tokio AsyncWriteExt::write / futures-lite AsyncWriteExt::write return the number of bytes accepted, at most the slice length',
                    'kernel stream sockets deliver bytes in order'],
}

CORE_KRATES = ('core', 'alloc', 'std')


def buf_derived(body, op, buf_locals, depth=10):
    """does the operand point into the `buf` parameter? returns the start-offset operand (or 'whole')"""
    q = op_place(op)
    for _ in range(depth):
        if not q:
            return None
        if q['l'] in buf_locals:
            return 'whole'
        sd = body.single_def(q['l'])
        if not sd:
            return None
        if sd[2] == 'assign':
            rv = sd[3]['rv']
            if rv['k'] in ('ref', 'rawptr'):
                q = {'l': rv['place']['l'], 'p': None}
                continue
            if rv['k'] in ('use', 'cast'):
                q = op_place(rv['op'])
                continue
            return None
        if sd[2] == 'call':
            t = sd[3]
            nm = t['callee'].get('name')
            if nm in ('index', 'get', 'get_unchecked') and len(t['args']) == 2:
                inner = buf_derived(body, t['args'][0], buf_locals, depth - 1)
                if inner is None:
                    return None
                rng = body.trace(t['args'][1])
                if rng.get('kind') == 'aggr' and 'RangeFrom' in rng['rv'].get('adt', ''):
                    return rng['rv']['ops'][0]
                if rng.get('kind') == 'aggr' and 'Range' in rng['rv'].get('adt', ''):
                    return rng['rv']['ops'][0]
                return 'unknown-range'
            if nm in ('split_at', 'deref', 'as_ref', 'borrow'):
                q = op_place(t['args'][0])
                continue
            return None
        return None
    return None


def check_write_impl(fx, rep, crate, co, label):
    fk = co.path
    # locals holding the buf parameter: upvar copies of type &[u8]
    buf_locals = set()
    for l in co.locals:
        if (l.get('ty') or '').replace(' ', '') in ("&[u8]", "&'_[u8]") or (l.get('ty') or '').endswith('[u8]') and (l.get('ty') or '').startswith('&') and 'mut' not in l.get('ty'):
            sd = co.single_def(l['i'])
            if sd and sd[2] == 'assign' and sd[3]['rv']['k'] == 'use':
                q = op_place(sd[3]['rv']['op'])
                if q and q['l'] == 1:
                    buf_locals.add(l['i'])
    if not buf_locals:
        rep.bad('R19.2', '%s|anchor-buf|%s' % (fk, label), co.where(), 'the `buf` parameter of WriteHalf::write was not found in its coroutine')
        return
    writes = []
    for b, t in co.iter_terms('call'):
        c = t['callee']
        if c.get('krate') in CORE_KRATES or c.get('name') in ('into_future', 'poll', 'new_unchecked', 'get_context', 'branch', 'from_residual', 'from', 'into'):
            continue
        for a in t['args']:
            st = buf_derived(co, a, buf_locals)
            if st is not None:
                writes.append((b, t, st))
                break
    rep.check(bool(writes), 'R19.2', '%s|write-calls|%s' % (fk, label), co.where(),
              '%d call(s) hand bytes of `buf` to the underlying stream: %s' % (len(writes), [t['callee'].get('name') for _, t, _ in writes]),
              'no call handing `buf` to the underlying stream found')
    if not writes:
        return

    def count_locals(t):
        """locals that (may) hold the byte count returned by write call t: everything data-dependent on its dest"""
        out = {t['dest']['l']}
        changed = True
        while changed:
            changed = False
            for b, i, s in co.iter_assigns():
                if s['place']['l'] in out:
                    continue
                if any(q['l'] in out for q in mir.rv_places_read(s['rv'])):
                    out.add(s['place']['l'])
                    changed = True
            for b, tt in co.iter_terms('call'):
                if tt['dest']['l'] in out:
                    continue
                if tt['callee'].get('name') in ('into_future', 'poll', 'branch', 'new_unchecked', 'map_err', 'unwrap_or', 'from', 'into') and \
                        any(op_place(a) and op_place(a)['l'] in out for a in tt['args']):
                    out.add(tt['dest']['l'])
                    changed = True
        return out

    for n_, (b, t, st) in enumerate(writes):
        nm = t['callee'].get('name')
        later = [(b2, t2, st2) for (b2, t2, st2) in writes if b2 in co.reach_from_succ(b)]
        cl = count_locals(t)
        bad = []
        for b2, t2, st2 in later:
            if st2 in ('whole', 'unknown-range'):
                bad.append('%s at %s starts at the beginning of buf' % (t2['callee'].get('name'), C.where(co, b2)))
                continue
            q = op_place(st2)
            if not q:
                bad.append('%s at %s starts at a constant offset' % (t2['callee'].get('name'), C.where(co, b2)))
                continue
            locs, events = co.slice_back([q['l']])
            if not (locs & cl):
                bad.append('%s at %s starts at an offset that does not include the bytes accepted here' % (t2['callee'].get('name'), C.where(co, b2)))
        rep.check(not bad, 'R19.2', '%s|accepted-bytes-advance-every-later-write|%s|%d|%s' % (fk, nm, n_, label), C.where(co, b),
                  'the count returned by this write flows into the start offset of every write that can follow it (%d)' % len(later),
                  'bytes accepted by this write are written again (or skipped) by a later write: %s' % bad)
        # first write on a path from entry must start at 0 or at the progress variable initialised to 0: covered by the slice rule;
        # a `whole` write is only allowed when no other write can precede it
        if st == 'whole':
            prev = [(b0, t0) for (b0, t0, s0) in writes if b in co.reach_from_succ(b0)]
            rep.check(not prev, 'R19.2', '%s|whole-buffer-write-is-first|%s|%d|%s' % (fk, nm, n_, label), C.where(co, b),
                      'a write of the whole buffer is not preceded by another write', 'the whole buffer is written after bytes were already accepted by an earlier write')
    # Ok only behind a progress/len comparison
    oks = C.ok_exit_blocks(co)
    bad = []
    for ob in oks:
        fine = False
        for sw, tgt in co.control_deps_closure(ob):
            info = co.switch_info(sw)
            if info and info.get('kind') == 'cmp':
                for side in ('a', 'b'):
                    tr = info[side]
                    if tr.get('kind') == 'call' and tr['callee'].get('name') == 'len' and buf_derived(co, tr['args'][0], buf_locals) == 'whole':
                        fine = True
        if not fine:
            bad.append(C.where(co, ob))
    rep.check(bool(oks) and not bad, 'R19.2', '%s|ok-only-when-all-written|%s' % (fk, label), co.where(),
              'Ok is returned only behind a comparison with buf.len()', 'Ok can be returned without comparing the progress with buf.len(): %s' % bad)
    # R19.3
    prog = CS.progress_locals(co)
    rep.check(not prog, 'R19.3', '%s|write-progress-in-future|%s' % (fk, label), co.where(),
              'no write progress is kept in the future across suspensions (saved: %s)' % [s.get('name') for s in (co.saved or [])],
              'write progress %s lives only in the future (assigned after a suspension, saved across the next): when the send is abandoned after a partial '
              'write the connection still holds the whole flush buffer and the next flush sends the already transmitted prefix again' % [p['name'] for p in prog],
              {'progress_locals': prog})


def check(fx, rep, tier):
    rep.rule('R19.1', 'the id counter is touched only by one atomic fetch_add(1) in Connection::new; id fields are never assigned afterwards')
    rep.rule('R19.2', 'WriteHalf::write impls: every write starts at buf[progress..], accepted bytes advance every later write, Ok only when all is written')
    rep.rule('R19.3', 'no write progress is held only in the future of WriteHalf::write (cancel-safety of an abandoned send)')
    rep.rule('R19.4', 'inherited descriptors are made non-blocking (checked) before they are registered with the reactor')
    rep.rule('R19.9', 'a transport read is a single forwarded read of the caller\'s slice; the read half keeps no buffer, counter or readiness step of its own')
    rep.rule('R19.10', 'Listener::accept is cancel-safe: one await, the runtime\'s accept; nothing is awaited after a socket was accepted')
    rep.rule('R19.8', 'the transports never shut down the read direction of the socket the two halves share')
    rep.rule('R19.5', 'outbound framing (all rules of C02) holds')
    rep.rule('R19.6', 'inbound framing (all rules of C01) holds')
    core = fx.crate('zlink_core', 'full')
    # ---- R19.1
    # every reference to an atomic static of the connection module, in any operand position
    uses = []        # (body, block, call term using it as receiver)
    other_refs = []
    for body in core.bodies:
        if body.in_test:
            continue
        holders = {}
        for b, i, s in body.iter_assigns():
            for o in mir.rv_operands(s['rv']):
                if o.get('k') == 'const' and o.get('static') and 'atomic' in (o.get('ty') or '').lower() and 'connection' in o['static']:
                    holders[s['place']['l']] = o['static']
        if not holders:
            continue
        for b, t in body.iter_terms('call'):
            for a in t['args']:
                tr = body.trace(a)
                if tr.get('kind') == 'const' and tr['op'].get('static') in set(holders.values()):
                    uses.append((body, b, t))
                    break
    ok = len(uses) == 1
    det = {'uses': ['%s %s' % (t['callee'].get('name'), C.where(bd, b)) for bd, b, t in uses]}
    if ok:
        bd, b, t = uses[0]
        one = len(t['args']) >= 2 and t['args'][1].get('k') == 'const' and t['args'][1].get('val') == 1
        ok = t['callee'].get('name') == 'fetch_add' and one and bd.name == 'new' and 'connection::Connection' in (bd.impl_self or '')
    rep.check(ok, 'R19.1', 'connection|id-counter-single-fetch-add', 'zlink-core/src/connection/mod.rs',
              'the id counter is used exactly once: NEXT_ID.fetch_add(1) in Connection::new', 'the connection id counter is not used as a single fetch_add(1) in Connection::new', det)
    # width: identifiers are distinct only as long as the counter and the fields that carry them do not wrap within the life of a process
    # (a u8 / u16 counter repeats after 256 / 65 536 connections)
    stat_tys = set()
    for body in core.bodies:
        if body.in_test:
            continue
        for b, i, s in body.iter_assigns():
            for o in mir.rv_operands(s['rv']):
                if o.get('k') == 'const' and o.get('static') and 'atomic' in (o.get('ty') or '').lower() and 'connection' in o['static']:
                    stat_tys.add(re.sub(r'^[&*](mut |const )?', '', (o.get('ty') or '').strip()).split('::')[-1])
    narrow_at = sorted(t for t in stat_tys if re.search(r'Atomic[UI](8|16)\b|Atomic<[ui](8|16)>', t))
    rep.check(bool(stat_tys) and not narrow_at, 'R19.1', 'connection|id-counter-width', 'zlink-core/src/connection/mod.rs',
              'the id counter is an atomic of at least 32 bits (%s)' % ', '.join(sorted(stat_tys)),
              'the id counter has type %s: it wraps after 2^%s connections and identifiers repeat' % (', '.join(narrow_at) or sorted(stat_tys), '8' if any('8' in t for t in narrow_at) else '16'))
    narrow_f = []
    for p_, a in core.adts.items():
        if p_.endswith('ReadConnection') or p_.endswith('WriteConnection'):
            for v in a.get('variants') or []:
                for f in v.get('fields') or []:
                    if f.get('name') == 'id' and (f.get('ty') or '') in ('u8', 'u16', 'i8', 'i16'):
                        narrow_f.append('%s.id: %s' % (p_.split('::')[-1], f.get('ty')))
    rep.check(not narrow_f, 'R19.1', 'connection|id-field-width', 'zlink-core/src/connection',
              'the id fields of both halves are at least 32 bits wide', 'identifier field narrower than 32 bits (%s): distinct counter values collapse into the same identifier' % ', '.join(narrow_f))
    # id field stores
    bad = []
    n_id = 0
    for body in core.bodies:
        if body.in_test:
            continue
        for b, i, s in body.iter_assigns():
            lf = mir.place_last_field(s['place'])
            if lf and lf[1] == 'id' and lf[0] and ('ReadConnection' in lf[0] or 'WriteConnection' in lf[0]):
                last = (s['place'].get('p') or [None])[-1]
                if isinstance(last, dict) and 'f' in last:
                    n_id += 1
                    bad.append(C.where(body, b, i))
    rep.check(not bad, 'R19.1', 'connection|id-fields-never-reassigned', 'zlink-core/src/connection',
              'no store to an id field outside the constructors\' aggregates', 'a connection id field is assigned after construction: %s' % bad)
    # id flows from the fetch_add to both halves
    newb = [b for b in C.methods(core, 'connection::Connection', 'new')]
    ok = False
    if newb and uses:
        nb = newb[0]
        ft = uses[0][2]
        halves = [(b, t) for b, t in nb.iter_terms('call') if t['callee'].get('name') == 'new' and ('ReadConnection' in (t['callee'].get('def') or '') or 'WriteConnection' in (t['callee'].get('def') or ''))]
        ok = len(halves) == 2 and all(any(op_place(a) and ft['dest']['l'] in nb.slice_back([op_place(a)['l']])[0] for a in t['args']) for b, t in halves)
    rep.check(ok, 'R19.1', 'connection|fresh-id-initialises-both-halves', 'zlink-core/src/connection/mod.rs',
              'the value returned by fetch_add is handed to both halves\' constructors', 'the fresh id does not reach both halves of the connection')
    # ---- R19.2 / R19.3
    n_impl = 0
    for cn in ('zlink_tokio', 'zlink_smol'):
        crate = fx.crate(cn, 'full')
        for b in crate.bodies:
            if b.is_coroutine and not b.in_test and b.impl_trait and 'socket::WriteHalf' in b.impl_trait and '::write::' in b.path:
                n_impl += 1
                check_write_impl(fx, rep, crate, b, cn)
    if n_impl < 2:
        rep.bad('R19.2', 'anchor-impls', '-', 'expected WriteHalf::write impls in zlink-tokio and zlink-smol, found %d' % n_impl)
    # ---- R19.4
    n4 = 0
    for cn in ('zlink_tokio', 'zlink_smol'):
        crate = fx.crate(cn, 'full')
        for body in crate.bodies:
            if body.in_test or body.name != 'try_from' or body.kind != 'AssocFn' or not (body.impl_trait and 'TryFrom' in body.impl_trait and 'OwnedFd' in body.path):
                continue
            n4 += 1
            nbk = [(b, t) for b, t in body.iter_terms('call') if t['callee'].get('name') == 'set_nonblocking']
            reg = [(b, t) for b, t in body.iter_terms('call') if t['callee'].get('name') in ('from_std', 'new') and
                   ('UnixListener' in (t['callee'].get('def') or '') or 'Async' in (t['callee'].get('def') or '')) and 'std::os' not in (t['callee'].get('def') or '')]
            ok = bool(nbk) and bool(reg)
            det = {}
            if ok:
                b0, t0 = nbk[0]
                true_arg = len(t0['args']) >= 2 and t0['args'][1].get('k') == 'const' and t0['args'][1].get('val') is True
                edges = C.try_edges(body, b0)
                checked = any(all(body.dominates(cont, rb) for rb, _ in reg) for sw, cont, brk in edges)
                det = {'argument_true': true_arg, 'result_checked_and_dominates_registration': checked}
                ok = true_arg and checked
            rep.check(ok, 'R19.4', '%s|%s|nonblocking-before-registration' % (cn, body.path), body.where(),
                      'set_nonblocking(true) is called, its result checked, and it dominates the registration with the reactor',
                      'the inherited descriptor is registered with the reactor without a checked set_nonblocking(true) before it', det)
    if n4 < 2:
        rep.bad('R19.4', 'anchor', '-', 'expected TryFrom<OwnedFd> for Listener in both transport crates, found %d' % n4)
    # ---- R19.9 a transport read is one read of the runtime's stream into the caller's slice, its count handed back unchanged.  The framing layer above
    # owns all buffering, cursor state and cancel-safety (C01, C07, C17): a transport that loops, keeps bytes of its own, shortens the slice,
    # waits for readiness first or post-processes the count breaks those arguments from below (lost read-ahead bytes after a cancelled receive,
    # frames overtaken by newer socket data, an unbounded private buffer, a lost turn in the fair select)
    READ_OK = {'read', 'into_future', 'new_unchecked', 'new', 'get_context', 'poll', 'map_err', 'deref', 'deref_mut', 'as_mut', 'as_ref', 'get_mut', 'get_ref',
               'branch', 'from_residual', 'from', 'into', 'borrow', 'borrow_mut', 'len', 'is_empty'}
    n_rd = 0
    for cn in ('zlink_tokio', 'zlink_smol'):
        crate = fx.crate(cn, 'full')
        for b in crate.bodies:
            if not (b.is_coroutine and not b.in_test and b.impl_trait and 'socket::ReadHalf' in b.impl_trait and '::read::' in b.path):
                continue
            n_rd += 1
            calls = [(blk, t) for blk, t in b.iter_terms('call') if not t.get('mac')]
            other = sorted({t['callee'].get('name') or '?' for blk, t in calls if (t['callee'].get('name') or '?') not in READ_OK})
            reads = [(blk, t) for blk, t in calls if t['callee'].get('name') == 'read']
            whole = False
            if len(reads) == 1 and len(reads[0][1]['args']) >= 2:
                tr = b.trace(reads[0][1]['args'][1])
                # the caller's slice, as it came in: an upvar / argument of the coroutine, not the result of an index / split / min
                whole = tr.get('kind') in ('arg', 'place', 'local') and tr.get('kind') != 'call'
            rep.check(not other and len(reads) == 1 and whole, 'R19.9', '%s|%s|read-is-one-forwarded-read' % (cn, b.path), b.where(),
                      'ReadHalf::read is a single read of the stream into the caller\'s slice',
                      'the transport\'s ReadHalf::read is not a single forwarded read of the caller\'s slice (%s): the framing layer\'s cursor, bound and cancel-safety arguments assume that the '
                      'transport keeps no bytes or progress of its own and hands back exactly what one read of the socket delivered'
                      % ('; '.join(x for x in ['other calls: %s' % ', '.join(other) if other else '', '%d read calls' % len(reads) if len(reads) != 1 else '',
                                                'the slice handed to read is not the caller\'s slice as it came in' if (len(reads) == 1 and not whole) else ''] if x)))
        # the read half holds nothing but the stream handle
        for p_, a in crate.adts.items():
            if p_.endswith('stream::ReadHalf'):
                for v in a.get('variants') or []:
                    extra = [f for f in (v.get('fields') or []) if re.search(r'Vec<|\[u8|BytesMut|Box<\[|VecDeque|usize|u64|u32|Option<', f.get('ty') or '')]
                    rep.check(not extra, 'R19.9', '%s|%s|read-half-holds-only-the-stream' % (cn, p_), '%s:%s' % (a.get('file'), a.get('line')),
                              'the read half has no buffer or counter of its own',
                              'the transport read half keeps state of its own (%s): bytes or progress held there are invisible to the framing layer - they survive or die with the wrong object when a '
                              'receive is cancelled, and they are not covered by the buffer limit' % ', '.join('%s: %s' % (f.get('name'), f.get('ty')) for f in extra))
    if n_rd < 2:
        rep.bad('R19.9', 'anchor', '-', 'expected ReadHalf::read impls in zlink-tokio and zlink-smol, found %d' % n_rd)
    # ---- R19.10 Listener::accept is one accept of the runtime's listener: the server re-creates and drops the accept future on every turn of its loop, so
    # whatever is awaited *after* the kernel handed over a socket (a yield, a handshake, a lock) is a point where an accepted connection is dropped unseen
    ACCEPT_OK = {'accept', 'into_future', 'new_unchecked', 'new', 'get_context', 'poll', 'map', 'map_err', 'branch', 'from_residual', 'from', 'into', 'try_from', 'try_into',
                 'deref', 'deref_mut', 'as_mut', 'as_ref', 'into_split', 'split', 'clone'}
    n_acc = 0
    for cn in ('zlink_tokio', 'zlink_smol'):
        crate = fx.crate(cn, 'full')
        for b in crate.bodies:
            if not (b.is_coroutine and not b.in_test and b.impl_trait and b.impl_trait.endswith('Listener') and '::accept::' in b.path):
                continue
            n_acc += 1
            polls = [blk for blk, t in b.iter_terms('call') if t['callee'].get('name') == 'poll' and not t.get('mac')]
            other = sorted({t['callee'].get('name') or '?' for blk, t in b.iter_terms('call') if not t.get('mac') and (t['callee'].get('name') or '?') not in ACCEPT_OK
                            and not (t['callee'].get('def') or '').startswith(('unix::', 'zlink_core::connection::', 'connection::'))})
            rep.check(len(polls) == 1 and not [o for o in other if o in ('yield_now', 'sleep', 'lock', 'readable', 'writable', 'recv', 'send', 'tick')], 'R19.10',
                      '%s|%s|accept-is-one-await' % (cn, b.path), b.where(),
                      'Listener::accept awaits the runtime\'s accept and nothing else',
                      'Listener::accept has %d suspension points%s: the server drops the pending accept future whenever another branch of its select wins - a connection the kernel already handed '
                      'over is closed unseen if the future is dropped at a later await' % (len(polls), (' and calls ' + ', '.join(other)) if other else ''))
    if n_acc < 2:
        rep.bad('R19.10', 'anchor', '-', 'expected Listener::accept impls in zlink-tokio and zlink-smol, found %d' % n_acc)
    # ---- R19.8 the two halves share one descriptor: nothing in a transport crate may shut down the *read* direction of the socket
    # (shutdown(Write) on drop of the write half would be a legitimate half-close; Read / Both cuts off the peer's later messages)
    n_sd = 0
    for cn in ('zlink_tokio', 'zlink_smol'):
        crate = fx.crate(cn, 'full')
        for body in crate.bodies:
            if body.in_test:
                continue
            for b, t in body.iter_terms('call'):
                if t['callee'].get('name') != 'shutdown' or len(t['args']) < 2:
                    continue
                tr = body.trace(t['args'][1])
                how = tr['rv'].get('variant') if tr.get('kind') == 'aggr' and 'Shutdown' in (tr['rv'].get('adt') or '') else None
                if 'Shutdown' not in (t['args'][1].get('place', {}).get('ty') or t['args'][1].get('ty') or ''):
                    continue
                n_sd += 1
                rep.check(how == 'Write', 'R19.8', '%s|%s|shutdown-%s' % (cn, body.path, how), C.where(body, b),
                          'a shutdown issued by the transport closes the write direction only',
                          'the transport shuts down the %s direction of the socket that the read half shares (%s): once this runs - here when `%s` executes - '
                          'the peer\'s later messages are lost (its send fails, the local receive reports end-of-stream)'
                          % ('read and write' if how == 'Both' else (how or 'unknown'), t['callee'].get('def'), body.path))
    rep.ok('R19.8', 'transport|shutdown-sites-enumerated', 'zlink-tokio/src, zlink-smol/src',
           'every call of a socket shutdown in the transport crates was examined (%d site%s)' % (n_sd, '' if n_sd == 1 else 's'), nontrivial=False)
    # ---- R19.5 / R19.6 imports
    import engine, c02, c01
    for rid, mod, pid in (('R19.5', c02, 'C02'), ('R19.6', c01, 'C01')):
        sub = engine.Report(pid, 'quick')
        mod.check(fx, sub, 'quick')
        n = 0
        for i in sub.insts:
            n += 1
            (rep.ok if i.ok else rep.bad)(rid, i.rule + '|' + i.key, i.where, i.msg, i.detail)
        for rule, (fl, what) in sub.floors.items():
            if sub.count(rule) < fl:
                rep.bad(rid, 'floor|' + rule, '-', 'anchor lost in imported rule %s: expected %d %s' % (rule, fl, what))
        if not n:
            rep.bad(rid, 'anchor', '-', 'no instances of the imported %s rules' % pid)
    import imports as _imp
    _imp.layer(fx, rep, 'C19')
    return META
