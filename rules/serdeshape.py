"""Serde container/field attributes of a struct/enum item as extracted by zl-tpl (syn), interpreted by serde's
documented semantics.  Only what the rules need."""
import re


def _serde_attrs(attrs):
    out = {}
    for a in attrs or []:
        a = a.strip()
        m = re.match(r'serde\s*\((.*)\)\s*$', a, re.S)
        if not m:
            continue
        body = m.group(1)
        # split at top-level commas
        parts, depth, cur, instr = [], 0, '', False
        for ch in body:
            if ch == '"':
                instr = not instr
            if not instr and ch in '([{':
                depth += 1
            if not instr and ch in ')]}':
                depth -= 1
            if ch == ',' and depth == 0 and not instr:
                parts.append(cur)
                cur = ''
            else:
                cur += ch
        if cur.strip():
            parts.append(cur)
        for p in parts:
            p = p.strip()
            if '=' in p:
                k, v = p.split('=', 1)
                out[k.strip()] = v.strip().strip('"')
            else:
                out[p] = True
    return out


def container(item):
    return _serde_attrs(item.get('attrs'))


def derives(item):
    out = set()
    for a in item.get('attrs') or []:
        m = re.match(r'derive\s*\((.*)\)', a.strip(), re.S)
        if m:
            out |= {x.strip().split('::')[-1].strip() for x in m.group(1).split(',') if x.strip()}
    return out


def field(f):
    a = _serde_attrs(f.get('attrs'))
    ty = re.sub(r'\s+', '', f.get('ty') or '')
    return {'name': f.get('name'), 'wire': a.get('rename', f.get('name')), 'ty': ty, 'optional': ty.startswith('Option<') or ty.startswith('::core::option::Option<')
            or ty.startswith('core::option::Option<') or ty.startswith('std::option::Option<'),
            'default': 'default' in a, 'skip_if': a.get('skip_serializing_if'), 'borrow': 'borrow' in a, 'flatten': 'flatten' in a, 'attrs': a}


def norm_ty(t):
    return re.sub(r'\s+', '', t or '')
