"""Producing and loading the facts: runs the rustc driver (zl-drv) over /repo's *current working
tree* with cargo, runs the syntax extractor (zl-tpl), caches by content hash of the tree."""
import os, sys, json, hashlib, subprocess, fcntl, shutil, time, glob

VERIF = os.path.dirname(os.path.dirname(os.path.abspath(__file__)))
REPO = os.environ.get('ZL_REPO', '/repo')
CACHE = os.path.join(VERIF, '.cache')
DRV = os.path.join(VERIF, 'drv', 'target', 'release', 'zl-drv')
TPL = os.path.join(VERIF, 'tpl', 'target', 'release', 'zl-tpl')

sys.path.insert(0, os.path.dirname(os.path.abspath(__file__)))
import mir  # noqa: E402


class CheckError(Exception):
    pass


CONFIGS = {
    # superset of features: everything the property anchors live in is compiled
    'full': ['--workspace', '--all-targets', '--features',
             'zlink/introspection,zlink/idl-parse,zlink/smol,zlink-core/introspection,zlink-core/idl-parse'],
    # what `cargo test --workspace` builds (default features, workspace unification)
    'ws': ['--workspace', '--all-targets'],
    # the no-std build the README promises
    'nostd': ['-p', 'zlink-core', '--no-default-features', '--features', 'idl-parse,proxy,tracing'],
}
EXPECTED = {
    'full': ['zlink_core', 'zlink_macros', 'zlink_codegen', 'zlink_tokio', 'zlink_smol', 'test_integration'],
    'ws': ['zlink_core', 'zlink_macros', 'zlink_codegen', 'zlink_tokio', 'zlink_smol', 'test_integration'],
    'nostd': ['zlink_core'],
}
MEMBERS = ['zlink', 'zlink-core', 'zlink-codegen', 'zlink-tokio', 'zlink-smol', 'zlink-macros',
           'test-integration', 'zlink_core', 'zlink_macros', 'zlink_codegen', 'zlink_tokio', 'zlink_smol']


def _file_hash(path):
    h = hashlib.sha256()
    with open(path, 'rb') as f:
        h.update(f.read())
    return h.hexdigest()


def repo_hash(repo=None):
    repo = repo or REPO
    h = hashlib.sha256()
    n = 0
    for root, dirs, files in os.walk(repo):
        dirs[:] = sorted(d for d in dirs if d not in ('target', '.git'))
        for f in sorted(files):
            if not (f.endswith(('.rs', '.toml', '.lock', '.idl', '.md'))):
                continue
            p = os.path.join(root, f)
            rel = os.path.relpath(p, repo)
            h.update(rel.encode())
            h.update(b'\0')
            with open(p, 'rb') as fh:
                h.update(fh.read())
            h.update(b'\0')
            n += 1
    # the MIR facts depend on the tree and on the driver; the syntax facts (tpl-*.json inside the same directory) are keyed by the
    # extractor's own hash, so that a change of zl-tpl re-runs only zl-tpl.  `.cache/key_salt` (untracked, optional) keeps a local cache
    # filled under the former keying (tree + driver + extractor) usable.
    if os.path.exists(DRV):
        h.update(_file_hash(DRV).encode())
    salt = os.path.join(CACHE, 'key_salt')
    if os.path.exists(salt):
        h.update(open(salt).read().strip().encode())
    return h.hexdigest()[:20], n


def tpl_file(base):
    th = _file_hash(TPL) if os.path.exists(TPL) else 'none'
    salt = os.path.join(CACHE, 'key_salt')
    if os.path.exists(salt) and open(salt).read().strip() == th:
        return os.path.join(base, 'tpl.json')
    return os.path.join(base, 'tpl-%s.json' % th[:12])


def nightly_sysroot():
    return subprocess.check_output(['rustc', '+nightly', '--print', 'sysroot'], text=True).strip()


def _run_driver(repo, cfg, outdir, log):
    target = os.environ.get('ZL_TARGET') or os.path.join(CACHE, 'target')
    os.makedirs(target, exist_ok=True)
    fp = os.path.join(target, 'debug', '.fingerprint')
    if os.path.isdir(fp):
        # cargo must not replay a cached run without calling the wrapper
        for d in os.listdir(fp):
            if any(d.startswith(m + '-') for m in MEMBERS):
                shutil.rmtree(os.path.join(fp, d), ignore_errors=True)
    env = dict(os.environ)
    env.update({
        'LD_LIBRARY_PATH': os.path.join(nightly_sysroot(), 'lib') + ':' + env.get('LD_LIBRARY_PATH', ''),
        'RUSTFLAGS': '-Zmir-opt-level=0 -Awarnings',
        'RUSTC_WORKSPACE_WRAPPER': DRV,
        'ZL_FACTS_DIR': outdir,
        'CARGO_TARGET_DIR': target,
        'CARGO_NET_OFFLINE': 'true',
        'CARGO_INCREMENTAL': '0',
    })
    env.pop('RUSTC_WRAPPER', None)
    cmd = ['cargo', '+nightly', 'check', '--offline'] + CONFIGS[cfg]
    t0 = time.time()
    p = subprocess.run(cmd, cwd=repo, env=env, stdout=subprocess.PIPE, stderr=subprocess.STDOUT, text=True)
    with open(log, 'a') as f:
        f.write('$ %s  (cwd=%s)\n%s\n[exit %d, %.1fs]\n' % (' '.join(cmd), repo, p.stdout, p.returncode, time.time() - t0))
    if p.returncode != 0:
        tail = '\n'.join(p.stdout.splitlines()[-25:])
        raise CheckError('cargo check (%s) failed on the current tree:\n%s' % (cfg, tail))


def _prune(keep=700):
    base = os.path.join(CACHE, 'facts')
    if not os.path.isdir(base):
        return
    ds = sorted((os.path.getmtime(os.path.join(base, d)), d) for d in os.listdir(base))
    for _, d in ds[:-keep]:
        shutil.rmtree(os.path.join(base, d), ignore_errors=True)


def ensure(cfgs=('full',), repo=None):
    """Make sure facts for the current tree exist; returns the facts directory."""
    repo = repo or REPO
    for tool in (DRV, TPL):
        if not os.path.exists(tool):
            raise CheckError('%s is not built: run ./setup.sh' % tool)
    os.makedirs(CACHE, exist_ok=True)
    hsh, nfiles = repo_hash(repo)
    base = os.path.join(CACHE, 'facts', hsh)
    lockname = 'lock' + ('-' + hashlib.sha1(os.environ['ZL_TARGET'].encode()).hexdigest()[:8] if os.environ.get('ZL_TARGET') else '')
    with open(os.path.join(CACHE, lockname), 'w') as lk:
        fcntl.flock(lk, fcntl.LOCK_EX)
        os.makedirs(base, exist_ok=True)
        # processes with different build directories (ZL_TARGET) hold different locks above; two of them may still be asked for the
        # same tree (identical variants in tools/regress.py), so the facts directory itself is locked too (always in this order)
        hl = open(os.path.join(base, '.lock'), 'w')
        fcntl.flock(hl, fcntl.LOCK_EX)
        log = os.path.join(base, 'build.log')
        for cfg in cfgs:
            d = os.path.join(base, cfg)
            if os.path.exists(os.path.join(d, 'DONE')):
                continue
            shutil.rmtree(d, ignore_errors=True)
            os.makedirs(d)
            _run_driver(repo, cfg, d, log)
            present = set()
            for f in os.listdir(d):
                if f.endswith('.json') and '-t-' not in f:
                    present.add(f.rsplit('-', 1)[0])
            missing = [c for c in EXPECTED[cfg] if c not in present]
            if missing:
                raise CheckError('driver produced no facts for %s (config %s) -- see %s' % (missing, cfg, log))
            open(os.path.join(d, 'DONE'), 'w').write(str(time.time()))
        tplf = tpl_file(base)
        if not os.path.exists(tplf):
            tmp = tplf + '.tmp'
            p = subprocess.run([TPL, repo, tmp, 'zlink-macros/src', 'zlink-codegen/src', 'zlink-core/src',
                                'zlink-tokio/src', 'zlink-smol/src', 'zlink/src'],
                               stdout=subprocess.PIPE, stderr=subprocess.STDOUT, text=True)
            if p.returncode != 0:
                raise CheckError('zl-tpl failed: ' + p.stdout[-2000:])
            os.rename(tmp, tplf)
        os.utime(base, None)
        _prune()
    return base, hsh, nfiles


class Facts:
    def __init__(self, base, hsh, nfiles, repo):
        self.base = base
        self.hash = hsh
        self.nfiles = nfiles
        self.repo = repo
        self._crates = {}
        self._tpl = None
        self.loaded = []

    def crates(self, name, cfg='full', include_test=False):
        """all distinct (by feature set) non-test compilations of crate `name` in config cfg"""
        key = (name, cfg)
        if key not in self._crates:
            out, seen = [], set()
            d = os.path.join(self.base, cfg)
            for f in sorted(glob.glob(os.path.join(d, name + '-*.json'))):
                bn = os.path.basename(f)
                if bn.rsplit('-', 1)[0] not in (name, name + '-t'):
                    continue
                if '-t-' in bn and not include_test:
                    continue
                with open(f) as fh:
                    doc = json.load(fh)
                sig = (doc['crate'], doc.get('src'), tuple(sorted(doc.get('features', []))), doc.get('test'), doc.get('crate_type'))
                if sig in seen:
                    continue
                seen.add(sig)
                self._add_str_consts(doc)
                out.append(mir.Crate(doc, f))
                self.loaded.append('%s/%s' % (cfg, bn))
            self._crates[key] = out
        return self._crates[key]

    def _add_str_consts(self, doc):
        """the driver evaluates integer / byte constants only; `const ERROR_MEMBER: &str = "error"` (module level or local to a fn) is taken from the
        syntax facts: a named string constant whose name is unique in the crate's sources becomes an evaluated constant of the crate"""
        srcdir = os.path.dirname(doc.get('src') or '')
        if not srcdir:
            return
        found = {}

        def visit(n):
            if isinstance(n, list):
                for x in n:
                    visit(x)
            elif isinstance(n, dict):
                if n.get('k') == 'const' and isinstance(n.get('expr'), dict) and n['expr'].get('k') == 'str' and 'str' in (n.get('ty') or ''):
                    found.setdefault(n.get('name'), []).append(n['expr'].get('value'))
                for v in n.values():
                    if isinstance(v, (list, dict)):
                        visit(v)
        try:
            for fn, f in self.tpl.files.items():
                if fn.startswith(srcdir + '/'):
                    visit(f.get('items'))
        except Exception:
            return
        have = {c['path'] for c in doc.get('consts', [])}
        names = {nm: vs[0] for nm, vs in found.items() if len(vs) == 1 and isinstance(vs[0], str)}
        if not names:
            return

        def visit2(o):
            if isinstance(o, dict):
                if o.get('k') == 'const' and o.get('def') and 'str' not in o and 'val' not in o and (o.get('ty') or '').replace("'static ", '') in ('&str',):
                    nm = o['def'].split('::')[-1]
                    if nm in names:
                        o['str'] = names[nm]
                        o['named'] = o['def']
                for v in o.values():
                    visit2(v)
            elif isinstance(o, list):
                for v in o:
                    visit2(v)
        import re as _re
        pat = _re.compile(r'const (?:[\w<>{}#\' ]+::)*(%s)\b' % '|'.join(_re.escape(n) for n in names))
        for b in doc.get('bodies', []):
            visit2(b.get('blocks'))
            if b.get('promoted'):
                b['promoted'] = [[pat.sub(lambda m: 'const "%s"' % names[m.group(1)], ln) for ln in pr] for pr in b['promoted']]

    def crate(self, name, cfg='full'):
        """the compilation of `name` with the largest feature set (lib/proc-macro preferred)"""
        cs = self.crates(name, cfg)
        if not cs:
            raise CheckError('no facts for crate %s in config %s' % (name, cfg))
        libs = [c for c in cs if c.crate_type in ('lib', 'proc-macro', 'rlib')] or cs
        return max(libs, key=lambda c: (len(c.features), len(c.bodies)))

    @property
    def tpl(self):
        if self._tpl is None:
            with open(tpl_file(self.base)) as f:
                self._tpl = Tpl(json.load(f))
        return self._tpl


def _inline_quote_vars(item, file_fns=None):
    """`let part = quote! { .. }; quote! { .. #part .. }` is the template with the part spliced in.  For every fn: quote! fragments bound
    once to a plain local are substituted (textually, recursively) into the templates that interpolate them, so that the template rules
    see the same token text whether a maintainer wrote the template in one piece or assembled it from named pieces."""
    import re as _re

    def walk(n, fn_stack):
        if isinstance(n, list):
            for x in n:
                walk(x, fn_stack)
            return
        if not isinstance(n, dict):
            return
        if n.get('k') == 'fn' and 'body' in n:
            process_fn(n)
        for v in n.values():
            if isinstance(v, (dict, list)):
                walk(v, fn_stack)

    def nodes(n):
        if isinstance(n, dict):
            yield n
            for v in n.values():
                if isinstance(v, (dict, list)):
                    for x in nodes(v):
                        yield x
        elif isinstance(n, list):
            for x in n:
                for y in nodes(x):
                    yield y

    def process_fn(fn):
        binds, count = {}, {}
        for n in nodes(fn['body']):
            if n.get('k') == 'fn' and n is not fn:
                continue
            if n.get('k') == 'let':
                pat = (n.get('pat') or '').replace('mut ', '').strip()
                if _re.fullmatch(r'[A-Za-z_]\w*', pat or ''):
                    count[pat] = count.get(pat, 0) + 1
                    init = n.get('init') or {}
                    if init.get('k') == 'macro' and init.get('name') in ('quote', 'quote_spanned') and init.get('tokens') is not None:
                        binds[pat] = init
            elif n.get('k') == 'assign':
                lhs = n.get('l') or {}
                if lhs.get('k') == 'path':
                    count[lhs.get('text')] = count.get(lhs.get('text'), 0) + 2
        # `let call = call_statement(crate_path, Some(quote! { .set_more(true) }));` where the helper of the same file is nothing but one
        # template over its parameters: the binding is that template with the arguments put in place of the parameters
        for n in nodes(fn['body']):
            if n.get('k') == 'let':
                pat = (n.get('pat') or '').replace('mut ', '').strip()
                init = n.get('init') or {}
                if _re.fullmatch(r'[A-Za-z_]\w*', pat or '') and init.get('k') == 'call' and isinstance(init.get('func'), str) and pat not in binds:
                    h = (file_fns or {}).get(init['func'].split('::')[-1].strip())
                    if h is None or h is fn or len(h.get('body') or []) != 1:
                        continue
                    hm = h['body'][0]
                    hm = hm.get('expr') if isinstance(hm, dict) and hm.get('k') == 'expr' else hm
                    if not isinstance(hm, dict) or hm.get('k') != 'macro' or hm.get('name') != 'quote' or hm.get('tokens') is None:
                        continue
                    params = [_re.sub(r'^(mut\s+)?', '', (q.split(':')[0]).strip()) for q in h.get('params') or []]
                    args = init.get('args') or []
                    if len(params) != len(args):
                        continue
                    toks = hm.get('tokens_written') or hm['tokens']
                    sub = {}
                    for q, a in zip(params, args):
                        a0 = a
                        while isinstance(a0, dict) and a0.get('k') in ('ref', 'paren') and isinstance(a0.get('expr'), dict):
                            a0 = a0['expr']
                        if isinstance(a0, dict) and a0.get('k') == 'call' and a0.get('func') == 'Some' and len(a0.get('args') or []) == 1:
                            a0 = a0['args'][0]
                        if isinstance(a0, dict) and a0.get('k') == 'macro' and a0.get('name') == 'quote' and a0.get('tokens') is not None:
                            sub[q] = ' ' + a0['tokens'] + ' '
                        elif isinstance(a0, dict) and a0.get('k') == 'path' and (a0.get('text') or '').strip() == 'None':
                            sub[q] = ' '
                        elif isinstance(a0, dict) and a0.get('k') == 'path' and _re.fullmatch(r'[A-Za-z_]\w*', (a0.get('text') or '').strip()):
                            sub[q] = '# ' + a0['text'].strip()
                        elif isinstance(a0, dict) and a0.get('k') == 'mcall' and a0.get('method') == 'clone' and (a0.get('recv') or {}).get('k') == 'path':
                            sub[q] = '# ' + a0['recv']['text'].strip()
                    toks2 = _re.sub(r'#\s*([A-Za-z_]\w*)\b(?!\s*\()', lambda m: sub.get(m.group(1), m.group(0)), toks)
                    binds[pat] = {'k': 'macro', 'name': 'quote', 'tokens': toks2, 'line': n.get('line'), 'from_helper': h.get('name')}
        binds = {k: v for k, v in binds.items() if count.get(k) == 1}
        if not binds:
            return

        def expand(tokens, depth, seen):
            if depth > 4:
                return tokens
            def rep(m):
                name = m.group(1)
                if name in binds and name not in seen:
                    binds[name]['spliced'] = True       # a fragment: judged as part of the templates it goes into
                    inner = binds[name].get('tokens_written') or binds[name]['tokens']
                    if binds[name].get('name') == 'quote_spanned' and '=>' in inner:
                        inner = inner.split('=>', 1)[1]
                    return ' ' + expand(inner, depth + 1, seen | {name}) + ' '
                return m.group(0)
            # `# name` not followed by `(`-repetition syntax and not part of `#(`
            return _re.sub(r'#\s*([A-Za-z_]\w*)\b(?!\s*\()', rep, tokens)
        for n in nodes(fn['body']):
            if n.get('k') == 'macro' and n.get('name') in ('quote', 'quote_spanned', 'parse_quote') and n.get('tokens') is not None:
                new = expand(n['tokens'], 0, frozenset())
                if new != n['tokens']:
                    n['tokens_written'] = n['tokens']
                    n['tokens'] = new
                    n['vars'] = sorted(set(_re.findall(r'#\s*([A-Za-z_]\w*)', new)))
    walk(item, [])


class Tpl:
    """syntax-tree facts (zl-tpl)"""

    def __init__(self, doc):
        self.doc = doc
        self.files = {f['file']: f for f in doc['files']}
        if doc.get('errors'):
            raise CheckError('zl-tpl could not parse: %s' % doc['errors'][:3])
        if not os.environ.get('ZL_NO_QUOTE_INLINE'):
            for fname, f in self.files.items():
                if 'zlink-macros/' in fname or 'zlink-codegen/' in fname:
                    file_fns = {}
                    for it in f['items']:
                        if it.get('k') == 'fn':
                            file_fns.setdefault(it['name'], it)
                    for it in f['items']:
                        _inline_quote_vars(it, file_fns)

    def items(self, file_sub=None, kind=None):
        for fn, f in self.files.items():
            if file_sub and file_sub not in fn:
                continue
            for it in f['items']:
                if kind and it.get('k') != kind:
                    continue
                yield fn, it

    def fns(self, file_sub=None, name=None, include_tests=False):
        for fn, it in self.items(file_sub, 'fn'):
            if name and it['name'] != name:
                continue
            if not include_tests and (it.get('test') or it.get('impl_test') or '::tests' in ('::' + it.get('mod', ''))
                                      or it.get('mod', '') == 'tests' or fn.endswith('/tests.rs')):
                continue
            yield fn, it

    def fn(self, file_sub, name, self_ty=None):
        r = [(f, it) for f, it in self.fns(file_sub, name) if self_ty is None or (it.get('self_ty') or '').startswith(self_ty)]
        if len(r) != 1:
            raise KeyError('tpl: %d fns match %s::%s' % (len(r), file_sub, name))
        return r[0]


def walk(node, fn, path=()):
    """pre-order walk over a zl-tpl expression tree; fn(node, path) where path is the tuple of ancestors"""
    if isinstance(node, list):
        for x in node:
            walk(x, fn, path)
        return
    if not isinstance(node, dict):
        return
    fn(node, path)
    p2 = path + (node,)
    for k, v in node.items():
        if k in ('k', 'line', 'text', 'tokens', 'cond', 'scrut', 'iter', 'pat', 'name', 'path', 'method', 'func',
                 'fmt', 'args', 'vars', 'sig', 'attrs', 'params', 'member', 'op', 'dst', 'lits', 'guard', 'docs'):
            if k != 'args' or not (isinstance(v, list) and v and isinstance(v[0], dict)):
                continue
        if isinstance(v, (dict, list)):
            if k == 'arms':
                for arm in v:
                    walk(arm.get('body'), fn, p2 + ({'k': 'arm', 'pat': arm.get('pat'), 'guard': arm.get('guard'),
                                                       'lits': arm.get('lits'), 'line': arm.get('line')},))
            elif k == 'fields' and node.get('k') == 'struct':
                for fv in v:
                    walk(fv.get('value'), fn, p2 + ({'k': 'fieldinit', 'name': fv.get('name')},))
            elif k == 'items':
                for it in v:
                    if it.get('k') == 'fn':
                        walk(it.get('body'), fn, p2 + ({'k': 'nested_fn', 'name': it.get('name')},))
            else:
                walk(v, fn, p2)


def load(cfgs=('full',), repo=None):
    repo = repo or REPO
    base, hsh, nfiles = ensure(cfgs, repo)
    return Facts(base, hsh, nfiles, repo)
