"""C02 - outbound framing (R02.1 - R02.7)."""
import mir
from mir import op_place, op_str, place_fields, place_is_local
import common as C

WC = 'write_connection::WriteConnection'

META = {
    'level': 'proof',
    'explanation': (
        'Path rules over the MIR of WriteConnection / Chain (all feature configs): (R02.1) on every entry->Ok path of the '
        'enqueue function exactly one terminator NUL is stored, at buffer[pos+len] with len the Ok payload of the serializer '
        'call, followed by exactly one pos += len+1; no other store goes into the buffer; (R02.2) no store to the fill '
        'position and no terminator store lies on a path to an Err return; (R02.3) the serializer always gets '
        '&mut buffer[pos..], pos is not assigned inside the retry loop and the loop repeats only on BufferTooSmall; '
        '(R02.4) flush writes &buffer[..pos] once, resets pos only after the write succeeded, writes nothing when pos==0; '
        '(R02.5) chain construction enqueues without flushing, send flushes once, send_* are enqueue-then-flush; '
        '(R02.6) every reset of the fill position (directly or through a helper) happens only after a successful transport '
        'write, the buffer field is never replaced/truncated, all other pos stores are the advance of R02.1; '
        '(R02.7) room for the terminator: the (pos+len == buffer.len()) test with growth on the full edge precedes the '
        'terminator store. Together these are the framing argument (one document, one NUL, in order, nothing else, one '
        'write per flush, failure contributes nothing) modulo the serializer producing one JSON document (C03). '
        'Not decided: byte-exact output for every size/offset as an observed fact.'),
    'assumptions': ['the serializer writes only inside the slice it is given and returns the number of bytes written (C03 E6)',
                    'the transport honours write(&[u8])'],
    'trusted_base': ['rustc MIR construction', 'json_ser::to_slice postcondition len <= slice.len() (checked as who-may-write in C03)'],
}


def find_enqueue(crate):
    """anchor: WriteConnection functions that call the serializer with a slice of the buffer"""
    out = []
    for body in C.impl_bodies(crate, WC):
        for b, t in body.iter_terms('call'):
            n = mir.callee_name(t)
            if 'json_ser::to_slice' in n or ('serde_json' in n and 'to_' in n):
                out.append((body, b, t))
    return out


def check_crate(fx, rep, crate, cfg):
    ser = find_enqueue(crate)
    if not ser:
        rep.bad('R02.1', 'anchor|%s' % cfg, '-', 'no serializer call found in WriteConnection: anchor lost')
        return
    pos_field = buf_field = None
    enq_paths = set()
    for body, sb, st in ser:
        fk = body.path
        enq_paths.add(fk)
        # --- R02.3: argument is &mut buffer[pos..]
        tr = body.trace(st['args'][1])
        ok_arg = False
        if tr.get('kind') == 'call' and 'index_mut' in (tr['callee'].get('name') or ''):
            rng = body.trace(tr['args'][1])
            bf = C.trace_field(body, tr['args'][0], WC)
            if rng.get('kind') == 'aggr' and rng['rv'].get('adt', '').endswith('RangeFrom'):
                pf = C.trace_field(body, rng['rv']['ops'][0], WC)
                if bf and pf:
                    ok_arg = True
                    pos_field, buf_field = pf, bf
        rep.check(ok_arg, 'R02.3', '%s|serializer-slice|%s' % (fk, cfg), C.where(body, sb),
                  'serializer writes into &mut buffer[pos..]', 'serializer is not handed &mut buffer[fill position..]',
                  {'arg': op_str(st['args'][1])})
        if not ok_arg:
            continue
        # result edges
        edges = C.result_match_edges(body, sb)
        if not edges:
            rep.bad('R02.3', '%s|serializer-result|%s' % (fk, cfg), C.where(body, sb), 'serializer result is not matched on Ok/Err')
            continue
        sw, ok_t, err_t = edges[0]
        # len local: (_r as Ok).0
        len_locals = set()
        for b, i, s in body.iter_assigns():
            rv = s['rv']
            if rv['k'] == 'use':
                q = op_place(rv['op'])
                if q and q['l'] == st['dest']['l'] and q.get('p') and any(isinstance(e, dict) and e.get('dc') == 'Ok' for e in q['p']):
                    len_locals.add(s['place']['l'])
        # propagate copies
        changed = True
        while changed:
            changed = False
            for b, i, s in body.iter_assigns():
                rv = s['rv']
                if rv['k'] == 'use' and mir.place_is_local(s['place']):
                    q = op_place(rv['op'])
                    if q and not q.get('p') and q['l'] in len_locals and s['place']['l'] not in len_locals:
                        len_locals.add(s['place']['l'])
                        changed = True

        ser_dest = st['dest']['l']

        def is_len(op):
            tr = body.trace(op)
            if tr.get('kind') == 'place' and tr.get('base') == ser_dest:
                return any(isinstance(e, dict) and e.get('dc') == 'Ok' for e in tr['place'].get('p') or [])
            return False

        def is_pos(op):
            tr = body.trace(op)
            return tr.get('kind') == 'place' and any(n == pos_field and adt and WC in adt for adt, n in tr.get('fields', []))

        def is_sum(op, fa, fb):
            tr = body.trace(op)
            if tr.get('kind') == 'bin' and tr['op'] == 'Add':
                return (fa(tr['a']) and fb(tr['b'])) or (fa(tr['b']) and fb(tr['a']))
            return False

        is_one = lambda o: mir.op_is_const(o, 1)
        is_pos_plus_len = lambda o: is_sum(o, is_pos, is_len)
        is_len_plus_one = lambda o: is_sum(o, is_len, is_one)

        def depends(op, want_pos=False, want_len=False, want_one=False):
            # exact shapes only: pos+len / len+1
            if want_pos and want_len and not want_one:
                return is_pos_plus_len(op)
            if want_len and want_one and not want_pos:
                return is_len_plus_one(op)
            if want_pos and not want_len:
                return is_pos(op)
            return False

        # buffer element stores: (*tmp) = x with tmp = index_mut(&mut buffer, idx)
        elem_stores = []
        for b, i, s in body.iter_assigns():
            if s['place'].get('p') == ['*']:
                tr2 = body.trace_place({'l': s['place']['l'], 'p': None, 's': ''})
                if tr2.get('kind') == 'call' and 'index_mut' in (tr2['callee'].get('name') or '') and \
                        C.trace_field(body, tr2['args'][0], WC) == buf_field:
                    elem_stores.append((b, i, s, tr2))
        term_stores = [(b, i, s, tr2) for (b, i, s, tr2) in elem_stores
                       if s['rv']['k'] == 'use' and mir.op_is_const(s['rv']['op'], 0) and depends(tr2['args'][1], want_pos=True, want_len=True)]
        other_stores = [x for x in elem_stores if x not in term_stores]
        rep.check(not other_stores, 'R02.1', '%s|no-stray-buffer-store|%s' % (fk, cfg),
                  C.where(body, other_stores[0][0], other_stores[0][1]) if other_stores else body.where(),
                  'the only direct store into the buffer is the terminator at buffer[pos+len]',
                  'a store into the write buffer other than the NUL terminator at buffer[pos+len]',
                  {'stores': [C.where(body, b, i) for b, i, s, _ in other_stores]})
        ok_exits = C.ok_exit_blocks(body)
        err_exits = C.err_exit_blocks(body)
        tb = [b for b, i, s, _ in term_stores]
        once = len(term_stores) == 1 and bool(ok_exits) and all(C.paths_all_pass(body, sb, e, tb) for e in ok_exits) and \
            not any(tb[0] in body.reach_from_succ(tb[0]) for _ in [0])
        rep.check(once, 'R02.1', '%s|one-terminator|%s' % (fk, cfg), C.where(body, tb[0]) if tb else C.where(body, sb),
                  'exactly one terminator store, on every Ok path, not in a loop',
                  'the terminator NUL is not stored exactly once on every path from the serializer call to the Ok return',
                  {'terminator_stores': [C.where(body, b, i) for b, i, s, _ in term_stores]})
        # pos stores in this function
        pos_stores = list(C.field_stores(body, WC, pos_field))
        adv = [(b, i, s) for b, i, s in pos_stores if not (s['rv']['k'] == 'use' and mir.op_is_const(s['rv']['op']))]
        good_adv = []
        for b, i, s in adv:
            ok_val = False
            if s['rv']['k'] == 'use':
                o = s['rv']['op']
                ok_val = is_sum(o, is_pos, is_len_plus_one) or is_sum(o, is_pos_plus_len, is_one)
            elif s['rv']['k'] == 'bin' and s['rv']['op'] in ('Add', 'AddWithOverflow'):
                a, bb = s['rv']['a'], s['rv']['b']
                ok_val = (is_pos(a) and is_len_plus_one(bb)) or (is_pos(bb) and is_len_plus_one(a)) or \
                    (is_pos_plus_len(a) and is_one(bb)) or (is_pos_plus_len(bb) and is_one(a))
            if ok_val:
                good_adv.append((b, i, s))
        ab = [b for b, i, s in good_adv]
        ok_adv = len(adv) == 1 and len(good_adv) == 1 and all(C.paths_all_pass(body, sb, e, ab) for e in ok_exits) and \
            bool(tb) and ab[0] in body.reachable(tb[0]) and ab[0] not in body.reach_from_succ(ab[0])
        rep.check(ok_adv, 'R02.1', '%s|one-advance|%s' % (fk, cfg), C.where(body, ab[0]) if ab else C.where(body, sb),
                  'exactly one pos += len + 1, after the terminator store, on every Ok path',
                  'the fill position is not advanced exactly once by len+1 after the terminator store on every Ok path',
                  {'advances': [[C.where(body, b, i), mir.rv_str(s['rv'])] for b, i, s in adv]})
        # R02.2 failure atomicity
        bad22 = []
        for b, i, s in pos_stores:
            r = body.reach_from_succ(b) | set()
            if any(e in r for e in err_exits):
                bad22.append(C.where(body, b, i))
        for b in tb:
            if any(e in body.reach_from_succ(b) for e in err_exits):
                bad22.append(C.where(body, b))
        rep.check(not bad22, 'R02.2', '%s|failure-atomic|%s' % (fk, cfg), bad22[0] if bad22 else body.where(),
                  'no store to the fill position / terminator store can be followed by an Err return (%d Err exits)' % len(err_exits),
                  'a store to the fill position or the terminator store lies on a path to an Err return: a refused message '
                  'leaves bytes queued', {'sites': bad22})
        # R02.3 retry loop
        loops = [(a, h) for a, h in body.back_edges() if sb in body.loop_body(h, a)]
        ok_loop = True
        ldetail = {}
        if loops:
            lb = set()
            for a, h in loops:
                lb |= body.loop_body(h, a)
            in_loop_pos = [C.where(body, b, i) for b, i, s in pos_stores if b in lb]
            # back edge only via the BufferTooSmall arm
            esw = None
            for sw2 in range(body.n):
                if body.is_cleanup(sw2) or body.term(sw2)['k'] != 'switch':
                    continue
                info = body.switch_info(sw2)
                if info and info.get('kind') == 'discr' and info['place']['l'] == st['dest']['l'] and info['place'].get('p'):
                    esw = (sw2, info)
                elif info and info.get('kind') == 'discr' and esw is None and 'json_ser::Error' in (info['place'].get('ty') or ''):
                    # the error moved into a local first (`Err(error) => error`, then `if let BufferTooSmall = error`)
                    pt = body.trace_place(dict(info['place'], p=None)) if not info['place'].get('p') else {}
                    if pt.get('kind') == 'place' and pt.get('base') == st['dest']['l'] and any(isinstance(e, dict) and e.get('dc') == 'Err' for e in pt['place'].get('p') or []):
                        esw = (sw2, info)
            via = None
            if esw:
                sw2, info = esw
                adt = None
                for p, a in crate.adts.items():
                    if p.endswith('json_ser::Error'):
                        adt = a
                names = {i: v['name'] for i, v in enumerate(adt['variants'])} if adt else {}
                for val, tgt in info['arms'].items():
                    if names.get(val) == 'BufferTooSmall':
                        via = (sw2, tgt)
                if via is None and names:
                    # otherwise-arm may be BufferTooSmall
                    covered = set(info['arms'].keys())
                    rest = [n for i, n in names.items() if i not in covered]
                    if rest == ['BufferTooSmall']:
                        via = (sw2, info['otherwise'])
            only_bts = False
            if via:
                r = C.reachable_without_edge(body, err_t, via) if err_t is not None else set()
                only_bts = not any(h in r for a, h in loops)
            ok_loop = not in_loop_pos and only_bts
            ldetail = {'pos_stores_in_loop': in_loop_pos, 'retry_only_on_BufferTooSmall': only_bts}
        rep.check(ok_loop, 'R02.3', '%s|retry-loop|%s' % (fk, cfg), C.where(body, sb),
                  'retry loop: fill position unassigned inside, repeats only on BufferTooSmall',
                  'serializer retry loop assigns the fill position or repeats on an error other than BufferTooSmall', ldetail)
        # R02.7 room for the terminator
        ok_room = False
        rdetail = {}
        grow = [b for b, t in body.iter_terms('call') if t['callee'].get('name') in ('grow_buffer', 'extend', 'extend_from_slice', 'resize', 'reserve')
                or (t['callee'].get('def') and crate.by_path.get(t['callee']['def']) is not None and
                    any(tt['callee'].get('name') in ('extend', 'extend_from_slice', 'resize') for _, tt in crate.by_path[t['callee']['def']].iter_terms('call')))]
        for sw2 in range(body.n):
            if body.is_cleanup(sw2) or body.term(sw2)['k'] != 'switch':
                continue
            info = body.switch_info(sw2)
            if not info or info.get('kind') != 'cmp' or info['op'] not in ('Eq', 'Ge', 'Ne', 'Lt'):
                continue
            a_ok = depends(info['a_op'], want_pos=True, want_len=True)
            b_len = info['b'].get('kind') == 'call' and info['b']['callee'].get('name') == 'len' and \
                C.trace_field(body, info['b']['args'][0], WC) == buf_field
            if not (a_ok and b_len):
                continue
            # the length must be the buffer's *current* length: a value read before a growth that can still happen on the way to the test
            # (`let end = self.buffer.len()` ahead of the retry loop) is stale, the test can never see "full" after growth
            lb = info['b'].get('block')
            stale = lb is not None and any(g in body.reachable(lb) and sw2 in body.reachable(g) and g != lb for g in grow)
            if stale:
                rdetail = {'test': C.where(body, sw2), 'length_read_before_a_growth': C.where(body, lb)}
                continue
            full_edge = info['true'] if info['op'] in ('Eq', 'Ge') else info['false']
            r = body.reachable(full_edge, avoid=set(grow))
            grows_first = bool(tb) and all(x not in r for x in tb)
            dominated = bool(tb) and all(body.dominates(sw2, x) or C.paths_all_pass(body, sb, x, [sw2]) for x in tb)
            rdetail = {'test': C.where(body, sw2), 'growth_before_store_on_full_edge': grows_first, 'test_on_every_path': dominated}
            if grows_first and dominated:
                ok_room = True
        rep.check(ok_room, 'R02.7', '%s|room-for-terminator|%s' % (fk, cfg), C.where(body, tb[0]) if tb else C.where(body, sb),
                  'pos+len == buffer.len() is tested and the buffer grown before the terminator store',
                  'the terminator store at buffer[pos+len] is not preceded on every path by a (pos+len vs buffer.len()) test with '
                  'growth on the full edge: index out of bounds when a message ends exactly at the end of the buffer', rdetail)

    if not pos_field:
        return
    # ---- R02.6 resets / who-may-write
    helpers = set()
    flush_bodies = []
    site_cache = {}

    def sites_of(body):
        out = []
        for b, i, s in C.field_stores(body, WC, pos_field):
            if s['rv']['k'] == 'use' and mir.op_is_const(s['rv']['op'], 0):
                out.append((b, 'store'))
        for b, t in body.iter_terms('call'):
            if t['callee'].get('def') in helpers:
                out.append((b, 'helper ' + t['callee']['def']))
        writes = C.calls_to(body, trait='socket::WriteHalf', name='write')
        res = []
        for b, kind in out:
            guarded = False
            for wb, wt in writes:
                for sw, cont, brk in C.try_edges(body, wb):
                    if body.dominates(cont, b) or cont == b:
                        guarded = True
            uncond = body.postdominates(b, 0)
            res.append((b, kind, guarded, uncond))
        return res, writes

    cands = [b for b in crate.bodies if not b.in_test and b.kind in ('AssocFn', 'Fn', 'Closure')]
    changed = True
    while changed:
        changed = False
        for body in cands:
            res, writes = sites_of(body)
            site_cache[body.path] = (res, writes)
            if body.kind != 'Closure' and body.path not in helpers and any((not g) and u for _, _, g, u in res):
                helpers.add(body.path)
                changed = True
    for body in cands:
        res, writes = site_cache[body.path]
        for b, i, s in C.field_stores(body, WC, pos_field):
            if not (s['rv']['k'] == 'use' and mir.op_is_const(s['rv']['op'], 0)) and body.path not in enq_paths:
                rep.bad('R02.6', '%s|unclassified-pos-store|%s' % (body.path, cfg), C.where(body, b, i),
                        'fill position assigned outside the enqueue function and not a reset: %s' % mir.rv_str(s['rv']))
        for b, kind, guarded, uncond in res:
            k0 = kind.split(' ')[0]
            if guarded:
                rep.ok('R02.6', '%s|reset-after-successful-write|%s|%s' % (body.path, k0, cfg), C.where(body, b),
                       'fill position reset only on the Ok continuation of the transport write')
            elif uncond and body.path in helpers:
                rep.ok('R02.6', '%s|reset-helper|%s' % (body.path, cfg), C.where(body, b),
                       'unconditional reset helper: every call site is checked instead', nontrivial=False)
            else:
                rep.bad('R02.6', '%s|reset-after-successful-write|%s|%s' % (body.path, k0, cfg), C.where(body, b),
                        'the fill position is reset (%s) without a dominating successful transport write: queued messages are dropped' % kind)
        if writes:
            flush_bodies.append((body, writes))
    # buffer field never replaced / truncated
    for body in crate.bodies:
        if body.in_test or (body.name == 'new' and body.kind == 'AssocFn'):
            continue
        for b, i, s in C.field_stores(body, WC, buf_field):
            rep.bad('R02.6', '%s|buffer-replaced|%s' % (body.path, cfg), C.where(body, b, i),
                    'the write buffer field is assigned (replaced) outside the constructor: queued bytes can be lost')
        for b, t in body.iter_terms('call'):
            if t['callee'].get('name') in ('truncate', 'clear', 'drain', 'split_off', 'shrink_to_fit', 'shrink_to', 'set_len', 'swap', 'take', 'replace') \
                    and t['args'] and C.trace_field(body, t['args'][0], WC) == buf_field:
                rep.bad('R02.6', '%s|buffer-%s|%s' % (body.path, t['callee']['name'], cfg), C.where(body, b),
                        'the write buffer is shrunk/replaced by %s' % t['callee'].get('name'))
    rep.ok('R02.6', 'buffer-field-writers|%s' % cfg, '-', 'no assignment / truncation of the buffer field outside the constructor')
    # ---- R02.9 queued bytes are never rewritten: who may borrow the buffer mutably, and for what
    GROW = ('extend', 'extend_from_slice', 'resize', 'resize_with', 'reserve', 'reserve_exact', 'push')
    VIEW = ('deref_mut', 'as_mut_slice', 'as_mut', 'borrow_mut')
    n_borrows = 0
    for body in crate.bodies:
        if body.in_test or (body.name == 'new' and body.kind == 'AssocFn'):
            continue
        for b, i, s in body.iter_assigns():
            rv = s['rv']
            if rv['k'] not in ('ref', 'rawptr') or not rv.get('mut'):
                continue
            flds = mir.place_fields(rv['place'])
            if not flds or not (flds[-1][0] and WC in flds[-1][0] and flds[-1][1] == buf_field):
                continue
            n_borrows += 1
            work = [(s['place']['l'], True)]
            seen = set()
            bad = None
            used = False
            while work and bad is None:
                l, may_grow = work.pop()
                if l in seen:
                    continue
                seen.add(l)
                for bb, ii, ss in body.iter_assigns():
                    if ss['rv']['k'] == 'use' and (op_place(ss['rv']['op']) or {}).get('l') == l and not (op_place(ss['rv']['op']) or {}).get('p') and not ss['place'].get('p'):
                        work.append((ss['place']['l'], may_grow))
                    elif ss['rv']['k'] in ('ref', 'rawptr') and ss['rv']['place'].get('l') == l and (ss['rv']['place'].get('p') or [None])[0] == '*':
                        used = True
                        if ss['rv'].get('mut') and ss['rv']['place'].get('p') == ['*']:
                            work.append((ss['place']['l'], may_grow))       # a shared reborrow only reads
                        elif ss['rv'].get('mut'):
                            bad = (bb, 'a part of it is borrowed mutably through the reference')
                    elif ss['place'].get('l') == l and ss['place'].get('p') and ss['place']['p'][0] == '*':
                        bad = (bb, 'a store through the borrowed buffer')
                for bb, t in body.iter_terms('call'):
                    for k, a in enumerate(t['args']):
                        q = op_place(a)
                        if not q or q['l'] != l or q.get('p'):
                            continue
                        used = True
                        nm = t['callee'].get('name')
                        if k == 0 and nm == 'index_mut':
                            # one element (which one: R02.1, the terminator) or the free tail buffer[pos..] (R02.3, the serializer's slice)
                            ity = ((op_place(t['args'][1]) or {}).get('ty') or t['args'][1].get('ty') or '') if len(t['args']) > 1 else ''
                            if ity.replace(' ', '') == 'usize':
                                continue
                            rng = body.trace(t['args'][1]) if len(t['args']) > 1 else {}
                            if rng.get('kind') == 'aggr' and rng['rv'].get('adt', '').endswith('RangeFrom') and C.trace_field(body, rng['rv']['ops'][0], WC) == pos_field:
                                continue
                            bad = (bb, 'sliced with %s (only buffer[pos..], the free tail, may be handed out mutably)' % (ity or 'an unrecognised range'))
                            break
                        if k == 0 and nm in GROW and may_grow:
                            continue                    # appends behind the queued bytes
                        if k == 0 and nm in VIEW and place_is_local(t['dest']):
                            work.append((t['dest']['l'], False))
                            continue
                        bad = (bb, 'handed to %s' % (t['callee'].get('def') or nm))
            rep.check(bad is None and used, 'R02.9', '%s|mutable-borrow-of-buffer|%d|%s' % (body.path, n_borrows, cfg), C.where(body, b, i),
                      'the write buffer is borrowed mutably only to index it (terminator / serializer slice, see R02.1 and R02.3) or to grow it',
                      'the write buffer is borrowed mutably and %s: bytes of messages that are already queued (buffer[..pos]) can be rewritten before they are flushed '
                      '(accepted uses: indexing, extend / extend_from_slice / resize / reserve)' % (bad[1] if bad else 'its use is not recognised'),
                      {'use': bad[1] if bad else None})
    rep.floor('R02.9', 2, 'mutable borrows of the write buffer (serializer slice, terminator)')
    # ---- R02.4 flush
    for body, writes in flush_bodies:
        fk = body.path
        ok_one = len(writes) == 1 and writes[0][0] not in body.reach_from_succ(writes[0][0])
        wb, wt = writes[0]
        tr = body.trace(wt['args'][1])
        ok_slice = False
        if tr.get('kind') == 'call' and (tr['callee'].get('name') == 'index'):
            rng = body.trace(tr['args'][1])
            if rng.get('kind') == 'aggr' and rng['rv'].get('adt', '').endswith('RangeTo') and \
                    C.trace_field(body, rng['rv']['ops'][0], WC) == pos_field and C.trace_field(body, tr['args'][0], WC) == buf_field:
                ok_slice = True
            # `&buffer[0..pos]` is the same prefix
            if rng.get('kind') == 'aggr' and rng['rv'].get('adt', '').endswith('::Range') and len(rng['rv'].get('ops') or []) == 2:
                lo = body.trace(rng['rv']['ops'][0])
                if lo.get('kind') == 'const' and lo.get('val') == 0 and C.trace_field(body, rng['rv']['ops'][1], WC) == pos_field and \
                        C.trace_field(body, tr['args'][0], WC) == buf_field:
                    ok_slice = True
        rep.check(ok_one and ok_slice, 'R02.4', '%s|single-write-of-prefix|%s' % (fk, cfg), C.where(body, wb),
                  'one transport write per flush, of &buffer[..pos]',
                  'flush does not hand exactly &buffer[..pos] to the transport in a single write',
                  {'write_sites': len(writes), 'slice_ok': ok_slice})
        # pos == 0 => no write
        ok_empty = False
        for sw in range(body.n):
            if body.is_cleanup(sw) or body.term(sw)['k'] != 'switch':
                continue
            info = body.switch_info(sw)
            if info and info.get('kind') == 'cmp' and info['a'].get('kind') == 'place' and any(n == pos_field for _, n in info['a'].get('fields', [])) and \
                    info['b'].get('kind') == 'const' and body.dominates(sw, wb) and \
                    (info['op'], info['b'].get('val')) in (('Eq', 0), ('Ne', 0), ('Gt', 0), ('Lt', 1), ('Le', 0), ('Ge', 1)):
                empty_edge = info['true'] if info['op'] in ('Eq', 'Lt', 'Le') else info['false']
                if wb not in body.reachable(empty_edge):
                    ok_empty = True
        rep.check(ok_empty, 'R02.4', '%s|empty-flush-writes-nothing|%s' % (fk, cfg), C.where(body, wb),
                  'pos == 0 => the transport write is unreachable', 'a flush with nothing enqueued can reach the transport write')
    rep.floor('R02.4', 2, 'flush obligations')
    # ---- R02.5 chain / send wrappers (call graph)
    def reaches(body, pred, depth=4, seen=None):
        seen = seen or set()
        if body.path in seen:
            return False
        seen.add(body.path)
        for b, t in body.iter_terms('call'):
            if pred(t):
                return True
            cd = t['callee'].get('def')
            for cand in (cd, (cd or '') + '::{closure#0}'):
                cb = crate.by_path.get(cand) if cand else None
                if cb is not None and depth > 0 and reaches(cb, pred, depth - 1, seen):
                    return True
        return False
    is_write = lambda t: (t['callee'].get('trait') and 'socket::WriteHalf' in t['callee']['trait'] and t['callee'].get('name') == 'write')
    is_enq = lambda t: t['callee'].get('def') in enq_paths
    for body in crate.bodies:
        if body.in_test or not (body.impl_self and 'chain::Chain' in body.impl_self) or body.kind != 'AssocFn':
            continue
        co = C.async_body(crate, body)
        if body.name in ('new', 'append'):
            rep.check(reaches(co, is_enq) and not reaches(co, is_write), 'R02.5', '%s|enqueue-no-flush|%s' % (body.path, cfg), body.where(),
                      'chain construction enqueues and never reaches the transport write',
                      'Chain::%s does not enqueue, or reaches the transport write (calls must go out in one write at send)' % body.name)
        elif body.name == 'send':
            fl = [b for b, t in co.iter_terms('call') if (t['callee'].get('name') == 'flush')]
            ok = len(fl) == 1 and fl[0] not in co.reach_from_succ(fl[0])
            rs = [b for b, t in co.iter_terms('call') if 'ReplyStream' in (t['callee'].get('def') or '') and t['callee'].get('name') == 'new']
            if ok and rs:
                conts = [c for sw, c, br in C.try_edges(co, fl[0])]
                ok = bool(conts) and all(any(co.dominates(c, r) or c == r for c in conts) for r in rs)
            rep.check(ok, 'R02.5', '%s|one-flush-before-stream|%s' % (body.path, cfg), body.where(),
                      'send flushes exactly once and builds the reply stream only on the Ok continuation',
                      'Chain::send does not flush exactly once before building the reply stream')
    for body in C.methods(crate, WC):
        co = C.async_body(crate, body)
        if not co.is_coroutine or body.name in ('flush',):
            continue
        if reaches(co, is_enq, depth=2):
            # enqueue-then-flush
            enq_calls = [b for b, t in co.iter_terms('call') if is_enq(t) or (t['callee'].get('def') and crate.by_path.get(t['callee']['def']) is not None and reaches(crate.by_path[t['callee']['def']], is_enq, 1))]
            fl = [b for b, t in co.iter_terms('call') if t['callee'].get('name') in ('flush', 'write') and (t['callee'].get('def') or '').startswith('connection::write_connection')]
            fl = [b for b in fl if b not in enq_calls]
            ok = True
            if body.name == 'write' or (enq_calls and fl):
                conts = [c for e in enq_calls for sw, c, br in C.try_edges(co, e)]
                ok = bool(enq_calls) and bool(fl) and bool(conts) and \
                    all(not (set(co.returns()) & co.reachable(c, avoid=set(fl))) for c in conts)
            rep.check(ok, 'R02.5', '%s|enqueue-then-flush|%s' % (body.path, cfg), body.where(),
                      'send path: enqueue, then flush on the Ok continuation, on every path to return',
                      'a send operation does not flush after a successful enqueue on every path')
    rep.floor('R02.5', 3, 'chain/send instances')


def check(fx, rep, tier):
    rep.rule('R02.1', 'enqueue Ok paths: exactly one NUL at buffer[pos+len] (len = serializer Ok payload), then exactly one pos += len+1; no other store into the buffer')
    rep.rule('R02.2', 'failure atomicity: no fill-position store and no terminator store on a path to an Err return')
    rep.rule('R02.3', 'serializer always receives &mut buffer[pos..]; pos unassigned in the retry loop; retry only on BufferTooSmall')
    rep.rule('R02.4', 'flush: one transport write of &buffer[..pos]; nothing written when pos == 0')
    rep.rule('R02.5', 'chain construction enqueues without flushing; send flushes once before the stream; send_* = enqueue then flush')
    rep.rule('R02.6', 'fill position is reset only after a successful transport write (also through helpers); buffer field never replaced or truncated; no other pos writers')
    rep.rule('R02.8', 'no raw control character or NUL can appear inside a document: every string fragment reaches the writer through the escape scanner with the RFC 8259 table (E1, E2, E2b of C03)')
    rep.rule('R02.9', 'queued bytes are never rewritten: the write buffer is borrowed mutably only to index it (serializer slice, terminator) or to grow it')
    rep.rule('R02.7', 'room for the terminator: (pos+len vs buffer.len()) test with growth on the full edge precedes the terminator store')
    for cfg in ['full'] + (['ws', 'nostd'] if tier == 'thorough' else []):
        check_crate(fx, rep, fx.crate('zlink_core', cfg), cfg)
    import imports
    imports.rules_of(fx, rep, 'C03', {'E1', 'E2', 'E2b'}, 'R02.8', 'an unescaped control character or NUL inside the document breaks the one-document-one-NUL framing')
    imports.layer(fx, rep, 'C02')
    return META
