"""Shared lookups over the facts: methods by (self type, name), async bodies, field stores, etc."""
import mir
from mir import op_place, op_str, place_fields, place_is_local, callee_name


def non_test_bodies(crate):
    return [b for b in crate.bodies if not b.in_test]


def methods(crate, self_sub, name=None, trait_sub=None):
    """bodies (fn items, not closures) whose impl self type contains self_sub"""
    out = []
    for b in crate.bodies:
        if b.in_test or b.kind not in ('AssocFn', 'Fn'):
            continue
        if self_sub is not None and not (b.impl_self and self_sub in b.impl_self):
            continue
        if name is not None and b.name != name:
            continue
        if trait_sub is not None and not (b.impl_trait and trait_sub in b.impl_trait):
            continue
        out.append(b)
    return out


def async_body(crate, fnbody):
    """the coroutine body of an `async fn` (its {closure#0}), or the fn body itself"""
    c = crate.by_path.get(fnbody.path + '::{closure#0}')
    if c is not None and c.is_coroutine:
        return c
    return fnbody


def nested(crate, body):
    """closure bodies nested in body (direct and indirect)"""
    pres = [body.path + '::{closure#'] + [h + '::{closure#' for h in (body.d.get('inlined') or []) if isinstance(h, str) and h != 'async']
    return [b for b in crate.bodies if b.path.startswith(tuple(pres))]


def impl_bodies(crate, self_sub):
    """all bodies (incl. closures/coroutines) belonging to impls of a self type"""
    return [b for b in crate.bodies if not b.in_test and b.impl_self and self_sub in b.impl_self]


_EXP_CACHE = {}


def expanded_impl_bodies(crate, self_sub):
    """impl_bodies with the awaited private async helpers of the same module expanded in place (inline.expand_async); a helper coroutine that
    was expanded into a caller is analysed there and not on its own"""
    import inline
    k = (id(crate), self_sub)
    if k in _EXP_CACHE:
        return _EXP_CACHE[k]
    bodies = impl_bodies(crate, self_sub)
    out, absorbed = [], set()
    for b in bodies:
        try:
            e = inline.expand_async(crate, b, single_caller=True, depth=3) if b.is_coroutine else b
        except Exception:
            e = b
        if e is not b:
            for blk in e.blocks:
                t = blk['term']
                if t.get('glue') == 'await-call' and t.get('inlined_call'):
                    p = inline.callee_path(t['inlined_call'])
                    if p:
                        absorbed.add(p + '::{closure#0}')
        out.append(e)
    # iterate once more so that a helper expanded into its caller does not hide a second level
    res = [b for b in out if b.path not in absorbed]
    _EXP_CACHE[k] = res
    return res


def field_stores(body, adt_sub, field=None):
    """assignments whose destination's last field projection is `field` of an ADT containing adt_sub.
    yields (block, idx, stmt)"""
    for b, i, s in body.iter_assigns():
        lf = mir.place_last_field(s['place'])
        if not lf:
            continue
        adt, name = lf
        if adt and adt_sub in adt and (field is None or name == field):
            # only direct stores to the field itself (not to something inside it)
            projs = s['place'].get('p') or []
            last = projs[-1]
            if isinstance(last, dict) and 'f' in last:
                yield b, i, s


def field_reads_in_op(body, op, adt_sub):
    p = op_place(op)
    if not p:
        return None
    for adt, name in place_fields(p):
        if adt and adt_sub in adt:
            return name
    return None


def is_field_place(p, adt_sub, field=None):
    lf = mir.place_last_field(p)
    if not lf:
        return False
    adt, name = lf
    projs = p.get('p') or []
    last = projs[-1]
    return bool(adt and adt_sub in adt and (field is None or name == field) and isinstance(last, dict) and 'f' in last)


def trace_field(body, op, adt_sub, depth=10):
    """if operand (through copies/casts) is a read of a field of ADT adt_sub return the field name"""
    tr = body.trace(op)
    if tr.get('kind') == 'place':
        for adt, name in tr.get('fields', []):
            if adt and adt_sub in adt:
                return name
    return None


def aggr_adt_sites(body, adt_sub, variant=None):
    """(block, idx, stmt) of aggregate constructions of ADT::variant"""
    for b, i, s in body.iter_assigns():
        rv = s['rv']
        if rv['k'] == 'aggr' and rv.get('kind') == 'adt' and adt_sub in rv.get('adt', '') and \
                (variant is None or rv.get('variant') == variant):
            yield b, i, s


def calls_to(body, *subs, trait=None, name=None):
    out = []
    for b, t in body.iter_terms('call'):
        c = t['callee']
        d = c.get('def') or ''
        r = c.get('resolved') or ''
        if subs and not any(s in d or s in r for s in subs):
            continue
        if trait is not None and not (c.get('trait') and trait in c['trait']):
            continue
        if name is not None and c.get('name') != name:
            continue
        out.append((b, t))
    return out


def user_line(body, b, i=None):
    if i is None or i == 'term':
        return body.term(b).get('line')
    return body.stmts(b)[i].get('line')


def where(body, b=None, i=None):
    if b is None:
        return body.where()
    return '%s:%s' % (body.blocks[b].get('file') or body.file, user_line(body, b, i))


def fn_key(body):
    """line-free identity of a body"""
    return body.path


def reachable_without_edge(body, start, edge):
    """blocks reachable from start when the CFG edge (a,b) is removed"""
    a0, b0 = edge
    seen, work = set(), [start]
    while work:
        x = work.pop()
        if x in seen:
            continue
        seen.add(x)
        for s in body.succ(x):
            if x == a0 and s == b0:
                continue
            work.append(s)
    return seen


def reachable_without_blocks(body, start, blocks):
    return body.reachable(start, avoid=blocks)


def paths_all_pass(body, src, dst, via_blocks):
    """every path src ->* dst passes through one of via_blocks (src itself excluded)"""
    if src in via_blocks:
        return True
    r = set()
    for s in body.succ(src):
        r |= body.reachable(s, avoid=set(via_blocks))
    return dst not in r


def ok_err_of_return_sites(body):
    """classify writes to _0 of Result-returning bodies: list of (block, idx, 'Ok'|'Err'|'other', stmt_or_term)"""
    out = []
    for b, i, s in body.iter_assigns():
        if s['place']['l'] == 0 and place_is_local(s['place']):
            rv = s['rv']
            if rv['k'] == 'aggr' and rv.get('kind') == 'adt' and 'Result' in rv.get('adt', ''):
                out.append((b, i, rv['variant'], s))
            elif rv['k'] == 'use':
                # the value of an inlined helper (or a temporary) moved into the return place
                tr = body.trace(rv['op'])
                if tr.get('kind') == 'aggr' and tr['rv'].get('kind') == 'adt' and 'Result' in tr['rv'].get('adt', '') and tr['rv'].get('variant'):
                    out.append((b, i, tr['rv']['variant'], s))
                elif tr.get('kind') == 'call' and 'from_residual' in callee_name(tr['term']):
                    out.append((b, i, 'Err', s))
                else:
                    out.append((b, i, 'other', s))
            else:
                out.append((b, i, 'other', s))
    for b, t in body.iter_terms('call'):
        if t['dest']['l'] == 0 and place_is_local(t['dest']):
            if 'from_residual' in callee_name(t):
                out.append((b, 'term', 'Err', t))
            else:
                out.append((b, 'term', 'other', t))
    return out


def try_edges(body, cb):
    """For the call at block cb whose (possibly awaited) result is fed to `?`: returns list of
    (switch_block, continue_target, break_target). Recognised by Try::branch + SwitchInt (MIR of `?`)."""
    out = []
    for tb, tt in body.iter_terms('call'):
        if tt['callee'].get('name') != 'branch' or 'Try' not in (tt['callee'].get('trait') or ''):
            continue
        p = op_place(tt['args'][0])
        if not p:
            continue
        locs, events = body.slice_back([p['l']])
        if not any(ev[0] == 'call' and ev[1] == cb for ev in events):
            continue
        # nearest: the slice must not contain another Try::branch result in between
        if any(ev[0] == 'call' and ev[1] != tb and ev[2]['callee'].get('name') == 'branch' for ev in events):
            continue
        sw = tt.get('t')
        if sw is None or body.term(sw)['k'] != 'switch':
            continue
        arms = {a[0]: a[1] for a in body.term(sw)['arms']}
        if 0 in arms and 1 in arms:
            out.append((sw, arms[0], arms[1]))
    # the spelled-out form of `?`: `match r { Ok(v) => v, Err(e) => return Err(..) }` / `if let Err(e) = r { return Err(e) }` - a switch on the
    # discriminant of the (possibly awaited) Result whose Err edge cannot come back to the Ok continuation
    for sw in range(body.n):
        if body.is_cleanup(sw) or body.term(sw)['k'] != 'switch' or any(sw == o[0] for o in out):
            continue
        info = body.switch_info(sw)
        if not info or info.get('kind') != 'discr' or (info['place'].get('p') or []) != []:
            continue
        ty = info['place'].get('ty') or ''
        if not ty.startswith(('std::result::Result<', 'core::result::Result<')):
            continue
        locs, events = body.slice_back([info['place']['l']])
        if not any(ev[0] == 'call' and ev[1] == cb for ev in events):
            continue
        if any(ev[0] == 'call' and ev[2]['callee'].get('name') == 'branch' and 'Try' in (ev[2]['callee'].get('trait') or '') for ev in events):
            continue
        ok_t = info['arms'].get(0, info['otherwise'])
        err_t = info['arms'].get(1, info['otherwise'])
        if ok_t is None or err_t is None or ok_t == err_t:
            continue
        if ok_t in body.reachable(err_t, avoid={sw, cb}):
            continue
        out.append((sw, ok_t, err_t))
    return out


def result_match_edges(body, cb):
    """For a call at cb returning Result that is matched directly: (switch_block, ok_target, err_target)"""
    t = body.term(cb)
    dl = t['dest']['l']
    out = []
    for sw in range(body.n):
        if body.is_cleanup(sw) or body.term(sw)['k'] != 'switch':
            continue
        info = body.switch_info(sw)
        if info and info.get('kind') == 'discr' and info['place']['l'] == dl and not info['place'].get('p'):
            out.append((sw, info['arms'].get(0), info['arms'].get(1, info['otherwise'])))
    return out


def err_exit_blocks(body):
    """blocks that write an Err (or propagate one with `?`) into the return place"""
    return [b for b, i, v, s in ok_err_of_return_sites(body) if v == 'Err']


def ok_exit_blocks(body):
    return [b for b, i, v, s in ok_err_of_return_sites(body) if v == 'Ok']


def helper_closure(crate, roots_pred, depth=4):
    """set of non-async workspace fn bodies satisfying roots_pred, closed under 'is called by a non-async fn' is
    NOT computed here; returns bodies for which roots_pred(body) holds directly or via callees up to depth."""
    memo = {}

    def go(b, d):
        if b.path in memo:
            return memo[b.path]
        memo[b.path] = False
        r = roots_pred(b)
        if not r and d > 0:
            for blk, t in b.iter_terms('call'):
                cd = t['callee'].get('def')
                cb = crate.by_path.get(cd) if cd else None
                if cb is not None and cb.kind in ('AssocFn', 'Fn') and crate.by_path.get(cd + '::{closure#0}') is None:
                    if go(cb, d - 1):
                        r = True
                        break
        memo[b.path] = r
        return r

    for b in crate.bodies:
        if b.kind in ('AssocFn', 'Fn') and not b.in_test:
            go(b, depth)
    return {p for p, v in memo.items() if v}


# ---- canonical reading of comparisons with small constants (unsigned operands)

_ZERO_TESTS = {   # (op, const) for `x OP const`  ->  True when the TRUE edge means x == 0, False when it means x != 0
    ('Eq', 0): True, ('Ne', 0): False, ('Gt', 0): False, ('Le', 0): True, ('Lt', 1): True, ('Ge', 1): False,
}
_FLIP = {'Eq': 'Eq', 'Ne': 'Ne', 'Lt': 'Gt', 'Gt': 'Lt', 'Le': 'Ge', 'Ge': 'Le'}


def zero_test(info, is_x):
    """a `cmp` switch_info that is equivalent to a test `x == 0` on an unsigned x (written `x == 0`, `x != 0`, `x > 0`, `x < 1`, `x >= 1`,
    `x <= 0`, either operand order, any number of negations): returns (zero_edge, nonzero_edge, x_operand) or None.
    is_x(trace, operand) selects the tested value."""
    if not info or info.get('kind') != 'cmp':
        return None
    for xs, cs, flip in (('a', 'b', False), ('b', 'a', True)):
        c = info[cs]
        if c.get('kind') != 'const' or c.get('val') not in (0, 1):
            continue
        if not is_x(info[xs], info[xs + '_op']):
            continue
        op = _FLIP[info['op']] if flip else info['op']
        z = _ZERO_TESTS.get((op, c['val']))
        if z is None:
            continue
        return (info['true'], info['false'], info[xs + '_op']) if z else (info['false'], info['true'], info[xs + '_op'])
    return None


def rel(info):
    """canonical (a_trace, a_op, OP, b_trace, b_op) with OP in Lt/Le/Eq/Ne/Ge/Gt as it holds on the TRUE edge"""
    if not info or info.get('kind') != 'cmp':
        return None
    return info['a'], info['a_op'], info['op'], info['b'], info['b_op']


def ge_test(info, is_a, is_b):
    """a comparison equivalent to `a >= b` (a >= b, !(a < b), b <= a, !(b > a)): returns (ge_edge, lt_edge) or None;
    `a > b` / `a <= b` forms are NOT equivalent and return None"""
    if not info or info.get('kind') != 'cmp':
        return None
    op = info['op']
    if is_a(info['a'], info['a_op']) and is_b(info['b'], info['b_op']):
        if op == 'Ge':
            return info['true'], info['false']
        if op == 'Lt':
            return info['false'], info['true']
    if is_a(info['b'], info['b_op']) and is_b(info['a'], info['a_op']):
        if op == 'Le':
            return info['true'], info['false']
        if op == 'Gt':
            return info['false'], info['true']
    return None


def zero_switches(body, is_x):
    """every switch of `body` that decides `x == 0` for an unsigned x selected by is_x(trace, operand): comparisons in any of the
    equivalent spellings (zero_test) and direct integer switches `switchInt(x) [0 -> .., otherwise -> ..]` (from `match x { 0 => .. }`
    / `Ok(0)` patterns).  yields (switch block, zero edge, nonzero edge, x operand)"""
    for sw in range(body.n):
        if body.is_cleanup(sw) or body.term(sw)['k'] != 'switch':
            continue
        info = body.switch_info(sw)
        if not info:
            continue
        if info.get('kind') == 'cmp':
            z = zero_test(info, is_x)
            if z:
                yield sw, z[0], z[1], z[2]
        elif info.get('kind') == 'int':
            op = body.term(sw)['op']
            if 0 in info['arms'] and len(info['arms']) == 1 and is_x(info['src'], op):
                yield sw, info['arms'][0], info['otherwise'], op


def expand_phi_stores(body, stores):
    """A store `field = t` whose value local t has several reaching definitions (`field = if c { 0 } else { n + 1 }`, a tuple returned
    by two branches ...) is the same as one store per definition, placed at that definition.  yields (block, idx, stmt) with synthetic
    statements (same destination, the definition's own rvalue / operand) for such stores, the store itself otherwise."""
    for b, i, s in stores:
        rv = s['rv']
        q = mir.op_place(rv['op']) if rv['k'] == 'use' else None
        if q is None or 1 <= q['l'] <= body.arg_count:
            yield b, i, s
            continue
        pr = q.get('p') or []
        # look through plain copies of the aggregate / value (`t = move ret_of_helper; field = t.0`)
        hops = 0
        while hops < 5:
            sd_ = body.single_def_at(q['l'], b)
            if sd_ is None or sd_[2] != 'assign' or sd_[3]['rv']['k'] != 'use':
                break
            src_ = mir.op_place(sd_[3]['rv']['op'])
            if src_ is None or 1 <= src_['l'] <= body.arg_count or (src_.get('p') and src_['p'][0] == '*'):
                break
            q = dict(src_, p=(list(src_.get('p') or []) + list(q.get('p') or [])) or None)
            hops += 1
        pr = q.get('p') or []
        if body.single_def_at(q['l'], b) is not None or (pr and pr[0] == '*'):
            yield b, i, s
            continue
        live = body.reachable()
        ds = [d for d in body.defs().get(q['l'], []) if d[2] == 'assign' and d[0] in live and b in body.reachable(d[0])]
        alld = [d for d in body.defs().get(q['l'], []) if d[2] != 'partial' and d[0] in live]
        if len(ds) < 2 or len(ds) != len(alld):
            yield b, i, s
            continue
        out = []
        for db, di, kind, payload in ds:
            drv = payload['rv']
            if not pr:
                out.append((db, di, {'k': 'assign', 'place': s['place'], 'rv': drv, 'line': payload.get('line'), 'phi_of': (b, i)}))
                continue
            # projected use of an aggregate built in each branch: take the operand of the projected field
            if drv['k'] == 'aggr' and len(pr) == 1 and isinstance(pr[0], dict) and isinstance(pr[0].get('f'), int) and pr[0]['f'] < len(drv.get('ops') or []):
                out.append((db, di, {'k': 'assign', 'place': s['place'], 'rv': {'k': 'use', 'op': drv['ops'][pr[0]['f']]}, 'line': payload.get('line'), 'phi_of': (b, i)}))
            else:
                out = None
                break
        if not out:
            yield b, i, s
        else:
            for x in out:
                yield x


def cond_ids(body, b):
    """identities of the conditions block b is control dependent on: set of (value id, edge polarity) where the value id names the
    tested boolean / comparison by its definition site, so that two `if c` on the same unchanged `c` compare equal"""
    out = set()
    for sw, succ in body.control_deps_closure(b):
        info = body.switch_info(sw)
        if not info or info.get('kind') not in ('cmp', 'bool'):
            continue
        src = info.get('src') or {}
        vid = None
        if src.get('kind') == 'bin':
            vid = ('def', src.get('block'), src.get('stmt'))
        elif src.get('kind') == 'local':
            vid = ('local', src.get('l'))
        elif src.get('kind') == 'call':
            vid = ('call', src.get('block'))
        if vid is None:
            continue
        pol = True if succ == info.get('true') else (False if succ == info.get('false') else None)
        if pol is not None:
            out.add((vid, pol))
    return out


def read_cursor_of(body, rt, RC):
    """name of the ReadConnection field that plays the read cursor for the ReadHalf::read call `rt`: the start of the RangeFrom slice of the buffer
    handed to the transport.  (1) the start is a read of the field; (2) the start is a local that provably equals a field at the call (eqfacts);
    (3) the start is a working copy that the body writes back to exactly one field (`end += n; self.read_pos = end`)."""
    tr = body.trace(rt['args'][1])
    if tr.get('kind') != 'call':
        return None
    rng = body.trace(tr['args'][1])
    if rng.get('kind') != 'aggr' or not rng['rv'].get('ops'):
        return None
    f = trace_field(body, rng['rv']['ops'][0], RC)
    if f:
        return f
    import eqfacts
    t0 = body.trace(rng['rv']['ops'][0])
    q0 = op_place(rng['rv']['ops'][0])
    cand = []
    if t0.get('kind') == 'local' and t0.get('l') is not None:
        cand.append(t0['l'])
    if q0 and place_is_local(q0):
        cand.append(q0['l'])
    for l_ in cand:
        for bb_ in {tr.get('block'), rng.get('block')} - {None}:
            F_ = eqfacts.field_of_local(body, RC, bb_, None, l_)
            if F_:
                return F_
    # (3) working copy written back to one field
    names = set()
    for l_ in cand:
        same = {l_}
        for b, i, st in body.iter_assigns():
            if st['rv']['k'] == 'use' and place_is_local(st['place']) and op_place(st['rv']['op']) and place_is_local(op_place(st['rv']['op'])) and \
                    op_place(st['rv']['op'])['l'] in same:
                same.add(st['place']['l'])
        for b, i, st in body.iter_assigns():
            if st['rv']['k'] == 'use' and op_place(st['rv']['op']) and place_is_local(op_place(st['rv']['op'])) and op_place(st['rv']['op'])['l'] in same:
                fn = eqfacts._field_of(body, st['place'], RC)
                if fn:
                    names.add(fn)
    return sorted(names)[0] if len(names) == 1 else None
