"""Scanner automaton analysis: abstract interpretation of hand-written byte scanners against a reference regular language.

A *scanner* is a function `fn(&mut &[u8]) -> Result<&str, _>` that walks a cursor over the input, tests bytes with class
predicates / comparisons with constants, and finally cuts the accepted prefix off the input.  The MIR of such a function (and of
the local helpers it calls) is interpreted over an abstract input stream:

  * the input is an unknown byte string S of unknown length L; what the path has learned about it is a byte set per index
    (refined by every predicate / comparison the code evaluates) and an interval for L (refined by every comparison with len());
  * integers are concrete positions; slices are (start, end) pairs into S; references, tuples, Option/Result are structural;
    anything else is an opaque value that remembers which slices it was derived from;
  * a branch whose condition is not decided by the knowledge forks the state and refines the knowledge on both sides
    (so every explored path is feasible: the refinements are the witness input);
  * loops are closed by position abstraction: two states are merged when they differ only by a uniform shift of all
    positions within a window W of the furthest cursor (positions at most `maxconst+1` stay exact, positions further behind
    than W are only known to be further behind); the reference automaton has consumed everything behind the window.

In lock-step the reference DFA (compiled from the grammar's regular expression in the rule table) consumes the bytes behind the
cursor.  At every return the verdicts are:

  * SOUND     Ok(S[0..b)) requires the DFA to accept S[0..b)  and the input to be advanced to exactly b;
  * COMPLETE  Err, or Ok with a byte of the name alphabet following, is a violation when some input consistent with the
              path's knowledge has a maximal run of name-alphabet bytes that IS in the language (a legal name is rejected or cut);
  * PANIC     a reachable bounds / overflow assertion failure is reported with the knowledge that reaches it.

Nothing of zlink is executed: the interpretation is over MIR facts and the abstract domain above.  Unsupported constructs
raise Unsupported and the caller fails closed."""
import itertools

ALL = frozenset(range(256))


class Unsupported(Exception):
    pass


# ------------------------------------------------------------------------------------------------ regex -> DFA
class _NFA:
    def __init__(self):
        self.eps = {}
        self.tr = {}
        self.n = 0

    def new(self):
        self.n += 1
        return self.n - 1

    def add_eps(self, a, b):
        self.eps.setdefault(a, set()).add(b)

    def add(self, a, bs, b):
        self.tr.setdefault(a, []).append((bs, b))


def _parse_class(s, i):
    out = set()
    neg = False
    if s[i] == '^':
        neg = True
        i += 1
    first = True
    while s[i] != ']' or first:
        first = False
        c = s[i]
        if c == '\\':
            i += 1
            c = s[i]
        if s[i + 1] == '-' and s[i + 2] != ']':
            d = s[i + 2]
            out.update(range(ord(c), ord(d) + 1))
            i += 3
        else:
            out.add(ord(c))
            i += 1
    return frozenset(ALL - out if neg else out), i + 1


def _parse_re(s):
    """returns AST: ('cat',[..]) ('alt',[..]) ('star',x) ('plus',x) ('opt',x) ('set',frozenset)"""
    pos = [0]

    def alt():
        items = [cat()]
        while pos[0] < len(s) and s[pos[0]] == '|':
            pos[0] += 1
            items.append(cat())
        return items[0] if len(items) == 1 else ('alt', items)

    def cat():
        items = []
        while pos[0] < len(s) and s[pos[0]] not in '|)':
            items.append(rep())
        return ('cat', items)

    def rep():
        a = atom()
        while pos[0] < len(s) and s[pos[0]] in '*+?':
            a = ({'*': 'star', '+': 'plus', '?': 'opt'}[s[pos[0]]], a)
            pos[0] += 1
        return a

    def atom():
        c = s[pos[0]]
        if c == '(':
            pos[0] += 1
            a = alt()
            assert s[pos[0]] == ')'
            pos[0] += 1
            return a
        if c == '[':
            bs, j = _parse_class(s, pos[0] + 1)
            pos[0] = j
            return ('set', bs)
        if c == '\\':
            pos[0] += 2
            return ('set', frozenset([ord(s[pos[0] - 1])]))
        pos[0] += 1
        return ('set', frozenset([ord(c)]))

    r = alt()
    assert pos[0] == len(s), 'regex parse error at %d in %r' % (pos[0], s)
    return r


def _build(nfa, ast):
    k = ast[0]
    if k == 'set':
        a, b = nfa.new(), nfa.new()
        nfa.add(a, ast[1], b)
        return a, b
    if k == 'cat':
        a = nfa.new()
        cur = a
        for it in ast[1]:
            x, y = _build(nfa, it)
            nfa.add_eps(cur, x)
            cur = y
        return a, cur
    if k == 'alt':
        a, b = nfa.new(), nfa.new()
        for it in ast[1]:
            x, y = _build(nfa, it)
            nfa.add_eps(a, x)
            nfa.add_eps(y, b)
        return a, b
    x, y = _build(nfa, ast[1])
    a, b = nfa.new(), nfa.new()
    nfa.add_eps(a, x)
    nfa.add_eps(y, b)
    if k in ('star', 'opt'):
        nfa.add_eps(a, b)
    if k in ('star', 'plus'):
        nfa.add_eps(y, x)
    return a, b


class DFA:
    """Complete DFA over bytes; state 0 is the start; `dead` is the sink."""

    def __init__(self, regex):
        self.regex = regex
        nfa = _NFA()
        s, f = _build(nfa, _parse_re(regex))

        def close(S):
            st = list(S)
            S = set(S)
            while st:
                x = st.pop()
                for y in nfa.eps.get(x, ()):
                    if y not in S:
                        S.add(y)
                        st.append(y)
            return frozenset(S)

        start = close({s})
        self.states = {start: 0}
        self.trans = []
        self.accept = []
        work = [start]
        while work:
            S = work.pop()
            i = self.states[S]
            while len(self.trans) <= i:
                self.trans.append(None)
                self.accept.append(False)
            self.accept[i] = f in S
            row = [None] * 256
            for b in range(256):
                T = set()
                for x in S:
                    for bs, y in nfa.tr.get(x, ()):
                        if b in bs:
                            T.add(y)
                T = close(T)
                if T not in self.states:
                    self.states[T] = len(self.states)
                    work.append(T)
                row[b] = self.states[T]
            self.trans[i] = row
        n = len(self.trans)
        self.alphabet = frozenset(b for b in range(256) if any(self._live_from(self.trans[i][b], n) for i in range(n)))
        # can reach accept with >= 0 / >= 1 alphabet bytes
        self.live = [self._live_from(i, n) for i in range(n)]
        self.classes = self._classes()

    def _live_from(self, i, n):
        seen, st = {i}, [i]
        while st:
            x = st.pop()
            if self.accept[x]:
                return True
            for y in set(self.trans[x]):
                if y not in seen:
                    seen.add(y)
                    st.append(y)
        return False

    def _classes(self):
        col = {}
        for b in range(256):
            col.setdefault(tuple(self.trans[i][b] for i in range(len(self.trans))), set()).add(b)
        return [frozenset(v) for v in col.values()]

    def step(self, st, b):
        return self.trans[st][b]

    def can_extend(self, st, first_set):
        """exists a non-empty run of alphabet bytes, starting with a byte of first_set, leading from st to an accepting state"""
        for cls in self.classes:
            c = cls & first_set & self.alphabet
            if c and self.live[self.trans[st][min(c)]]:
                return min(c)
        return None


def class_name(bs):
    bs = frozenset(bs)
    names = [('upper', frozenset(range(65, 91))), ('lower', frozenset(range(97, 123))), ('digit', frozenset(range(48, 58)))]
    parts = []
    rest = set(bs)
    for n, s in names:
        if s <= bs:
            parts.append(n)
            rest -= s
    if len(rest) > 8:
        return '|'.join(parts + ['<%d other bytes>' % len(rest)])
    return '|'.join(parts + [repr(chr(b)) if 32 <= b < 127 else '0x%02x' % b for b in sorted(rest)]) or '<none>'


# ------------------------------------------------------------------------------------------------ predicates
def _pred(f):
    return frozenset(b for b in range(256) if f(b))


U8_PREDS = {
    'is_ascii_alphabetic': _pred(lambda b: 65 <= b <= 90 or 97 <= b <= 122),
    'is_ascii_alphanumeric': _pred(lambda b: 65 <= b <= 90 or 97 <= b <= 122 or 48 <= b <= 57),
    'is_ascii_uppercase': _pred(lambda b: 65 <= b <= 90),
    'is_ascii_lowercase': _pred(lambda b: 97 <= b <= 122),
    'is_ascii_digit': _pred(lambda b: 48 <= b <= 57),
    'is_ascii_hexdigit': _pred(lambda b: 48 <= b <= 57 or 65 <= b <= 70 or 97 <= b <= 102),
    'is_ascii_punctuation': _pred(lambda b: 33 <= b <= 47 or 58 <= b <= 64 or 91 <= b <= 96 or 123 <= b <= 126),
    'is_ascii_graphic': _pred(lambda b: 33 <= b <= 126),
    'is_ascii_whitespace': _pred(lambda b: b in (9, 10, 12, 13, 32)),
    'is_ascii_control': _pred(lambda b: b < 32 or b == 127),
    'is_ascii': _pred(lambda b: b < 128),
}


def pred_of_callee(path):
    """byte set for `core::num::<impl u8>::is_ascii_*` / `core::char::methods::<impl char>::is_ascii_*` callee paths"""
    if not path:
        return None
    name = path.split('::')[-1]
    if ('<impl u8>' in path or '<impl char>' in path) and name in U8_PREDS:
        return U8_PREDS[name]
    return None


# ------------------------------------------------------------------------------------------------ splits
class NeedByte(Exception):
    def __init__(self, idx, part):
        self.idx, self.part = idx, part


class NeedLen(Exception):
    """decide whether L > t"""

    def __init__(self, t):
        self.t = t


class Panic(Exception):
    def __init__(self, what):
        self.what = what


class PathDead(Exception):
    pass


VARIANT_INDEX = {'Option': {'None': 0, 'Some': 1}, 'Result': {'Ok': 0, 'Err': 1}, 'ControlFlow': {'Continue': 0, 'Break': 1}}


class Native:
    """pseudo body of a modelled library loop (Iterator::position / all / any / count over slice iterators)"""

    def __init__(self, name):
        self.name = name
        self.path = 'native::' + name
        self.d = None


NATIVE = {n: Native(n) for n in ('position', 'all', 'any', 'count', 'find', 'next', 'comb', 'wparse')}
# winnow's ASCII class parsers: name -> (byte class, minimum count)
W_CLASS = {'multispace0': (frozenset(b' \t\r\n'), 0), 'multispace1': (frozenset(b' \t\r\n'), 1),
           'space0': (frozenset(b' \t'), 0), 'space1': (frozenset(b' \t'), 1)}
OPTION = 'std::option::Option'


def some(v):
    return ('adt', OPTION, 'Some', (v,))


NONE = ('adt', OPTION, 'None', ())


class State:
    __slots__ = ('frames', 'cells', 'know', 'lo', 'hi', 'dfa_pos', 'dfa_st', 'trace', 'steps', 'mark_st', 'mark_pos')

    def clone(self):
        s = State()
        s.frames = [(b, blk, dict(loc), dest) for b, blk, loc, dest in self.frames]
        s.cells = dict(self.cells)
        s.know = dict(self.know)
        s.lo, s.hi = self.lo, self.hi
        s.dfa_pos, s.dfa_st = self.dfa_pos, self.dfa_st
        s.trace = self.trace
        s.steps = self.steps
        s.mark_st, s.mark_pos = self.mark_st, self.mark_pos
        return s


class Outcome:
    def __init__(self, kind, state, detail):
        self.kind, self.state, self.detail = kind, state, detail


class Scanner:
    def __init__(self, crate, body, dfa, max_states=60000, follow=None, mode='name'):
        self.crate, self.body, self.dfa = crate, body, dfa
        self.mode = mode      # 'name': returns the scanned name; 'skip': consumes a prefix of the input (white space, comments)
        self.marker = None    # skip mode: DFA of the prefix after which a returned slice (the comment text) must start (longest match)
        # bytes that may legally follow a name in a text of the grammar (the run of name bytes ends there); default: everything outside the alphabet
        self.follow = frozenset(follow) - dfa.alphabet if follow is not None else ALL - dfa.alphabet
        self.max_states = max_states
        self.bodies = {b.path: b for b in crate.bodies}
        self.maxconst = 1
        self._seen_bodies = set()
        self._scan_consts(body)
        self.W = self.maxconst + 3
        self.outcomes = []
        self.n_states = 0
        self.n_merged = 0
        self.n_forks = 0
        self.stopped_early = False
        self.inlined = set()

    # ---------------------------------------------------------------- constants
    def _scan_consts(self, body):
        if body.path in self._seen_bodies:
            return
        self._seen_bodies.add(body.path)

        def visit(o):
            if isinstance(o, dict):
                if o.get('k') == 'const' and isinstance(o.get('val'), int) and o.get('ty') in ('usize', 'isize', 'u32', 'i32', 'u64', 'i64'):
                    if 0 <= o['val'] <= 4096:
                        self.maxconst = max(self.maxconst, o['val'])
                for v in o.values():
                    visit(v)
            elif isinstance(o, list):
                for v in o:
                    visit(v)
        visit(body.d['blocks'])
        for blk in body.d['blocks']:
            t = blk['term']
            if t['k'] == 'call' and t['callee'].get('local'):
                cb = self.bodies.get(t['callee'].get('resolved') if t['callee'].get('resolved_local') else t['callee'].get('def'))
                if cb is not None:
                    self._scan_consts(cb)

    # ---------------------------------------------------------------- knowledge
    def kn(self, st, i):
        return st.know.get(i, ALL)

    def in_bounds(self, st, i):
        """True/False/None"""
        if st.lo > i:
            return True
        if st.hi is not None and st.hi <= i:
            return False
        return None

    def byte_decide(self, st, i, part):
        """is S[i] in part?  (index must be in bounds: caller guarantees)"""
        k = self.kn(st, i)
        if k <= part:
            return True
        if not (k & part):
            return False
        raise NeedByte(i, part)

    def len_gt(self, st, t):
        """L > t ?"""
        if st.lo > t:
            return True
        if st.hi is not None and st.hi <= t:
            return False
        raise NeedLen(t)

    # ---------------------------------------------------------------- values
    def int_cmp(self, st, op, a, b):
        # values: ('int',k) or ('len',c) meaning L + c
        def lin(v):
            if v[0] == 'int':
                return (0, v[1])
            if v[0] == 'len':
                return (1, v[1])
            raise Unsupported('integer comparison on %r' % (v,))
        (ca, ka), (cb, kb) = lin(a), lin(b)
        # a - b = (ca-cb) L + (ka-kb)
        c, k = ca - cb, ka - kb
        if c == 0:
            d = k
            return {'Lt': d < 0, 'Le': d <= 0, 'Gt': d > 0, 'Ge': d >= 0, 'Eq': d == 0, 'Ne': d != 0}[op]
        if c == -1:
            # a - b = k - L ; a<b <=> L > k
            if op == 'Lt':
                return self.len_gt(st, k)
            if op == 'Ge':
                return not self.len_gt(st, k)
            if op == 'Le':      # k - L <= 0 <=> L >= k <=> L > k-1
                return self.len_gt(st, k - 1)
            if op == 'Gt':
                return not self.len_gt(st, k - 1)
            if op in ('Eq', 'Ne'):
                e = self.len_gt(st, k - 1) and not self.len_gt(st, k)
                return e if op == 'Eq' else not e
        if c == 1:
            inv = {'Lt': 'Gt', 'Le': 'Ge', 'Gt': 'Lt', 'Ge': 'Le', 'Eq': 'Eq', 'Ne': 'Ne'}[op]
            return self.int_cmp(st, inv, b, a)
        raise Unsupported('comparison of lengths')

    def slice_len(self, v):
        _, a, b = v
        if b == 'END':
            return ('len', -a)
        return ('int', b - a)

    # ---------------------------------------------------------------- places
    def load(self, st, loc):
        if loc[0] == 'cell':
            v = st.cells[loc[1]]
            path = loc[2]
        else:
            _, fi, l, path = loc
            v = st.frames[fi][2].get(l, ('uninit',))
        for f in path:
            v = self.field(v, f)
        return v

    def field(self, v, f):
        if v[0] == 'tuple':
            return v[1][f]
        if v[0] == 'adt':
            return v[3][f]
        if v[0] == 'opaque':
            return v
        if v[0] == 'range':
            return v[2 + f]
        if v[0] == 'closure':
            return v[2][f]
        raise Unsupported('field %r of %r' % (f, v[:2]))

    def store(self, st, loc, val):
        if loc[0] == 'cell':
            root = st.cells.get(loc[1], ('uninit',))
            path = loc[2]
        else:
            _, fi, l, path = loc
            root = st.frames[fi][2].get(l, ('uninit',))

        def put(v, path):
            if not path:
                return val
            f = path[0]
            if v[0] == 'tuple':
                items = list(v[1])
                items[f] = put(items[f], path[1:])
                return ('tuple', tuple(items))
            if v[0] == 'adt':
                items = list(v[3])
                items[f] = put(items[f], path[1:])
                return ('adt', v[1], v[2], tuple(items))
            raise Unsupported('store into field of %r' % (v[:2],))
        nv = put(root, path)
        if loc[0] == 'cell':
            st.cells[loc[1]] = nv
        else:
            st.frames[loc[1]][2][loc[2]] = nv

    def eval_place(self, st, fi, place):
        cur = ('loc', ('local', fi, place['l'], ()))
        for p in place.get('p') or []:
            if p == '*':
                v = self.load(st, cur[1]) if cur[0] == 'loc' else cur[1]
                if v[0] == 'ref':
                    cur = ('loc', v[1])
                elif v[0] == 'slice':
                    cur = ('val', ('region', v[1], v[2]))
                elif v[0] == 'byteref':
                    cur = ('val', ('byte', v[1]))
                elif v[0] == 'opaque':
                    cur = ('val', v)
                elif v[0] == 'rv':
                    cur = ('val', v[1])
                else:
                    raise Unsupported('deref of %r' % (v[:2],))
            elif isinstance(p, dict) and 'idx' in p:
                v = self.load(st, cur[1]) if cur[0] == 'loc' else cur[1]
                iv = st.frames[fi][2].get(p['idx'])
                if v[0] != 'region' or iv is None or iv[0] != 'int':
                    raise Unsupported('index projection on %r by %r' % (v[:1], iv))
                cur = ('val', ('byte', v[1] + iv[1]))
            elif isinstance(p, dict) and 'sub_from' in p:
                # slice pattern `[a, b, rest @ ..]` / `[head @ .., z]`: the sub-slice from `sub_from` to `sub_to` (counted from the end when from_end)
                v = self.load(st, cur[1]) if cur[0] == 'loc' else cur[1]
                if v[0] != 'region':
                    raise Unsupported('subslice projection on %r' % (v[:1],))
                if p.get('from_end'):
                    if p.get('sub_to', 0) != 0:
                        if v[2] == 'END':
                            raise Unsupported('subslice that ends before the end of an open-ended slice')
                        cur = ('val', ('region', v[1] + p['sub_from'], v[2] - p['sub_to']))
                    else:
                        cur = ('val', ('region', v[1] + p['sub_from'], v[2]))
                else:
                    cur = ('val', ('region', v[1] + p['sub_from'], v[1] + p['sub_to']))
            elif isinstance(p, dict) and 'cidx' in p and not p.get('from_end'):
                v = self.load(st, cur[1]) if cur[0] == 'loc' else cur[1]
                if v[0] != 'region':
                    raise Unsupported('constant index projection on %r' % (v[:1],))
                cur = ('val', ('byte', v[1] + p['cidx']))
            elif isinstance(p, dict) and 'f' in p:
                if cur[0] == 'loc':
                    loc = cur[1]
                    cur = ('loc', (loc[0], loc[1], loc[2] + (p['f'],)) if loc[0] == 'cell' else ('local', loc[1], loc[2], loc[3] + (p['f'],)))
                else:
                    cur = ('val', self.field(cur[1], p['f']))
            elif isinstance(p, dict) and 'dc' in p:
                pass
            else:
                raise Unsupported('projection %r' % (p,))
        return cur

    def read_place(self, st, fi, place):
        cur = self.eval_place(st, fi, place)
        return self.load(st, cur[1]) if cur[0] == 'loc' else cur[1]

    def operand(self, st, fi, op):
        if op['k'] in ('copy', 'move'):
            v = self.read_place(st, fi, op['place'])
            if v[0] == 'byte':
                self.require_in_bounds(st, v[1])
            return v
        if op['k'] == 'const':
            ty = op.get('ty', '')
            if op.get('promoted'):
                return self.promoted(st.frames[fi][0], op)
            if 'fn' in op:
                return ('fn', op['fn'])
            if isinstance(op.get('bytes'), list):
                return ('rv', ('cbytes', tuple(op['bytes'])))
            if isinstance(op.get('str'), str):
                return ('rv', ('cbytes', tuple(op['str'].encode())))
            if ty == 'bool':
                return ('bool', bool(op.get('val')) if 'val' in op else op.get('s') == 'true')
            if ty == 'u8' and 'val' in op:
                return ('bconst', op['val'])
            if ty == 'char' and 'val' in op:
                return ('bconst', op['val']) if op['val'] < 256 else ('opaque', frozenset())
            if isinstance(op.get('val'), int):
                return ('int', op['val'])
            if ty == '()':
                return ('unit',)
            return ('opaque', frozenset())
        raise Unsupported('operand %r' % (op.get('k'),))

    def promoted(self, body, op):
        """value of a promoted constant, evaluated from its (straight-line) statements"""
        import re
        m = re.search(r'promoted\[(\d+)\]', op.get('s', ''))
        prom = body.d.get('promoted') or []
        if not m or int(m.group(1)) >= len(prom):
            return ('opaque', frozenset())
        env = {}

        def val(txt):
            txt = txt.strip()
            mm = re.fullmatch(r'(?:move |copy )?_(\d+)', txt)
            if mm:
                return env.get(int(mm.group(1)), ('opaque', frozenset()))
            mm = re.fullmatch(r'const (\d+)_u8', txt)
            if mm:
                return ('bconst', int(mm.group(1)))
            mm = re.fullmatch(r"const '(.)'", txt)
            if mm and ord(mm.group(1)) < 256:
                return ('bconst', ord(mm.group(1)))
            mm = re.fullmatch(r'const (\d+)_(?:usize|isize|u\d+|i\d+)', txt)
            if mm:
                return ('int', int(mm.group(1)))
            mm = re.fullmatch(r'const (true|false)', txt)
            if mm:
                return ('bool', mm.group(1) == 'true')
            mm = re.fullmatch(r'&(?:mut )?\(\*_(\d+)\)', txt)
            if mm:
                v = env.get(int(mm.group(1)), ('opaque', frozenset()))
                return v if v[0] == 'rv' else ('opaque', frozenset())
            mm = re.fullmatch(r'&(?:mut )?_(\d+)', txt)
            if mm:
                return ('rv', env.get(int(mm.group(1)), ('opaque', frozenset())))
            mm = re.fullmatch(r'(?:std|core)::option::Option::<.*>::Some\((.*)\)', txt)
            if mm:
                return some(val(mm.group(1)))
            if re.fullmatch(r'(?:std|core)::option::Option::<.*>::None', txt):
                return NONE
            return ('opaque', frozenset())
        for line in prom[int(m.group(1))]:
            mm = re.fullmatch(r'_(\d+) = (.*)', line.strip())
            if mm:
                env[int(mm.group(1))] = val(mm.group(2))
        return env.get(0, ('opaque', frozenset()))

    def require_in_bounds(self, st, i):
        if i < 0:
            raise Panic('negative index')
        if not self.len_gt(st, i):
            raise Panic('byte %d read beyond the end of the input' % i)

    # ---------------------------------------------------------------- rvalues
    def byte_set_of(self, v):
        """for a byte-valued abstract value: ('idx', i) or ('const', b)"""
        if v[0] == 'byte':
            return ('idx', v[1])
        if v[0] == 'bconst':
            return ('const', v[1])
        return None

    def cmp_bytes(self, st, op, a, b):
        x, y = self.byte_set_of(a), self.byte_set_of(b)
        if x is None or y is None:
            raise Unsupported('byte comparison on %r / %r' % (a[:1], b[:1]))
        if x[0] == 'const' and y[0] == 'const':
            d = x[1] - y[1]
            return {'Lt': d < 0, 'Le': d <= 0, 'Gt': d > 0, 'Ge': d >= 0, 'Eq': d == 0, 'Ne': d != 0}[op]
        if x[0] == 'const':
            inv = {'Lt': 'Gt', 'Le': 'Ge', 'Gt': 'Lt', 'Ge': 'Le', 'Eq': 'Eq', 'Ne': 'Ne'}[op]
            return self.cmp_bytes(st, inv, b, a)
        if y[0] != 'const':
            if x[1] == y[1]:
                return {'Lt': False, 'Le': True, 'Gt': False, 'Ge': True, 'Eq': True, 'Ne': False}[op]
            raise Unsupported('comparison of two input bytes')
        c = y[1]
        part = frozenset(b_ for b_ in range(256) if {'Lt': b_ < c, 'Le': b_ <= c, 'Gt': b_ > c, 'Ge': b_ >= c, 'Eq': b_ == c, 'Ne': b_ != c}[op])
        return self.byte_decide(st, x[1], part)

    def rvalue(self, st, fi, rv):
        k = rv['k']
        if k == 'use':
            return self.operand(st, fi, rv['op'])
        if k in ('ref', 'rawptr'):
            cur = self.eval_place(st, fi, rv['place'])
            if cur[0] == 'loc':
                return ('ref', cur[1])
            v = cur[1]
            if v[0] == 'region':
                return ('slice', v[1], v[2])
            if v[0] == 'byte':
                return ('byteref', v[1])
            if v[0] == 'opaque':
                return v
            return ('rv', v)
        if k == 'un':
            a = self.operand(st, fi, rv['a'])
            if rv['op'] == 'PtrMetadata':
                if a[0] == 'slice':
                    return self.slice_len(a)
                if a[0] == 'opaque':
                    return a
                raise Unsupported('PtrMetadata of %r' % (a[:1],))
            if rv['op'] == 'Not':
                if a[0] == 'bool':
                    return ('bool', not a[1])
            raise Unsupported('unary %s on %r' % (rv['op'], a[:1]))
        if k == 'bin':
            op = rv['op']
            a = self.operand(st, fi, rv['a'])
            b = self.operand(st, fi, rv['b'])
            if op in ('Lt', 'Le', 'Gt', 'Ge', 'Eq', 'Ne'):
                if a[0] in ('byte', 'bconst') or b[0] in ('byte', 'bconst'):
                    return ('bool', self.cmp_bytes(st, op, a, b))
                if a[0] == 'bool' and b[0] == 'bool' and op in ('Eq', 'Ne'):
                    return ('bool', (a[1] == b[1]) == (op == 'Eq'))
                return ('bool', self.int_cmp(st, op, a, b))
            if op in ('BitAnd', 'BitOr', 'BitXor') and a[0] == 'bool' and b[0] == 'bool':
                return ('bool', {'BitAnd': a[1] and b[1], 'BitOr': a[1] or b[1], 'BitXor': a[1] != b[1]}[op])
            if op in ('Add', 'Sub', 'AddWithOverflow', 'SubWithOverflow', 'AddUnchecked', 'SubUnchecked'):
                sign = 1 if op.startswith('Add') else -1
                ovf = False
                if a[0] == 'int' and b[0] == 'int':
                    r = a[1] + sign * b[1]
                    if r < 0:
                        ovf = True
                        r = 0
                    res = ('int', r)
                elif a[0] == 'len' and b[0] == 'int':
                    # L + c - k must stay >= 0: decide
                    c = a[1] + sign * b[1]
                    if sign < 0 and not self.len_gt(st, -c - 1):
                        ovf = True
                    res = ('len', c)
                elif a[0] == 'int' and b[0] == 'len' and sign > 0:
                    res = ('len', b[1] + a[1])
                elif a[0] == 'int' and b[0] == 'len' and sign < 0:
                    raise Unsupported('position minus length')
                else:
                    raise Unsupported('arithmetic %s on %r, %r' % (op, a[:1], b[:1]))
                if op.endswith('WithOverflow'):
                    return ('tuple', (res, ('bool', ovf)))
                if ovf:
                    raise Panic('arithmetic underflow')
                return res
            raise Unsupported('binary %s on %r, %r' % (op, a[:1], b[:1]))
        if k == 'aggr':
            ops = tuple(self.operand(st, fi, o) for o in rv.get('ops', []))
            if rv.get('kind') == 'tuple':
                return ('tuple', ops)
            if rv.get('kind') == 'closure':
                return ('closure', rv.get('def'), ops)
            if rv.get('kind') == 'adt':
                adt = rv.get('adt', '')
                if adt.startswith('std::ops::Range') or adt.startswith('core::ops::Range') or adt.startswith('core::ops::range::Range'):
                    kind = adt.split('::')[-1]
                    if kind == 'Range':
                        return ('range', kind, ops[0], ops[1])
                    if kind == 'RangeFrom':
                        return ('range', kind, ops[0], None)
                    if kind == 'RangeTo':
                        return ('range', kind, None, ops[0])
                    if kind == 'RangeFull':
                        return ('range', kind, None, None)
                    raise Unsupported('range kind %s' % kind)
                return ('adt', adt, rv.get('variant'), ops)
            return ('opaque', self.deps(ops))
        if k == 'discr':
            v = self.read_place(st, fi, rv['place'])
            if v[0] == 'adt':
                tab = VARIANT_INDEX.get(v[1].split('::')[-1])
                if tab is None or v[2] not in tab:
                    raise Unsupported('discriminant of %s::%s' % (v[1], v[2]))
                return ('int', tab[v[2]])
            raise Unsupported('discriminant of %r' % (v[:1],))
        if k == 'cast':
            a = self.operand(st, fi, rv['op'])
            if a[0] in ('byte', 'bconst', 'int', 'slice', 'opaque', 'ref', 'byteref', 'fn', 'rv'):
                return a
            raise Unsupported('cast of %r' % (a[:1],))
        raise Unsupported('rvalue %s' % k)

    def deps(self, vals):
        out = set()
        for v in vals:
            if v[0] == 'slice':
                out.add(v)
            elif v[0] == 'opaque':
                out |= v[1]
            elif v[0] in ('tuple',):
                out |= self.deps(v[1])
            elif v[0] == 'adt':
                out |= self.deps(v[3])
        return frozenset(out)

    # ---------------------------------------------------------------- calls
    def call(self, st, fi, t):
        """returns ('value', v) or ('enter', body, args)"""
        c = t['callee']
        path = c.get('resolved') or c.get('def') or ''
        name = c.get('name') or path.split('::')[-1]
        args = [self.operand(st, fi, a) for a in t['args']]
        if t.get('fnptr') or not path:
            raise Unsupported('indirect call')
        # a call into the panic machinery (assert! / debug_assert! / panic! / unreachable!) that is reached is a panic of the scanner
        dp_ = c.get('def') or ''
        if 'panicking::' in dp_ or name in ('panic', 'panic_fmt', 'begin_panic', 'panic_explicit', 'unreachable_display', 'assert_failed', 'panic_nounwind'):
            raise Panic('explicit panic / failed assertion (%s) at line %s' % (t.get('mac') or name, t.get('line')))
        ps = pred_of_callee(path)
        if ps is not None:
            return ('value', ('bool', self.apply_pred(st, ps, args[0])))
        # ---- winnow's token parsers over &[u8] (lexical helpers of the IDL parser)
        dpath = c.get('def') or ''
        if dpath == 'winnow::token::literal' and args:
            tag = self.strip_ref(st, args[0])
            if tag[0] == 'cbytes':
                return ('value', ('wparser', 'literal', tag[1]))
            if tag[0] == 'bconst':
                return ('value', ('wparser', 'literal', (tag[1],)))
            raise Unsupported('literal(..) with a non-constant tag')
        if dpath == 'winnow::token::take_while' and len(args) == 2:
            rg = args[0]
            if rg[0] == 'range' and rg[1] == 'RangeFrom' and rg[2][0] == 'int':
                return ('value', ('wparser', 'take_while', rg[2][1], args[1]))
            if rg[0] == 'int':
                raise Unsupported('take_while with an exact count')
            raise Unsupported('take_while range %r' % (rg[:2],))
        if dpath == 'winnow::Parser::parse_next' and len(args) == 2:
            pz = self.strip_ref(st, args[0])
            if pz[0] == 'fn' and pz[1].split('::')[-1] in W_CLASS and pz[1].startswith('winnow::ascii::'):
                cls, lo_ = W_CLASS[pz[1].split('::')[-1]]
                pz = ('wparser', 'class', lo_, cls)
            if pz[0] == 'wparser' and args[1][0] == 'ref':
                return ('wparse', pz, args[1][1])
            raise Unsupported('parse_next of %r' % (pz[:2],))
        sl = 'core::slice::<impl [T]>::'
        if path.startswith(sl):
            s = args[0]
            if s[0] == 'opaque':
                return ('value', ('opaque', self.deps(args)))
            if s[0] != 'slice':
                raise Unsupported('%s on %r' % (name, s[:1]))
            ln = self.slice_len(s)
            if name == 'len':
                return ('value', ln)
            if name == 'is_empty':
                return ('value', ('bool', self.int_cmp(st, 'Eq', ln, ('int', 0))))
            if name in ('last', 'first'):
                if self.int_cmp(st, 'Eq', ln, ('int', 0)):
                    return ('value', ('adt', 'std::option::Option', 'None', ()))
                if name == 'first':
                    return ('value', ('adt', 'std::option::Option', 'Some', (('byteref', s[1]),)))
                if s[2] == 'END':
                    raise Unsupported('last() of an open-ended slice')
                return ('value', ('adt', 'std::option::Option', 'Some', (('byteref', s[2] - 1),)))
            if name == 'get' and args[1][0] == 'int':
                if self.int_cmp(st, 'Lt', args[1], ln):
                    return ('value', ('adt', 'std::option::Option', 'Some', (('byteref', s[1] + args[1][1]),)))
                return ('value', ('adt', 'std::option::Option', 'None', ()))
            if name == 'iter':
                return ('value', ('iter', s[1], s[2], 'ref'))
            if name == 'split_first':
                if self.int_cmp(st, 'Eq', ln, ('int', 0)):
                    return ('value', NONE)
                return ('value', some(('tuple', (('byteref', s[1]), ('slice', s[1] + 1, s[2])))))
            if name == 'strip_prefix' and len(args) == 2:
                nd = self.strip_ref(st, args[1])
                if nd[0] == 'cbytes':
                    hit = True
                    for k_, bt in enumerate(nd[1]):
                        i_ = s[1] + k_
                        if (s[2] != 'END' and i_ >= s[2]) or (s[2] == 'END' and not self.len_gt(st, i_)) or not self.byte_decide(st, i_, frozenset([bt])):
                            hit = False
                            break
                    return ('value', some(('slice', s[1] + len(nd[1]), s[2])) if hit else NONE)
            if name == 'starts_with' and len(args) == 2:
                nd = self.strip_ref(st, args[1])
                if nd[0] == 'cbytes':
                    for k_, bt in enumerate(nd[1]):
                        i_ = s[1] + k_
                        if s[2] != 'END' and i_ >= s[2]:
                            return ('value', ('bool', False))
                        if s[2] == 'END' and not self.len_gt(st, i_):
                            return ('value', ('bool', False))
                        if not self.byte_decide(st, i_, frozenset([bt])):
                            return ('value', ('bool', False))
                    return ('value', ('bool', True))
            raise Unsupported('slice::%s' % name)
        # ---- iterators over byte slices
        if path.startswith(sl) and False:
            pass
        if name == 'into_iter' and args and args[0][0] in ('iter', 'tw'):
            return ('value', args[0])
        if name == 'into_iter' and args and args[0][0] == 'slice':
            return ('value', ('iter', args[0][1], args[0][2], 'ref'))
        if (c.get('trait') or '').endswith('::iter::Iterator') or '::iter::Iterator::' in path or path.startswith('std::iter::Iterator::'):
            it = args[0]
            itref = None
            if it[0] == 'ref':
                itref = it[1]
                it = self.load(st, itref)
            if it[0] in ('iter', 'tw'):
                if name in ('copied', 'cloned') and it[0] == 'iter':
                    return ('value', ('iter', it[1], it[2], 'val'))
                if name == 'by_ref':
                    return ('value', args[0])
                if name == 'take_while' and it[0] == 'iter':
                    return ('value', ('tw', it, args[1]))
                if name in ('position', 'all', 'any', 'count', 'find', 'next'):
                    return ('native', name, it, itref, args[1] if len(args) > 1 else None)
                raise Unsupported('Iterator::%s' % name)
        if path.endswith('::branch') and (c.get('trait') or '').endswith('::Try'):
            o = args[0]
            if o[0] == 'adt' and o[1].endswith('Option'):
                if o[2] == 'Some':
                    return ('value', ('adt', 'std::ops::ControlFlow', 'Continue', (o[3][0],)))
                return ('value', ('adt', 'std::ops::ControlFlow', 'Break', (NONE,)))
            if o[0] == 'adt' and o[1].endswith('Result'):
                if o[2] == 'Ok':
                    return ('value', ('adt', 'std::ops::ControlFlow', 'Continue', (o[3][0],)))
                return ('value', ('adt', 'std::ops::ControlFlow', 'Break', (o,)))
            raise Unsupported('Try::branch on %r' % (o[:1],))
        if name == 'from_residual' and (c.get('trait') or '').endswith('::FromResidual'):
            r = args[0]
            if r[0] == 'adt' and r[1].endswith('Option'):
                return ('value', NONE)
            if r[0] == 'adt' and r[1].endswith('Result'):
                return ('value', ('adt', 'std::result::Result', 'Err', (('opaque', self.deps(r[3])),)))
            raise Unsupported('from_residual on %r' % (r[:1],))
        if name == 'eq' or name == 'ne':
            if len(args) == 2:
                r = self.value_eq(st, self.strip_ref(st, args[0]), self.strip_ref(st, args[1]))
                if r is not None:
                    return ('value', ('bool', r == (name == 'eq')))
        if name == 'index' and 'slice' in path and args[0][0] == 'slice' and args[1][0] == 'range':
            return ('value', self.subslice(st, args[0], args[1]))
        if '::option::Option::<T>::' in path:
            o = args[0]
            if o[0] == 'adt' and o[1].endswith('Option'):
                is_some = o[2] == 'Some'
                if name == 'is_some':
                    return ('value', ('bool', is_some))
                if name == 'is_none':
                    return ('value', ('bool', not is_some))
                if name in ('is_some_and', 'is_none_or'):
                    if not is_some:
                        return ('value', ('bool', name == 'is_none_or'))
                    f = args[1]
                    if f[0] == 'fn':
                        ps = pred_of_callee(f[1])
                        if ps is not None:
                            return ('value', ('bool', self.apply_pred(st, ps, o[3][0])))
                    if f[0] == 'closure':
                        return ('closure-call', f, [o[3][0]])
                    raise Unsupported('Option::%s with %r' % (name, f[:1]))
                if name in ('copied', 'cloned'):
                    if not is_some:
                        return ('value', o)
                    x = o[3][0]
                    return ('value', ('adt', o[1], 'Some', ((('byte', x[1]) if x[0] == 'byteref' else x),)))
                if name in ('unwrap', 'expect'):
                    if not is_some:
                        raise Panic('unwrap of None')
                    return ('value', o[3][0])
                if name == 'unwrap_or':
                    return ('value', o[3][0] if is_some else args[1])
                if name == 'unwrap_or_default' and is_some:
                    return ('value', o[3][0])
                if name == 'ok_or':
                    return ('value', ('adt', 'std::result::Result', 'Ok', (o[3][0],)) if is_some else ('adt', 'std::result::Result', 'Err', (args[1],)))
                if name == 'ok_or_else':
                    if is_some:
                        return ('value', ('adt', 'std::result::Result', 'Ok', (o[3][0],)))
                    return ('comb', 'wrap-err', args[1], [])
                if name == 'unwrap_or_else':
                    if is_some:
                        return ('value', o[3][0])
                    return ('comb', 'id', args[1], [])
                if name == 'map':
                    if not is_some:
                        return ('value', NONE)
                    return ('comb', 'wrap-some', args[1], [o[3][0]])
                if name == 'and_then':
                    if not is_some:
                        return ('value', NONE)
                    return ('comb', 'id', args[1], [o[3][0]])
                if name == 'filter':
                    if not is_some:
                        return ('value', NONE)
                    return ('comb', ('keep-if', o), args[1], [('rv', o[3][0])])
                if name == 'map_or':
                    if not is_some:
                        return ('value', args[1])
                    return ('comb', 'id', args[2], [o[3][0]])
                if name == 'or':
                    return ('value', o if is_some else args[1])
                raise Unsupported('Option::%s' % name)
        if path in ('core::str::from_utf8', 'core::str::converts::from_utf8', 'std::str::from_utf8'):
            return ('value', ('adt', 'std::result::Result', 'Ok', (('opaque', self.deps(args)),)))
        if path.endswith('from_utf8_unchecked'):
            return ('value', ('opaque', self.deps(args)))
        if path.endswith('::<impl bool>::then_some') and args[0][0] == 'bool':
            return ('value', some(args[1]) if args[0][1] else NONE)
        if path.endswith('::<impl bool>::then') and args[0][0] == 'bool':
            if not args[0][1]:
                return ('value', NONE)
            return ('comb', 'wrap-some', args[1], [])
        if ('::result::Result::<T, E>::' in path) and args and args[0][0] == 'adt':
            r = args[0]
            isok = r[2] == 'Ok'
            if name == 'is_ok':
                return ('value', ('bool', isok))
            if name == 'is_err':
                return ('value', ('bool', not isok))
            if name == 'ok':
                return ('value', some(r[3][0]) if isok else NONE)
            if name == 'map_err':
                if isok:
                    return ('value', r)
                return ('comb', 'wrap-err', args[1], [r[3][0]])
            if name == 'map':
                if not isok:
                    return ('value', r)
                return ('comb', 'wrap-ok', args[1], [r[3][0]])
        if ('::result::Result::<T, E>::' in path) and name in ('unwrap', 'expect', 'unwrap_or_default'):
            r = args[0]
            if r[0] == 'adt':
                if r[2] == 'Ok':
                    return ('value', r[3][0])
                raise Panic('unwrap of Err')
        if c.get('local') or c.get('resolved_local'):
            cb = self.bodies.get(path) or self.bodies.get(c.get('def'))
            root_mod = '::'.join(self.body.path.split('::')[:-1])
            if cb is not None and (self.mode == 'name' or cb.path.startswith(root_mod + '::')):
                return ('enter', cb, args)
        # opaque call: must not be able to mutate modelled state
        for a_op, a in zip(t['args'], args):
            ty = (a_op.get('place') or {}).get('ty') or a_op.get('ty') or ''
            if a[0] == 'ref' and ty.startswith('&mut'):
                raise Unsupported('call of %s with a mutable reference to scanner state' % path)
        return ('value', ('opaque', self.deps(args)))

    def strip_ref(self, st, v):
        while v[0] in ('ref', 'rv'):
            v = self.load(st, v[1]) if v[0] == 'ref' else v[1]
        return v

    def value_eq(self, st, a, b):
        """structural equality of Option / byte values; None when not modelled"""
        if a[0] == 'adt' and b[0] == 'adt' and a[1].endswith('Option') and b[1].endswith('Option'):
            if a[2] != b[2]:
                return False
            if a[2] == 'None':
                return True
            return self.value_eq(st, self.strip_ref(st, a[3][0]), self.strip_ref(st, b[3][0]))
        if a[0] == 'byteref':
            a = ('byte', a[1])
        if b[0] == 'byteref':
            b = ('byte', b[1])
        if a[0] in ('byte', 'bconst') and b[0] in ('byte', 'bconst'):
            for v in (a, b):
                if v[0] == 'byte':
                    self.require_in_bounds(st, v[1])
            return self.cmp_bytes(st, 'Eq', a, b)
        if a[0] == 'int' and b[0] == 'int':
            return a[1] == b[1]
        return None

    def apply_pred(self, st, ps, v):
        if v[0] == 'byteref' or v[0] == 'byte':
            self.require_in_bounds(st, v[1])
            return self.byte_decide(st, v[1], ps)
        if v[0] == 'bconst':
            return v[1] in ps
        if v[0] == 'ref':
            x = self.load(st, v[1])
            return self.apply_pred(st, ps, x)
        if v[0] == 'rv':
            return self.apply_pred(st, ps, v[1])
        raise Unsupported('class predicate on %r' % (v[:1],))

    def subslice(self, st, s, r):
        _, a, b = s
        kind, lo, hi = r[1], r[2], r[3]
        na, nb = a, b
        if lo is not None:
            if lo[0] != 'int':
                raise Unsupported('range start %r' % (lo[:1],))
            na = a + lo[1]
        if hi is not None:
            if hi[0] != 'int':
                raise Unsupported('range end %r' % (hi[:1],))
            nb = a + hi[1]
        # bounds: na <= nb <= end
        if nb != 'END':
            if na > nb:
                raise Panic('slice start beyond its end')
            if b == 'END':
                if nb > 0 and not self.len_gt(st, nb - 1):
                    raise Panic('slice end %d beyond the input' % nb)
            elif nb > b:
                raise Panic('slice end beyond the slice')
        else:
            if na > 0 and not self.len_gt(st, na - 1):
                raise Panic('slice start %d beyond the input' % na)
        return ('slice', na, nb)

    # ---------------------------------------------------------------- block execution
    def exec_block(self, st):
        """execute the top frame's current block; returns list of (kind, state) with kind in next/ret"""
        fi = len(st.frames) - 1
        body, bi, loc, dest = st.frames[fi]
        if isinstance(body, Native):
            return self.exec_native(st, fi)
        blk = body.d['blocks'][bi]
        for s in blk['stmts']:
            if s['k'] == 'assign':
                v = self.norm(st, self.rvalue(st, fi, s['rv']))
                cur = self.eval_place(st, fi, s['place'])
                if cur[0] != 'loc':
                    raise Unsupported('assignment through %r' % (cur[1][:1],))
                self.store(st, cur[1], v)
            elif s['k'] in ('live', 'dead'):
                if s['k'] == 'dead':
                    loc.pop(s['l'], None)
            elif s['k'] in ('nop', 'fake', 'retag', 'coverage', 'ascribe', 'place_mention', 'const_eval_counter'):
                pass
            elif s['k'] == 'setdiscr':
                raise Unsupported('SetDiscriminant')
            else:
                pass
        t = blk['term']
        k = t['k']

        def goto(b):
            st.frames[fi] = (body, b, loc, dest)
            return st
        if k == 'goto':
            return goto(t['t'])
        if k == 'drop':
            return goto(t['t'])
        if k == 'assert':
            c = self.operand(st, fi, t['cond'])
            if c[0] != 'bool':
                raise Unsupported('assert on %r' % (c[:1],))
            if c[1] != t['expected']:
                raise Panic('%s assertion at line %s' % (t.get('msg'), t.get('line')))
            return goto(t['t'])
        if k == 'switch':
            v = self.operand(st, fi, t['op'])
            if v[0] == 'bool':
                x = 1 if v[1] else 0
            elif v[0] == 'int':
                x = v[1]
            elif v[0] == 'bconst':
                x = v[1]
            elif v[0] == 'byte':
                vals = [a[0] for a in t['arms']]
                kset = self.kn(st, v[1])
                hit = [a for a in vals if a in kset]
                if len(kset) == 1:
                    x = min(kset)
                elif not hit:
                    x = None
                else:
                    raise NeedByte(v[1], frozenset([hit[0]]))
            else:
                raise Unsupported('switch on %r' % (v[:1],))
            for val, tgt in t['arms']:
                if x is not None and val == x:
                    return goto(tgt)
            if t.get('otherwise') is None:
                raise PathDead()
            return goto(t['otherwise'])
        if k == 'call':
            r = self.call(st, fi, t)
            if r[0] == 'native':
                _, nm, it, itref, clo = r
                cur = self.eval_place(st, fi, t['dest'])
                st.frames[fi] = (body, t.get('t'), loc, dest)
                st.frames.append((NATIVE[nm], 0, {'it': it, 'itref': itref, 'clo': clo, 'n': ('int', 0)}, cur[1]))
                return st
            if r[0] == 'wparse':
                cur = self.eval_place(st, fi, t['dest'])
                st.frames[fi] = (body, t.get('t'), loc, dest)
                inp = self.load(st, r[2])
                if inp[0] != 'slice' or inp[2] != 'END':
                    raise Unsupported('parse_next on %r' % (inp[:1],))
                st.frames.append((NATIVE['wparse'], 0, {'p': r[1], 'cell': r[2], 'start': ('int', inp[1]), 'cur': ('int', inp[1]), 'any': ('bool', False)}, cur[1]))
                return st
            if r[0] == 'comb':
                _, how, clo, cargs = r
                cur = self.eval_place(st, fi, t['dest'])
                st.frames[fi] = (body, t.get('t'), loc, dest)
                st.frames.append((NATIVE['comb'], 0, {'how': how, 'clo': clo, 'args': tuple(cargs)}, cur[1]))
                return st
            if r[0] == 'closure-call':
                cur = self.eval_place(st, fi, t['dest'])
                st.frames[fi] = (body, t.get('t'), loc, dest)
                self.push_closure(st, r[1], r[2], cur[1])
                return st
            if r[0] == 'value':
                cur = self.eval_place(st, fi, t['dest'])
                self.store(st, cur[1], self.norm(st, r[1]))
                if t.get('t') is None:
                    raise PathDead()
                return goto(t['t'])
            _, cb, args = r
            if len(st.frames) > 6:
                raise Unsupported('call depth')
            self.inlined.add(cb.path)
            cur = self.eval_place(st, fi, t['dest'])
            st.frames[fi] = (body, t.get('t'), loc, dest)
            nl = {}
            for i, a in enumerate(args):
                nl[i + 1] = a
            st.frames.append((cb, 0, nl, cur[1]))
            return st
        if k == 'return':
            rv = loc.get(0, ('unit',))
            if fi == 0:
                return ('ret', rv)
            return self.pop_frame(st, rv)
        if k in ('unreachable',):
            raise PathDead()
        if k in ('resume', 'abort'):
            raise PathDead()
        raise Unsupported('terminator %s' % k)

    def pop_frame(self, st, rv):
        _, _, _, dest = st.frames.pop()
        self.store(st, dest, self.norm(st, rv))
        pb, pblk, ploc, pdest = st.frames[-1]
        if pblk is None:
            raise PathDead()
        return st

    def norm(self, st, v):
        if v[0] == 'len' and st.hi is not None and st.lo == st.hi:
            return ('int', st.lo + v[1])
        return v

    def push_closure(self, st, clo, args, dest):
        if clo[0] == 'fn':
            ps = pred_of_callee(clo[1])
            if ps is None:
                cb = self.bodies.get(clo[1])
                if cb is None:
                    raise Unsupported('call of function value %s' % clo[1])
                st.frames.append((cb, 0, {i + 1: a for i, a in enumerate(args)}, dest))
                return
            self.store(st, dest, ('bool', self.apply_pred(st, ps, args[0])))
            return
        if clo[0] != 'closure':
            raise Unsupported('call of %r' % (clo[:1],))
        cb = self.bodies.get(clo[1])
        if cb is None:
            raise Unsupported('closure body %s not found' % clo[1])
        if len(st.frames) > 8:
            raise Unsupported('call depth')
        self.inlined.add(cb.path)
        self_ty = (cb.d['locals'][1].get('ty') or '') if len(cb.d['locals']) > 1 else ''
        nl = {1: ('rv', clo) if self_ty.startswith('&') else clo}
        for i, a in enumerate(args):
            nl[i + 2] = a
        st.frames.append((cb, 0, nl, dest))

    def iter_next(self, st, it):
        """-> (element or None, advanced iterator) for a plain slice iterator"""
        _, i, b, mode = it
        if b == 'END':
            more = self.len_gt(st, i)
        else:
            more = i < b
        if not more:
            return None, it
        return (('byteref', i) if mode == 'ref' else ('byte', i)), ('iter', i + 1, b, mode)

    def exec_native(self, st, fi):
        nat, phase, loc, dest = st.frames[fi]
        op = nat.name
        if op == 'comb':
            if phase == 0:
                st.frames[fi] = (nat, 1, loc, dest)
                clo = loc['clo']
                if clo[0] not in ('closure', 'fn'):
                    # a non-closure callable (e.g. a constructor path): opaque result
                    loc['r'] = ('opaque', self.deps(loc['args']))
                    return st
                self.push_closure(st, clo, list(loc['args']), ('local', fi, 'r', ()))
                return st
            r = loc['r']
            how = loc['how']
            if how == 'id':
                v = r
            elif how == 'wrap-some':
                v = some(r)
            elif how == 'wrap-err':
                v = ('adt', 'std::result::Result', 'Err', (r,))
            elif how == 'wrap-ok':
                v = ('adt', 'std::result::Result', 'Ok', (r,))
            elif isinstance(how, tuple) and how[0] == 'keep-if':
                if r[0] != 'bool':
                    raise Unsupported('filter predicate result')
                v = how[1] if r[1] else NONE
            else:
                raise Unsupported('combinator %r' % (how,))
            return self.pop_frame(st, v)
        if op == 'wparse':
            pz = loc['p']
            start, cur_ = loc['start'][1], loc['cur'][1]

            def w_ok():
                self.store(st, loc['cell'], ('slice', cur_, 'END'))
                return self.pop_frame(st, ('adt', 'std::result::Result', 'Ok', (('slice', start, cur_),)))

            def w_err():
                return self.pop_frame(st, ('adt', 'std::result::Result', 'Err', (('opaque', frozenset()),)))
            if pz[1] == 'literal':
                for k_, bt in enumerate(pz[2]):
                    if not self.len_gt(st, start + k_) or not self.byte_decide(st, start + k_, frozenset([bt])):
                        return w_err()
                cur_ = start + len(pz[2])
                return w_ok()
            if pz[1] == 'class':
                # one byte per step so that the loop closes under the position abstraction
                if self.len_gt(st, cur_) and self.byte_decide(st, cur_, pz[3]):
                    loc['cur'] = ('int', cur_ + 1)
                    loc['any'] = ('bool', True)
                    return st
                if pz[2] >= 1 and not loc['any'][1]:
                    return w_err()
                if pz[2] > 1:
                    raise Unsupported('class parser with a minimum of %d' % pz[2])
                return w_ok()
            if pz[1] == 'take_while':
                if phase == 0:
                    if not self.len_gt(st, cur_):
                        phase = 2
                    else:
                        st.frames[fi] = (nat, 1, loc, dest)
                        self.push_closure(st, pz[3], [('byte', cur_)], ('local', fi, 'r', ()))
                        return st
                if phase == 1:
                    r = loc.pop('r')
                    if r[0] != 'bool':
                        raise Unsupported('take_while predicate result %r' % (r[:1],))
                    if r[1]:
                        loc['cur'] = ('int', cur_ + 1)
                        loc['any'] = ('bool', True)
                        st.frames[fi] = (nat, 0, loc, dest)
                        return st
                    phase = 2
                if phase == 2:
                    if pz[2] >= 1 and not loc['any'][1]:
                        return w_err()
                    if pz[2] > 1:
                        raise Unsupported('take_while with a minimum of %d' % pz[2])
                    return w_ok()
            raise Unsupported('winnow parser %r' % (pz[1],))
        it = loc['it']
        tw = None
        base = it
        if it[0] == 'tw':
            tw = it[2]
            base = it[1]

        def set_phase(p):
            st.frames[fi] = (nat, p, loc, dest)
            return st

        def finish(v):
            if loc.get('itref') is not None:
                self.store(st, loc['itref'], loc['it'])
            return self.pop_frame(st, v)

        def exhausted():
            if op == 'position' or op == 'find' or op == 'next':
                return finish(NONE)
            if op == 'all':
                return finish(('bool', True))
            if op == 'any':
                return finish(('bool', False))
            return finish(loc['n'])
        if phase == 0:
            el, nb = self.iter_next(st, base)
            if el is None:
                return exhausted()
            loc['it'] = ('tw', nb, tw) if tw is not None else nb
            loc['el'] = el
            if tw is not None:
                set_phase(1)
                self.push_closure(st, tw, [('rv', el)], ('local', fi, 'r', ()))
                return st
            return set_phase(2)
        if phase == 1:
            r = loc.pop('r')
            if r[0] != 'bool':
                raise Unsupported('take_while predicate result %r' % (r[:1],))
            if not r[1]:
                return exhausted()
            return set_phase(2)
        if phase == 2:
            el = loc['el']
            if op == 'count':
                loc['n'] = ('int', loc['n'][1] + 1)
                return set_phase(0)
            if op == 'next':
                return finish(some(el))
            set_phase(3)
            arg = ('rv', el) if op == 'find' else el
            self.push_closure(st, loc['clo'], [arg], ('local', fi, 'r', ()))
            return st
        if phase == 3:
            r = loc.pop('r')
            el = loc['el']
            if r[0] != 'bool':
                raise Unsupported('closure result %r' % (r[:1],))
            if op == 'position':
                if r[1]:
                    return finish(some(loc['n']))
                loc['n'] = ('int', loc['n'][1] + 1)
                return set_phase(0)
            if op == 'find':
                if r[1]:
                    return finish(some(el))
                return set_phase(0)
            if op == 'all':
                if not r[1]:
                    return finish(('bool', False))
                return set_phase(0)
            if op == 'any':
                if r[1]:
                    return finish(('bool', True))
                return set_phase(0)
        raise Unsupported('native %s phase %s' % (op, phase))

    # ---------------------------------------------------------------- DFA bookkeeping
    def max_pos(self, st):
        m = 0

        def visit(v):
            nonlocal m
            if not isinstance(v, tuple) or not v:
                return
            if not isinstance(v[0], str):
                for x in v:
                    visit(x)
                return
            if v[0] == 'keep-if':
                visit(v[1])
            elif v[0] == 'int':
                m = max(m, v[1])
            elif v[0] == 'len':
                m = max(m, -v[1])
            elif v[0] == 'slice':
                m = max(m, v[1], v[2] if v[2] != 'END' else 0)
            elif v[0] in ('byte', 'byteref'):
                m = max(m, v[1])
            elif v[0] == 'iter':
                m = max(m, v[1], v[2] if v[2] != 'END' else 0)
            elif v[0] == 'tw':
                visit(v[1])
                visit(v[2])
            elif v[0] == 'rv':
                visit(v[1])
            elif v[0] == 'closure':
                for x in v[2]:
                    visit(x)
            elif v[0] == 'tuple':
                for x in v[1]:
                    visit(x)
            elif v[0] == 'adt':
                for x in v[3]:
                    visit(x)
            elif v[0] == 'range':
                for x in v[2:]:
                    if x is not None:
                        visit(x)
        for _, _, loc, _ in st.frames:
            for v in loc.values():
                if v is not None:
                    visit(v)
        for v in st.cells.values():
            visit(v)
        return m

    def dfa_advance(self, st, upto):
        """consume S[dfa_pos .. upto) - raises NeedByte/NeedLen when the class of a byte is not decided"""
        while st.dfa_pos < upto:
            i = st.dfa_pos
            if not self.len_gt(st, i):
                raise Unsupported('cursor beyond the end of the input')
            k = self.kn(st, i)
            for cls in self.dfa.classes:
                if k <= cls:
                    break
            else:
                for cls in self.dfa.classes:
                    if k & cls:
                        raise NeedByte(i, cls)
            if self.marker is not None and st.mark_pos is None:
                for cls in self.marker.classes:
                    if k <= cls:
                        break
                else:
                    for cls in self.marker.classes:
                        if k & cls:
                            raise NeedByte(i, cls)
                q2 = self.marker.step(st.mark_st, min(k))
                if self.marker.live[q2]:
                    st.mark_st = q2
                else:
                    st.mark_pos = i      # the longest match of the marker prefix ends in front of this byte
            st.dfa_st = self.dfa.step(st.dfa_st, min(k))
            st.trace = st.trace + (class_name(k),)
            if len(st.trace) > 12:
                st.trace = ('...',) + st.trace[-10:]
            st.dfa_pos += 1
            st.know.pop(i, None)

    # ---------------------------------------------------------------- canonical key
    def key(self, st):
        M = self.max_pos(st)
        small = self.maxconst + 1
        W = self.W

        def ki(k):
            if k <= small:
                return k
            if M - k <= W:
                return ('H', k - M)
            return 'LAG'

        def kv(v):
            if not isinstance(v, tuple) or not v:
                return v
            t = v[0]
            if not isinstance(t, str):
                return tuple(kv(x) for x in v)
            if t == 'int':
                return ('int', ki(v[1]))
            if t == 'len':
                return ('len', ki(-v[1])) if v[1] <= 0 else v
            if t == 'slice':
                return ('slice', ki(v[1]), v[2] if v[2] == 'END' else ki(v[2]))
            if t in ('byte', 'byteref'):
                return (t, ki(v[1]))
            if t == 'iter':
                return ('iter', ki(v[1]), v[2] if v[2] == 'END' else ki(v[2]), v[3])
            if t == 'tw':
                return ('tw', kv(v[1]), kv(v[2]))
            if t == 'rv':
                return ('rv', kv(v[1]))
            if t == 'closure':
                return ('closure', v[1], tuple(kv(x) for x in v[2]))
            if t == 'keep-if':
                return ('keep-if', kv(v[1]))
            if t == 'tuple':
                return ('tuple', tuple(kv(x) for x in v[1]))
            if t == 'adt':
                return ('adt', v[1], v[2], tuple(kv(x) for x in v[3]))
            if t == 'range':
                return ('range', v[1], None if v[2] is None else kv(v[2]), None if v[3] is None else kv(v[3]))
            if t == 'opaque':
                return ('opaque', tuple(sorted((repr(kv(x)) for x in v[1]))))
            if t == 'wparser':
                return ('wparser',) + tuple(kv(x) if isinstance(x, tuple) and x and isinstance(x[0], str) else x for x in v[1:])
            if t == 'ref':
                return v
            return v
        fr = tuple((b.path, blk, tuple(sorted(((l, kv(v) if v is not None else None) for l, v in loc.items()), key=lambda x: repr(x[0]))), dest) for b, blk, loc, dest in st.frames)
        cells = tuple(sorted((c, kv(v)) for c, v in st.cells.items()))
        know = tuple(sorted(((ki(i), tuple(sorted(s))) for i, s in st.know.items() if s != ALL), key=repr))
        return (fr, cells, know, ki(st.lo), None if st.hi is None else ki(st.hi), ki(st.dfa_pos), st.dfa_st, st.mark_st, None if st.mark_pos is None else ki(st.mark_pos))

    # ---------------------------------------------------------------- driver
    def run(self):
        st = State()
        st.frames = [(self.body, 0, {1: ('ref', ('cell', 0, ()))}, None)]
        st.cells = {0: ('slice', 0, 'END')}
        st.know = {}
        st.lo, st.hi = 0, None
        st.dfa_pos, st.dfa_st = 0, 0
        st.mark_st, st.mark_pos = 0, None
        st.trace = ()
        st.steps = 0
        import collections
        work = collections.deque([st])
        seen = set()
        self.stopped_early = False
        while work:
            st = work.popleft()
            if sum(1 for o in self.outcomes if o.kind not in ('ok', 'err')) >= 40:
                self.stopped_early = True       # enough counterexamples: the verdict is settled, the rest of the space is not needed
                break
            if self.n_states > self.max_states:
                raise Unsupported('state space exceeds %d abstract states (positions not closed by the window abstraction)' % self.max_states)
            # DFA follows the furthest cursor at distance 2, and knowledge behind it is forgotten
            snap = st.clone()
            try:
                M = self.max_pos(st)
                self.dfa_advance(st, M - 2)
                for i in [i for i in st.know if i < st.dfa_pos]:
                    del st.know[i]
                key = self.key(st)
                if key in seen:
                    self.n_merged += 1
                    continue
                seen.add(key)
                self.n_states += 1
                snap = st.clone()
                r = self.exec_block(st)
            except NeedByte as e:
                self.n_forks += 1
                k = self.kn(snap, e.idx)
                for part in (k & e.part, k - e.part):
                    if part:
                        s2 = snap.clone()
                        s2.know[e.idx] = frozenset(part)
                        work.append(s2)
                continue
            except NeedLen as e:
                self.n_forks += 1
                s2 = snap.clone()
                s2.lo = max(s2.lo, e.t + 1)
                if s2.hi is None or s2.lo <= s2.hi:
                    work.append(s2)
                s3 = snap.clone()
                s3.hi = e.t if s3.hi is None else min(s3.hi, e.t)
                if s3.lo <= s3.hi:
                    work.append(s3)
                continue
            except Panic as e:
                self.outcomes.append(Outcome('panic', snap, e.what))
                continue
            except PathDead:
                continue
            if isinstance(r, tuple) and r[0] == 'ret':
                self.finish(st, r[1])
                continue
            r.steps += 1
            work.append(r)
        return self.outcomes

    def describe(self, st, upto=None):
        parts = list(st.trace)
        i = st.dfa_pos
        end = upto if upto is not None else i
        while i < end:
            parts.append(class_name(self.kn(st, i)))
            i += 1
        return ' '.join(parts) if parts else '<empty>'

    def finish(self, st, rv):
        """verdict at a return of the scanner; may need further splits (returns new work items)"""
        snap = st.clone()
        try:
            if self.mode == 'skip':
                return self.finish_skip(st, rv)
            if rv[0] == 'adt' and rv[1].endswith('Result') and rv[2] == 'Ok':
                deps = self.deps(rv[3])
                if len(deps) != 1:
                    raise Unsupported('Ok value derived from %d slices' % len(deps))
                _, a, b = next(iter(deps))
                if b == 'END':
                    raise Unsupported('Ok value is an open-ended slice')
                inp = st.cells[0]
                if a != 0:
                    self.outcomes.append(Outcome('bad-start', st, 'the returned name starts at offset %d of the input' % a))
                    return
                if b < st.dfa_pos:
                    raise Unsupported('the returned name ends behind the window')
                self.dfa_advance(st, b)
                where = self.describe(st)
                if not self.dfa.accept[st.dfa_st]:
                    self.outcomes.append(Outcome('unsound', st, 'returns Ok for the byte sequence [%s], which is not in the language /%s/' % (where, self.dfa.regex)))
                    return
                if inp[0] != 'slice' or inp[1] != b or not (inp[2] == 'END' or (st.hi is not None and st.lo == st.hi == inp[2])):
                    self.outcomes.append(Outcome('consume', st, 'returns the name S[0..%d) but leaves the input at %r' % (b, inp)))
                    return
                # the name must not be cut short: the next byte, if any, must not continue a legal name
                w = self.witness(st, min_len=1)
                if w is not None:
                    self.outcomes.append(Outcome('cut', st, 'returns Ok([%s]) although the input can continue to the longer legal name [%s]: the name is cut short' % (where, w)))
                    return
                self.outcomes.append(Outcome('ok', st, where))
                return
            if rv[0] == 'adt' and rv[1].endswith('Result') and rv[2] == 'Err':
                # is there an input consistent with the knowledge whose maximal alphabet run is in the language?
                w = self.witness(st)
                if w is not None:
                    self.outcomes.append(Outcome('incomplete', st, 'returns Err although the input can be the legal name [%s] (in /%s/) followed by a delimiter' % (w, self.dfa.regex)))
                else:
                    self.outcomes.append(Outcome('err', st, self.describe(st)))
                return
            raise Unsupported('return value %r' % (rv[:3],))
        except NeedByte as e:
            k = self.kn(snap, e.idx)
            for part in (k & e.part, k - e.part):
                if part:
                    s2 = snap.clone()
                    s2.know[e.idx] = frozenset(part)
                    self.finish(s2, rv)
        except NeedLen as e:
            s2 = snap.clone()
            s2.lo = max(s2.lo, e.t + 1)
            if s2.hi is None or s2.lo <= s2.hi:
                self.finish(s2, rv)
            s3 = snap.clone()
            s3.hi = e.t if s3.hi is None else min(s3.hi, e.t)
            if s3.lo <= s3.hi:
                self.finish(s3, rv)

    def finish_skip(self, st, rv):
        """verdict at a return of a consumer (white space / comment skipper): the consumed prefix S[0..b) is in the reference language and is
        the longest such prefix (no byte that can follow on this path extends it); an Err return is legitimate only when what was read is
        not a viable prefix of the language"""
        if not (rv[0] == 'adt' and rv[1].endswith('Result')):
            raise Unsupported('return value %r' % (rv[:3],))
        inp = st.cells[0]
        if inp[0] != 'slice' or inp[2] != 'END':
            raise Unsupported('input left as %r' % (inp,))
        b = inp[1]
        if rv[2] == 'Err':
            # the function gave up: legitimate only if no input on this path starts with a non-empty word of the language
            q, i = st.dfa_st, st.dfa_pos
            if i == 0:
                viable = self.dfa.accept[0]
                if not viable and self.in_bounds(st, 0) is not False:
                    viable = any(self.dfa.live[self.dfa.step(0, min(cls & self.kn(st, 0)))] for cls in self.dfa.classes if cls & self.kn(st, 0))
            else:
                viable = self.dfa.live[q]
            if viable:
                self.outcomes.append(Outcome('incomplete', st, 'returns Err although the input read so far [%s] begins a word of /%s/' % (self.describe(st), self.dfa.regex)))
            else:
                self.outcomes.append(Outcome('err', st, self.describe(st)))
            return
        if b < st.dfa_pos:
            raise Unsupported('the input was moved back behind the window')
        self.dfa_advance(st, b)
        where = self.describe(st)
        if not self.dfa.accept[st.dfa_st]:
            self.outcomes.append(Outcome('unsound', st, 'consumes the byte sequence [%s], which is not in the language /%s/' % (where, self.dfa.regex)))
            return
        # a returned slice (the comment text) must end where the consumption ends
        for d in self.deps(rv[3]):
            if d[2] == 'END' or d[2] != b:
                self.outcomes.append(Outcome('consume', st, 'returns S[%s..%s) but leaves the input at %d' % (d[1], d[2], b)))
                return
            if self.marker is not None:
                m = b if st.mark_pos is None else st.mark_pos
                if not self.marker.accept[st.mark_st] and st.mark_pos is None:
                    m = None
                if m is None or d[1] != m:
                    self.outcomes.append(Outcome('text-start', st, 'returns a text that starts %s the end of the longest /%s/ prefix of [%s] (text S[%s..%s), prefix ends at %s)'
                                                 % ('before' if (m is not None and d[1] < m) else 'after', self.marker.regex, where, d[1], d[2], m)))
                    return
        if self.len_gt(st, b):
            k = self.kn(st, b)
            ext = set()
            for cls in self.dfa.classes:
                c = cls & k
                if c and self.dfa.live[self.dfa.step(st.dfa_st, min(c))]:
                    ext |= c
            if ext:
                self.outcomes.append(Outcome('cut', st, 'stops after [%s] although the next byte can be %s, which continues a word of /%s/' % (where, class_name(frozenset(ext)), self.dfa.regex)))
                return
        self.outcomes.append(Outcome('ok', st, where))

    def witness(self, st, min_len=0):
        """search for a stream consistent with (know, lo, hi) such that the maximal run of alphabet bytes from index 0 is accepted.
        Bytes before dfa_pos are fixed (state dfa_st).  Returns a description or None."""
        dfa = self.dfa
        i = st.dfa_pos
        horizon = max([i] + [j + 1 for j in st.know]) + 1
        seen = set()
        stack = [(i, st.dfa_st, ())]
        while stack:
            i, q, acc = stack.pop()
            if (i, q) in seen:
                continue
            seen.add((i, q))
            n = i - st.dfa_pos
            ib = self.in_bounds(st, i)
            k = self.kn(st, i)
            # the run may end here: end of input, or a non-alphabet byte
            can_end = (ib is not True) or bool(k & self.follow)
            if can_end and dfa.accept[q] and n >= min_len:
                return ' '.join(st.trace + acc) or '<empty>'
            if ib is False:
                continue
            if i >= horizon:
                # unconstrained from here on
                if dfa.live[q]:
                    return ' '.join(st.trace + acc + ('...',))
                continue
            for cls in dfa.classes:
                c = cls & k & dfa.alphabet
                if c:
                    q2 = dfa.step(q, min(c))
                    if dfa.live[q2]:
                        stack.append((i + 1, q2, acc + (class_name(c),)))
        return None


def analyse(crate, body, regex, marker=None, **kw):
    dfa = DFA(regex)
    sc = Scanner(crate, body, dfa, **kw)
    if marker is not None:
        sc.marker = DFA(marker)
    outs = sc.run()
    return sc, outs
