"""C11 - data borrowed from a received reply is never overwritten while still usable (R11.1 - R11.3)."""
import re
import mir
from mir import op_place, op_str, place_is_local
import common as C
import launder as L

RC = 'read_connection::ReadConnection'

META = {
    'level': 'other',
    'explanation': (
        'Escape analysis of lifetime-laundering sites (reference -> raw pointer -> reference in one body) over the MIR of every '
        'non-test body of zlink-core, zlink-tokio and zlink-smol: (R11.1) no laundered `&mut ReadConnection` (or anything that '
        'can carry it, by type) reaches the return place of the function or is stored behind a `&mut` that outlives the call - '
        'i.e. values decoded zero-copy from the receive buffer are never handed out with a lifetime the borrow checker did not '
        'tie to the borrow of the connection; every laundering site in the three crates is enumerated and either discharged or '
        'reported, new sites are reported automatically; (R11.2, armed only while an escaping site exists) the receive buffer is '
        'mutated by nothing but the enumerated operations of the read loop - the transport read into buffer[read cursor..], the '
        'sentinel store at buffer[read cursor], growth by extend - and by nothing at all outside ReadConnection\'s own receive '
        'functions: any further writer (copy_within, truncate, shrink_to_fit, clear, fill, drain, mem::take ...) moves or frees '
        'bytes that escaped items still borrow; (R11.4, same condition) the reply stream receives only while replies are owed and never after a failed '
        'receive (rule code of C06: R06.3-R06.5) - every extra receive rewrites the buffer under items already handed out; (R11.3) `unsafe` lifetime extension by transmute / from_raw_parts is absent. '
        'Not produced: a demonstration of the overwrite (needs execution).'),
    'assumptions': ['a value can hold a borrow only if its type mentions a reference, a lifetime or a type parameter (Rust type system)'],
}

BUF_ACCESS = {'deref_mut', 'deref', 'index_mut', 'index', 'as_mut_slice', 'as_slice', 'len', 'capacity', 'is_empty', 'iter', 'as_ptr', 'get', 'first', 'last',
              'as_ref', 'borrow'}
BUF_ALLOWED_MUT = {'extend': 'growth by one step when full', 'extend_from_slice': 'growth by one step when full (slice form; amount and guard are R17.1 / R17.2)',
                   'read': 'transport read into buffer[read cursor..]'}


def buffer_field(crate):
    a = [v for p, v in crate.adts.items() if p.endswith(RC)]
    if not a:
        return None
    vf = [f['name'] for f in a[0]['variants'][0]['fields'] if f['ty'].replace(' ', '').startswith(('std::vec::Vec<u8>', 'alloc::vec::Vec<u8>'))]
    return vf[0] if len(vf) == 1 else None


def derives_from_buffer(body, op, bf, depth=8):
    """does this operand point into the receive buffer field (through deref_mut / index_mut / reborrow chains)?"""
    q = op_place(op)
    for _ in range(depth):
        if not q:
            return False
        if any(a and RC in a and n == bf for a, n in mir.place_fields(q)):
            return True
        sd = body.single_def(q['l'])
        if not sd:
            return False
        if sd[2] == 'assign':
            rv = sd[3]['rv']
            if rv['k'] in ('ref', 'rawptr'):
                q = rv['place']
                if any(a and RC in a and n == bf for a, n in mir.place_fields(q)):
                    return True
                q = {'l': q['l'], 'p': None} if q.get('p') and q['p'][0] == '*' else q
                if q.get('p'):
                    return False
                continue
            if rv['k'] in ('use', 'cast'):
                q = op_place(rv['op'])
                continue
            return False
        if sd[2] == 'call' and sd[3]['callee'].get('name') in ('deref_mut', 'index_mut', 'as_mut_slice', 'as_mut', 'get_mut', 'get_unchecked_mut', 'split_at_mut') and sd[3]['args']:
            q = op_place(sd[3]['args'][0])
            continue
        return False
    return False


def check_crate(fx, rep, crate, cfg, all_sites):
    escaping_rc = []
    for body in crate.bodies:
        if body.in_test or (body.mac and 'pin_project' in body.mac):
            continue
        for s in L.sites(body):
            ret, stores, tainted = L.escapes(body, s)
            all_sites.append(s)
            is_rc = RC in (s.referent_ty or '')
            key = '%s|%s' % (s.key(), cfg)
            if is_rc:
                ok = not ret and not stores
                if not ok:
                    escaping_rc.append(s)
                rep.check(ok, 'R11.1', key, C.where(body, s.block, s.idx),
                          'laundered &mut ReadConnection stays inside this activation',
                          'a `&mut ReadConnection` whose lifetime was laundered through a raw pointer %s: items decoded zero-copy from the receive '
                          'buffer are handed out with a lifetime not tied to the borrow of the connection, and the next receive rewrites, grows '
                          '(reallocates) or resets the same buffer while safe code can still read them' % (
                              'reaches the value returned by this function' if ret else 'is stored behind a `&mut` argument for a later call'),
                          {'reaches_return': ret, 'stored_through': [t['callee'].get('name') for _, t, _ in stores],
                           'tainted_named_locals': sorted({body.local_name(l) for l in tainted if body.local_name(l)})[:20]})
            else:
                rep.ok('R11.1', key, C.where(body, s.block, s.idx),
                       'laundering site of %s: not a receive-buffer borrow (obligations of this site are R09.3)' % re.sub(r'<.*', '', s.referent_ty or '?'),
                       nontrivial=False)
    return escaping_rc


def check_buffer_writers(fx, rep, crate, cfg, armed):
    bf = buffer_field(crate)
    if bf is None:
        rep.bad('R11.2', 'anchor|%s' % cfg, '-', 'receive buffer field (Vec<u8> of ReadConnection) not found')
        return
    # read cursor: start of the range handed to ReadHalf::read
    n = 0
    for body in crate.bodies:
        if body.in_test:
            continue
        for b, t in body.iter_terms('call'):
            nm = t['callee'].get('name') or ''
            if nm in BUF_ACCESS or t.get('mac') and 'tracing' in t['mac']:
                continue
            hit = [a for a in t['args'] if derives_from_buffer(body, a, bf)]
            if not hit:
                continue
            q = op_place(hit[0])
            ty = (q or {}).get('ty') or ''
            mutable = ty.startswith('&mut') or ty.startswith('*mut') or not ty.startswith('&')
            if not mutable:
                continue
            n += 1
            in_rc = bool(body.impl_self and RC in body.impl_self)
            allowed = in_rc and nm in BUF_ALLOWED_MUT and (nm != 'read' or 'socket::ReadHalf' in (t['callee'].get('trait') or ''))
            if nm == 'new' or (body.name == 'new' and in_rc):
                allowed = True
            if in_rc and nm == 'resize' and len(t['args']) >= 2:
                # resize(len + n, fill) is the growth step written differently
                import sym as SY
                e = SY.expr(crate, body, t['args'][1])
                if e[0] == 'bin' and e[1] == 'Add' and any(x[0] == 'len' or (x[0] == 'call' and x[1] == 'len') for x in (e[2], e[3])):
                    allowed = True
            key = '%s|buffer-writer|%s|%s' % (body.path, nm, cfg)
            if allowed:
                rep.ok('R11.2', key, C.where(body, b), 'receive buffer mutated by an enumerated operation of the read loop: %s (%s)' % (nm, BUF_ALLOWED_MUT.get(nm, 'constructor')))
            elif armed:
                rep.bad('R11.2', key, C.where(body, b),
                        'the receive buffer is mutated by `%s` %s: while items that escaped the borrow of the connection (R11.1) are still usable this '
                        'moves, overwrites or frees the bytes they point to' % (nm, 'in ' + body.path if in_rc else 'outside ReadConnection'))
            else:
                rep.ok('R11.2', key, C.where(body, b), 'additional buffer writer `%s` (not armed: no laundered borrow escapes)' % nm, nontrivial=False)
        # direct element stores / field replacement
        for b, i, s in body.iter_assigns():
            p = s['place']
            fl = mir.place_fields(p)
            direct = any(a and RC in a and nme == bf for a, nme in fl)
            via = False
            if not direct and p.get('p') and p['p'][0] == '*':
                sd = body.single_def(p['l'])
                if sd and sd[2] == 'call' and sd[3]['callee'].get('name') in ('index_mut', 'get_mut', 'get_unchecked_mut') and derives_from_buffer(body, sd[3]['args'][0], bf):
                    via = True
            if not (direct or via):
                continue
            n += 1
            in_rc = bool(body.impl_self and RC in body.impl_self)
            whole = direct and isinstance((p.get('p') or [None])[-1], dict) and 'f' in (p.get('p') or [None])[-1]
            const0 = s['rv']['k'] == 'use' and s['rv']['op'].get('k') == 'const' and s['rv']['op'].get('val') == 0
            allowed = in_rc and not whole and const0
            key = '%s|buffer-store|%s|%s' % (body.path, 'field' if whole else 'element', cfg)
            if allowed:
                rep.ok('R11.2', key, C.where(body, b, i), 'element store of the sentinel NUL')
            elif armed:
                rep.bad('R11.2', key, C.where(body, b, i), 'the receive buffer %s outside the enumerated read-loop operations while escaped items may borrow from it'
                        % ('field is replaced' if whole else 'is written element-wise with a non-sentinel value'))
            else:
                rep.ok('R11.2', key, C.where(body, b, i), 'additional buffer store (not armed)', nontrivial=False)
    if n < 3:
        rep.bad('R11.2', 'floor|%s' % cfg, '-', 'expected at least 3 writers of the receive buffer (read, sentinel, growth), found %d: anchor lost' % n)


def check(fx, rep, tier):
    rep.rule('R11.1', 'no laundered `&mut ReadConnection` reaches a return value or is stored behind an outliving `&mut` (every laundering site enumerated)')
    rep.rule('R11.2', 'while such an escape exists: the receive buffer is mutated only by the enumerated read-loop operations (transport read into buffer[read cursor..], sentinel store, growth)')
    rep.rule('R11.3', 'no transmute / from_raw_parts lifetime extension in non-test code of the connection modules')
    all_sites = []
    esc = []
    for cfg in ['full'] + (['ws', 'nostd'] if tier == 'thorough' else []):
        crate = fx.crate('zlink_core', cfg)
        e = check_crate(fx, rep, crate, cfg, all_sites)
        esc += e
        check_buffer_writers(fx, rep, crate, cfg, armed=bool(e))
        bad = []
        for body in crate.bodies:
            if body.in_test or not body.path.startswith(('connection::', 'server::', 'reply', 'call')):
                continue
            for b, t in body.iter_terms('call'):
                nm = t['callee'].get('name')
                if nm in ('transmute', 'transmute_copy', 'from_raw_parts', 'from_raw_parts_mut') and not t.get('mac'):
                    bad.append('%s at %s' % (nm, C.where(body, b)))
            for b, i, s in body.iter_assigns():
                if s['rv']['k'] == 'cast' and 'Transmute' in (s['rv'].get('kind') or '') and not s.get('mac') and not s.get('ds'):
                    q = op_place(s['rv']['op'])
                    if q and ('&' in (q.get('ty') or '')):
                        bad.append('transmute at %s' % C.where(body, b, i))
        rep.check(not bad, 'R11.3', 'connection-modules|no-transmute|%s' % cfg, 'zlink-core/src/connection',
                  'no transmute / from_raw_parts of references in the connection and server modules', 'lifetime-extending unsafe primitive(s): %s' % bad)
    for cn in ('zlink_tokio', 'zlink_smol'):
        crate = fx.crate(cn, 'full')
        check_crate(fx, rep, crate, 'full', all_sites)
    # R11.4: while items escape the borrow (R11.1), every additional receive of the stream overwrites what earlier items point to;
    # the stream must therefore read only what it is owed and never again after a failed receive (rule code of C06)
    if esc:
        rep.rule('R11.4', 'while such an escape exists: the reply stream is built with the number of replies really owed, starts a receive only while replies are owed and never after a failed receive (R06.1 / R06.3 / R06.4 / R06.5 of C06)')
        import engine, c06
        sub = engine.Report('C06', 'quick')
        for cfg in ['full']:
            c06.check_stream(fx, sub, fx.crate('zlink_core', cfg), cfg)
            c06.check_chain(fx, sub, fx.crate('zlink_core', cfg), cfg)     # R06.1: the owed count the stream is built with (one frame too many is one overwrite)
        n4 = 0
        for i in sub.insts:
            if i.rule in ('R06.1', 'R06.3', 'R06.4', 'R06.5'):
                n4 += 1
                (rep.ok if i.ok else rep.bad)('R11.4', i.rule + '|' + i.key, i.where,
                                              i.msg if i.ok else i.msg + ' - every extra receive rewrites the buffer that already yielded items still borrow from', i.detail)
        if not n4:
            rep.bad('R11.4', 'anchor', '-', 'reply-stream bookkeeping instances not found')
        # R11.5: items of one batch stay valid only because the read loop completes the whole batch (reads until the last received byte is a
        # terminator) before the first item is handed out, and reads again only when every buffered frame was handed out: a loop that returns
        # at the first complete frame appends to - and may reallocate - the buffer on the next receive while earlier items are alive
        import imports as _imp
        rep.rule('R11.5', 'while such an escape exists: the read loop of C01 reads the transport only when no frame is buffered and returns only when the received bytes end with a '
                          'terminator (R01.2), with the sentinel / cursor-reset pairing that tells "no more buffered frames" (R01.3, R01.6)')
        _imp.rules_of(fx, rep, 'C01', {'R01.2', 'R01.3', 'R01.6', 'R01.9'}, 'R11.5', 'a receive that touches the transport while frames of the previous read are still buffered writes (and may grow, '
                      'i.e. reallocate) the buffer that items already handed out still borrow from')
        # R11.6: the laundered reborrow gets whatever lifetime the closure type `F: FnMut(&'x mut ReadConnection) -> Fut` asks for; today `'x` is
        # the lifetime parameter of the stream type itself, i.e. the borrow of the connection the stream holds.  An impl that introduces a
        # lifetime of its own (`impl<'c, 'r, ..> ReplyStream<'c, ..> where F: FnMut(&'r mut ..), Params: Deserialize<'r>`) lets a caller pick
        # `'r = 'static`: replies then outlive the connection borrow in *safe* code, whatever the read loop does
        rep.rule('R11.6', 'while such an escape exists: the impls of the escaping type introduce no lifetime parameter besides those of the type itself (the lifetime handed to the '
                          'receive closure and to the decoded items is the borrow of the connection the stream holds)')
        import ast as A
        owners = set()
        for s_ in esc:
            nm_ = re.sub(r'<.*', '', (s_.body.impl_self or '')).split('::')[-1].strip()
            if nm_:
                owners.add(nm_)
        n6 = 0
        for fn_, f_ in fx.tpl.files.items():
            if not fn_.startswith('zlink-core/src/'):
                continue
            for it in f_['items']:
                if it.get('k') != 'impl':
                    continue
                st_ = (it.get('self_ty') or '')
                tn = re.sub(r'<.*', '', st_).split('::')[-1]
                if tn not in owners:
                    continue
                n6 += 1
                own_l = set(re.findall(r"'[a-z_][A-Za-z0-9_]*", st_))
                gen_l = set(re.findall(r"'[a-z_][A-Za-z0-9_]*", it.get('generics') or ''))
                extra = sorted(gen_l - own_l - {"'static"})
                wh = it.get('where')
                if wh is None:
                    rep.bad('R11.6', '%s|impl-%s|where-clause-not-extracted' % (tn, it.get('trait') or 'inherent'), '%s:%s' % (fn_, it.get('line')),
                            'the syntax facts carry no where-clause for this impl (zl-tpl too old?)')
                    continue
                used = sorted(l for l in extra if l in wh)
                rep.check(not extra, 'R11.6', '%s|impl-%s|no-free-lifetime' % (tn, it.get('trait') or 'inherent'), '%s:%s' % (fn_, it.get('line')),
                          'impl%s %s: every lifetime is a parameter of the type (%s)' % (it.get('generics') or '', st_, ', '.join(sorted(own_l)) or 'none'),
                          'impl%s %s introduces the lifetime%s %s that the type itself does not carry%s: the laundered `&mut ReadConnection` handed to the receive closure, and '
                          'the items decoded from it, can be given a lifetime longer than the borrow of the connection the stream holds (a caller may name `\'static`), so '
                          'safe code can keep a reply after the borrow ended and read it while the buffer is rewritten'
                          % (it.get('generics') or '', st_, 's' if len(extra) > 1 else '', ', '.join(extra),
                             (' and uses it in its bounds (%s)' % ', '.join(used)) if used else ''))
        if not n6:
            rep.bad('R11.6', 'anchor', '-', 'no impl block of the escaping type(s) %s found in the syntax facts' % sorted(owners))
    rep.note('laundering sites enumerated: %s' % sorted({s.key() for s in all_sites}))
    rep.floor('R11.1', 1, 'laundering sites')
    return META
