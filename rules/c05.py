"""C05 - call, reply and error envelopes follow the Varlink schema and round-trip (R05.1 - R05.7)."""
import re
import ast as A
import serdeshape as SS

META = {
    'level': 'other',
    'explanation': (
        'Table-agreement and template rules over the syntax trees (syn) of the hand-written Serialize/Deserialize impls of '
        'Call, the Reply struct, the ReplyError derive and the proxy templates: (R05.1) the flag table is one set, paired: '
        'every bool field F of Call is written by Serialize as the entry "F": true and read by the filtering map-access under '
        'the literal key "F" into the cell that ends up in field F of the rebuilt Call (key -> cell -> local -> field chain '
        'followed), with `unwrap_or_default()` for an absent flag; (R05.2) each flag entry is written only inside an '
        '`if self.F` with the value true; the flattening serializer forwards keys and values to the envelope map and nothing '
        'else, and accepts only map/struct; (R05.3) each flag arm consumes its value and continues (never reaches the method '
        'type), the wildcard arm hands the key to the seed and returns; (R05.4) ReplyError derive: Serialize and Deserialize '
        'build the qualified name with the same format string, both take field wire names from the same FieldInfo source, the '
        'unit-variant template writes `error` only and the named-variant template `error` then `parameters`, the helper enum is '
        'tagged error/parameters, and no positional pairing (zip) of fields with their wire names is filtered on one side only; '
        '(R05.5) both members of Reply carry skip_serializing_if = Option::is_none; (R05.6) "no parameters" spellings: no '
        'adjacently tagged wire enum (content = "parameters") has a unit variant left to serde\'s default unit decoding '
        '(which rejects {}), in the library\'s own enums, in the derive\'s helper-enum template and for `()` proxy outputs; '
        '(R05.7) every proxy template that maps a success reply to the method output interpolates the shared, unit-aware '
        'extraction. Not decided: decode(encode(c)) == c for all values and member orders.'),
    'assumptions': ['serde derive semantics for tag/content, rename, skip_serializing_if as documented',
                    'serde_derive decodes the content of an adjacently tagged unit variant with deserialize_unit (rejects an empty object)'],
}

FILTERS = {'filter', 'filter_map', 'skip', 'skip_while', 'take_while', 'step_by', 'rev', 'take', 'flat_map', 'flatten', 'chain', 'dedup'}


def find_fn(fns, name, pred=None):
    r = [(f, n, impl) for f, n, impl in fns if n['name'] == name and (pred is None or pred(n, impl))]
    return r


def check_call(fx, rep):
    t = fx.tpl
    # struct Call
    st = [it for fn, it in t.items('zlink-core/src/call/mod.rs', 'struct') if it.get('name') == 'Call']
    if not st:
        rep.bad('R05.1', 'anchor-call-struct', '-', 'struct Call not found')
        return
    flags = [f['name'] for f in st[0]['fields'] if SS.norm_ty(f['ty']) == 'bool']
    other = [f['name'] for f in st[0]['fields'] if SS.norm_ty(f['ty']) != 'bool']
    fns_ser = A.all_fns(t, 'zlink-core/src/call/ser.rs')
    fns_de = A.all_fns(t, 'zlink-core/src/call/de.rs')
    ser = [x for x in fns_ser if x[1]['name'] == 'serialize' and x[2] is not None and (x[2].get('self_ty') or '').replace(' ', '').startswith('Call<')]
    if not ser:
        rep.bad('R05.1', 'anchor-call-serialize', 'zlink-core/src/call/ser.rs', 'impl Serialize for Call not found')
        return
    f, sn, _ = ser[0]
    # ---- serializer side
    written = {}
    uncond = []
    for n, path in A.nodes_with_path(sn['body']):
        if n.get('k') == 'mcall' and n.get('method') in ('serialize_entry', 'serialize_field') and n.get('args') and n['args'][0].get('k') == 'str':
            key = n['args'][0]['value']
            val = n['args'][1] if len(n['args']) > 1 else {}
            is_true = val.get('k') == 'ref' and (val.get('expr') or {}).get('k') == 'bool' and val['expr'].get('value') is True or val.get('k') == 'bool' and val.get('value') is True
            conds = [p for p in path if p.get('k') == 'if']
            guard = None
            for c in conds:
                cn = c.get('cond_node') or {}
                if cn.get('k') == 'field' and (cn.get('base') or {}).get('text') == 'self' and n in list(A.nodes(c.get('then'))):
                    guard = cn.get('member')
            # exactly its own field: an enclosing condition of another kind (the `else` of another flag's test, a match arm, a loop) makes the
            # entry depend on something else than the flag it encodes
            others = [c for c in path if c.get('k') in ('if', 'match', 'while', 'for', 'loop', 'iflet')
                      and not (c.get('k') == 'if' and (c.get('cond_node') or {}).get('k') == 'field' and ((c.get('cond_node') or {}).get('base') or {}).get('text') == 'self'
                               and (c.get('cond_node') or {}).get('member') == guard and n in list(A.nodes(c.get('then'))))]
            if others and guard is not None:
                guard = '%s (and %d other enclosing condition%s, e.g. at line %s)' % (guard, len(others), 's' if len(others) > 1 else '', others[0].get('line'))
            written[key] = {'guard': guard, 'true': is_true, 'line': n.get('line')}
            if guard is None:
                uncond.append(key)
    for F in flags:
        w = written.get(F)
        rep.check(bool(w) and w['guard'] == F and w['true'], 'R05.1', 'call|ser|flag-%s' % F, '%s:%s' % (f, (w or {}).get('line', sn.get('line'))),
                  'Serialize writes "%s": true under `if self.%s`' % (F, F),
                  'flag field `%s` of Call is not written as the entry "%s": true guarded by `self.%s` (found %s)' % (F, F, F, w), w)
    extra = [k for k in written if k not in flags]
    rep.check(not extra, 'R05.2', 'call|ser|no-other-literal-entries', f, 'Serialize writes no literal entry besides the flags (method members come from the method type)',
              'Serialize writes literal entries that are not flag fields of Call: %s' % extra)
    # method goes through the flattening serializer
    flat = [n for n in A.nodes(sn['body']) if n.get('k') == 'mcall' and n.get('method') == 'serialize' and A.text(n.get('recv')) in ('self.' + o for o in other)]
    rep.check(len(flat) == 1, 'R05.2', 'call|ser|method-flattened', f, 'the method type serialises itself into the envelope map through the flattening serializer (once)',
              'the method member is not serialised exactly once through the flattening serializer')
    # flattening serializer forwards
    for mname, want in (('serialize_key', ['serialize_key']), ('serialize_value', ['serialize_value']), ('serialize_field', ['serialize_key', 'serialize_value'])):
        cands = [x for x in fns_ser if x[1]['name'] == mname and x[2] is not None and 'FlatSerializer' in (x[2].get('self_ty') or '')]
        ok = False
        got = None
        if cands:
            calls = [n.get('method') for n in A.nodes(cands[0][1]['body']) if n.get('k') == 'mcall' and A.text(n.get('recv')).startswith('self.0')]
            got = calls
            ok = calls == want
        rep.check(ok, 'R05.2', 'call|flat-serializer|%s' % mname, f, 'FlatSerializer::%s forwards to the envelope map: %s' % (mname, want),
                  'FlatSerializer::%s does not forward exactly %s to the envelope map (found %s)' % (mname, want, got))
    okself = []
    for mname in ('serialize_map', 'serialize_struct'):
        cands = [x for x in fns_ser if x[1]['name'] == mname and x[2] is not None and 'FlatSerializer' in (x[2].get('self_ty') or '')]
        if cands:
            b = cands[0][1]['body']
            tails = [n for n in A.nodes(b) if n.get('k') == 'call' and n.get('func') == 'Ok' and n.get('args') and A.text(n['args'][0]) == 'self']
            okself.append(bool(tails))
    rep.check(okself == [True, True], 'R05.2', 'call|flat-serializer|accepts-map-and-struct', f, 'FlatSerializer accepts maps and structs by returning itself',
              'FlatSerializer does not accept both map and struct method types')
    # ---- deserializer side
    nk = [x for x in fns_de if x[1]['name'] == 'next_key_seed']
    vm = [x for x in fns_de if x[1]['name'] == 'visit_map']
    if not nk or not vm:
        rep.bad('R05.1', 'anchor-call-deserialize', 'zlink-core/src/call/de.rs', 'filtering map-access (next_key_seed) / visit_map not found')
        return
    fd, nkn, _ = nk[0]
    key_to_cellfield = {}
    arms_ok = {}
    wildcard_ok = False
    n_wild = 0
    # a `match` that is the last statement of its loop body: falling out of an arm *is* going on with the next key
    tail_matches = set()
    for lp_ in A.nodes(nkn['body']):
        if lp_.get('k') in ('while', 'whilelet', 'loop', 'for') and isinstance(lp_.get('body'), list) and lp_['body']:
            last_ = lp_['body'][-1]
            while isinstance(last_, dict) and last_.get('k') in ('tail', 'expr', 'semi', 'block') and isinstance(last_.get('expr') or last_.get('body'), (dict, list)):
                inner_ = last_.get('expr') or last_.get('body')
                last_ = inner_[-1] if isinstance(inner_, list) and inner_ else inner_
            if isinstance(last_, dict) and last_.get('k') == 'match':
                tail_matches.add(id(last_))
    for m in A.nodes(nkn['body']):
        if m.get('k') != 'match':
            continue
        for arm in m.get('arms') or []:
            lits = arm.get('lits') or []
            body = arm.get('body')
            if lits:
                sets = [n for n in A.nodes(body) if n.get('k') == 'mcall' and n.get('method') == 'set' and (n.get('recv') or {}).get('k') == 'field'
                        and ((n['recv'].get('base') or {}).get('text') == 'self')]
                consumes = [n for n in A.nodes(body) if n.get('k') == 'mcall' and n.get('method') in ('next_value', 'next_value_seed') and A.text(n.get('recv')) == 'self.inner']
                cont = [n for n in A.nodes(body) if n.get('k') == 'continue']
                rets = [n for n in A.nodes(body) if n.get('k') == 'return' or (n.get('k') == 'mcall' and n.get('method') == 'deserialize')]
                some_v = bool(sets) and sets[0].get('args') and sets[0]['args'][0].get('k') == 'call' and sets[0]['args'][0].get('func') == 'Some'
                for lit in lits:
                    # every dispatch on the key counts (a second `match` in a fast path must obey the same discipline): AND over all of them
                    cfm = sets[0]['recv'].get('member') if sets else None
                    if lit in key_to_cellfield and key_to_cellfield[lit] != cfm:
                        cfm = None
                    key_to_cellfield[lit] = cfm
                    arms_ok[lit] = arms_ok.get(lit, True) and bool(consumes) and (bool(cont) or id(m) in tail_matches) and not rets and some_v
            else:
                des = [n for n in A.nodes(body) if n.get('k') == 'mcall' and n.get('method') == 'deserialize' and A.text(n.get('recv')) == 'seed']
                this_ok = bool(des) and not [n for n in A.nodes(body) if n.get('k') == 'continue']
                wildcard_ok = this_ok if n_wild == 0 else (wildcard_ok and this_ok)
                n_wild += 1
    fv, vmn, _ = vm[0]
    # FilterMap { G: &C_local }
    cell_of_field = {}
    for n in A.nodes(vmn['body']):
        if n.get('k') == 'struct' and 'FilterMap' in (n.get('path') or n.get('name') or ''):
            for fl in n.get('fields') or []:
                v = fl.get('value') or {}
                if v.get('k') == 'ref':
                    cell_of_field[fl.get('name')] = A.text(v.get('expr'))
    # let F = C.get().unwrap_or_default()
    local_of_cell = {}
    defaulted = {}
    for n in A.nodes(vmn['body']):
        if n.get('k') == 'let' and isinstance(n.get('init'), dict):
            root, chain = A.method_chain(n['init'])
            if root and root.get('k') == 'path' and 'get' in chain:
                local_of_cell[root['text']] = n.get('pat')
                defaulted[n.get('pat')] = any(c in ('unwrap_or_default',) for c in chain) or \
                    ('unwrap_or' in chain and 'false' in A.text(n['init']))
    # Call { method, F.. }
    call_fields = {}
    for n in A.nodes(vmn['body']):
        if n.get('k') == 'struct' and re.sub(r'\s', '', (n.get('path') or n.get('name') or '')) in ('Call', 'Self', 'super::Call'):
            for fl in n.get('fields') or []:
                call_fields[fl.get('name')] = A.text(fl.get('value')) if fl.get('value') else fl.get('name')
    for F in flags:
        cf = key_to_cellfield.get(F)
        cell = cell_of_field.get(cf)
        loc = local_of_cell.get(cell)
        dst = [k for k, v in call_fields.items() if v == loc]
        chain = {'key': F, 'filter_field': cf, 'cell': cell, 'local': loc, 'call_field': dst, 'absent_means_false': defaulted.get(loc)}
        rep.check(dst == [F] and bool(defaulted.get(loc)), 'R05.1', 'call|de|flag-%s' % F, '%s:%s' % (fd, nkn.get('line')),
                  'key "%s" -> cell %s -> local %s -> field %s, absent => false' % (F, cell, loc, F),
                  'the value read under key "%s" does not end up in field `%s` of the rebuilt Call with false as default: %s' % (F, F, chain), chain)
        rep.check(bool(arms_ok.get(F)), 'R05.3', 'call|de|flag-arm-%s' % F, '%s:%s' % (fd, nkn.get('line')),
                  'the "%s" arm consumes its value, records Some(v) and continues (hidden from the method type)' % F,
                  'the "%s" arm of the filtering map-access does not (consume the value, record it, continue): the flag leaks to the method type or the value is left in the map' % F)
    extra = [k for k in key_to_cellfield if k not in flags]
    rep.check(not extra and set(key_to_cellfield) == set(flags), 'R05.1', 'call|de|flag-key-set', fd,
              'keys filtered by the map-access = flag fields of Call = %s' % sorted(flags),
              'the keys filtered by the map-access %s differ from the flag fields of Call %s' % (sorted(key_to_cellfield), sorted(flags)))
    rep.check(wildcard_ok, 'R05.3', 'call|de|wildcard-forwards', fd, 'every other key is handed to the method type\'s seed',
              'the wildcard arm does not hand unknown keys to the method type')
    nv = [x for x in fns_de if x[1]['name'] == 'next_value_seed']
    okv = bool(nv) and any(n.get('k') == 'mcall' and n.get('method') == 'next_value_seed' and A.text(n.get('recv')) == 'self.inner' for n in A.nodes(nv[0][1]['body']))
    rep.check(okv, 'R05.3', 'call|de|values-forwarded', fd, 'values of forwarded keys come from the underlying map unchanged', 'next_value_seed does not forward to the underlying map')
    # the filter is complete only if every way of pulling an entry out of it goes through next_key_seed: serde's provided methods
    # (next_entry_seed, next_key, next_entry ..) do - unless the impl overrides one and forwards it to the underlying map
    impl_self = (nk[0][2] or {}).get('self_ty') if nk[0][2] else None
    bypass = []
    for fn_, it_, im_ in fns_de:
        if it_['name'] in ('next_key_seed', 'next_value_seed', 'size_hint') or im_ is None or (im_.get('self_ty') != impl_self):
            continue
        if 'MapAccess' not in (im_.get('trait') or im_.get('of') or 'MapAccess'):
            continue
        inner_calls = [n.get('method') for n in A.nodes(it_['body']) if n.get('k') == 'mcall' and A.text(n.get('recv')).startswith('self.inner')]
        if inner_calls:
            bypass.append('%s -> inner.%s' % (it_['name'], '/'.join(sorted(set(inner_calls)))))
    rep.check(not bypass, 'R05.3', 'call|de|no-unfiltered-entry-point', fd,
              'the filtering map-access overrides no provided MapAccess method with a forward to the underlying map (every entry passes next_key_seed)',
              'the filtering map-access hands out entries of the underlying map without filtering: %s (serde buffers untagged / internally tagged '
              'method types through next_entry_seed, so their flags are swallowed as unknown members and Call::oneway() stays false)' % ', '.join(bypass))
    rep.floor('R05.1', 2 * len(flags) + 1, 'flag pairings (ser + de)')


def check_reply(fx, rep):
    st = [(fn, it) for fn, it in fx.tpl.items('zlink-core/src/reply.rs', 'struct') if it.get('name') == 'Reply']
    if not st:
        rep.bad('R05.5', 'anchor-reply', '-', 'struct Reply not found')
        return
    fn, it = st[0]
    for f in it['fields']:
        fi = SS.field(f)
        rep.check(fi['optional'] and (fi['skip_if'] or '').replace(' ', '') == 'Option::is_none', 'R05.5', 'reply|member-%s' % fi['name'], '%s:%s' % (fn, f.get('line')),
                  'member `%s` is optional and omitted when None' % fi['wire'], 'member `%s` of Reply is not (Option + skip_serializing_if = Option::is_none): it is emitted as null / always' % fi['wire'], fi['attrs'])
    rep.check({SS.field(f)['wire'] for f in it['fields']} == {'parameters', 'continues'}, 'R05.5', 'reply|member-names', fn,
              'Reply has exactly the members `parameters` and `continues`', 'Reply\'s wire members are not {parameters, continues}')


def check_reply_ctor(fx, rep):
    """R05.5 (constructor clause): Reply::new builds a reply whose `continues` member is absent: `Some(false)` there would put "continues":false on every reply
    built without the setter, i.e. encode a member that is not present"""
    import mir
    core = fx.crate('zlink_core', 'full')
    n = 0
    for b in core.bodies:
        if b.in_test or b.name != 'new' or not re.match(r'reply::Reply<', (b.impl_self or '')):
            continue
        for blk, i, st in b.iter_assigns():
            rv = st['rv']
            if rv['k'] == 'aggr' and 'reply::Reply' in (rv.get('adt') or '') and 'continues' in (rv.get('fields') or []):
                n += 1
                op = rv['ops'][rv['fields'].index('continues')]
                tr = b.trace(op)
                is_none = tr.get('kind') == 'aggr' and tr['rv'].get('variant') == 'None'
                rep.check(is_none, 'R05.5', 'reply::Reply::new|continues-absent', C_where(b, blk, i),
                          'Reply::new leaves `continues` absent (None)',
                          'Reply::new initialises `continues` to something else than None: a reply built without set_continues then carries a `continues` member nobody asked for '
                          '(and what is rebuilt from a decoded message is not the message)')
    if not n:
        rep.bad('R05.5', 'reply::Reply::new|anchor', 'zlink-core/src/reply.rs', 'the struct literal of Reply::new was not found')


def C_where(b, blk, i=None):
    import common as C
    return C.where(b, blk, i)


def check_derive(fx, rep):
    t = fx.tpl
    F = 'zlink-macros/src/reply_error.rs'
    fns = A.all_fns(t, F)
    if not fns:
        rep.bad('R05.4', 'anchor-derive', F, 'ReplyError derive source not found')
        return
    byname = {n['name']: n for f, n, impl in fns}
    # qualified-name formats
    fmts = {}
    for name, n in byname.items():
        for m in A.nodes(n['body']):
            if m.get('k') == 'macro' and m.get('name') == 'format' and 'interface' in (m.get('fmt') or '') + ' '.join(m.get('args') or []):
                fmts.setdefault(m.get('fmt'), []).append(name)
    ser_fns = [n for n in byname if 'serialize' in n and 'deserialize' not in n]
    de_fns = [n for n in byname if 'deserialize' in n]
    ser_f = {f for f, names in fmts.items() if any(x in ser_fns for x in names)}
    de_f = {f for f, names in fmts.items() if any(x in de_fns for x in names)}
    rep.check(len(ser_f) == 1 and ser_f == de_f, 'R05.4', 'derive|qualified-name-format', F,
              'Serialize and Deserialize build the qualified error name with the same format %s' % sorted(ser_f),
              'the qualified error name is formatted differently for encoding %s and decoding %s' % (sorted(ser_f), sorted(de_f)))
    # templates
    unit_ok = named_ok = helper_ok = False
    for name in ser_fns:
        for m in A.macros(byname[name]['body']):
            tk = m.get('tokens') or ''
            if 'serialize_entry ("error"' in tk:
                if '"parameters"' in tk:
                    named_ok = tk.index('serialize_entry ("error"') < tk.index('"parameters"') and 'serialize_map (Some (2))' in tk
                else:
                    unit_ok = 'serialize_map (Some (1))' in tk
    for name in de_fns:
        for m in A.macros(byname[name]['body']):
            tk = m.get('tokens') or ''
            if re.search(r'tag\s*=\s*"error"\s*,\s*content\s*=\s*"parameters"', tk) and 'Deserialize' in tk:
                helper_ok = True
    # a length hint is a promise: serde_json and the built-in serializer write `{}` at once for Some(0) and append what follows, so a map whose entries are
    # written conditionally (None members left out) must not announce a count computed from something else than what it writes
    hint_bad = []
    for name in ser_fns:
        for m in A.macros(byname[name]['body']):
            tk = m.get('tokens') or ''
            if 'serialize_entry' in tk and re.search(r'\bif\s+let\s+Some\b|\bis_some\s*\(|\bis_none\s*\(|\bif\s+!?\s*#?\w+\s*\.', tk):
                hint_bad.append(name)
    cond_fns = sorted(set(hint_bad))
    some_hint = [name for name in ser_fns for m in A.macros(byname[name]['body']) if re.search(r'serialize_map\s*\(\s*Some\s*\(\s*#', m.get('tokens') or '')]
    rep.check(not (cond_fns and some_hint), 'R05.4', 'derive|ser-length-hint-matches-entries', F,
              'the parameters map announces the number of entries it writes (all members are written unconditionally)',
              'the derive\'s Serialize template writes some members conditionally (%s) but announces a computed length `serialize_map(Some(#..))` (%s): for a value whose present members '
              'do not match the announced count - all-optional variant, count 0 - the serializer emits `{}` and appends the entries after it' % (cond_fns, sorted(set(some_hint))))
    rep.check(unit_ok, 'R05.4', 'derive|ser-unit-template', F, 'field-less variants encode as a 1-entry map {"error": name}', 'the unit-variant template does not encode exactly {"error": name}')
    rep.check(named_ok, 'R05.4', 'derive|ser-named-template', F, 'variants with fields encode as {"error": name, "parameters": {...}}', 'the named-variant template does not encode `error` then `parameters`')
    rep.check(helper_ok, 'R05.4', 'derive|de-helper-tagged', F, 'the decoding helper enum is adjacently tagged error / parameters', 'the decoding helper enum is not tagged error/parameters')
    # same source of wire names
    src = {}
    for name, n in byname.items():
        for x in A.nodes(n['body']):
            if x.get('k') == 'field' and x.get('member') == 'name_strings':
                src.setdefault(name, set()).add(A.text(x.get('base')))
    users_ser = [n for n in src if n in ser_fns or 'serialize_variant' in n]
    users_de = [n for n in src if n in de_fns]
    extract_ser = any('FieldInfo::extract' in A.text(x) or (x.get('k') == 'call' and 'FieldInfo::extract' in str(x.get('func'))) for n in users_ser for x in A.nodes(byname[n]['body']))
    extract_de = any(x.get('k') == 'call' and 'FieldInfo::extract' in str(x.get('func')) for n in users_de for x in A.nodes(byname[n]['body']))
    rep.check(bool(users_ser) and bool(users_de) and extract_ser and extract_de, 'R05.4', 'derive|one-source-of-wire-names', F,
              'encoder (%s) and decoder (%s) take field wire names from FieldInfo::extract(..).name_strings' % (users_ser, users_de),
              'encoder and decoder do not take field wire names from the same source (FieldInfo::extract(..).name_strings): ser=%s de=%s' % (users_ser, users_de))
    # zip alignment
    nzip = 0
    for f, n, impl in A.all_fns(t, 'zlink-macros/src'):
        for x in A.nodes(n['body']):
            if x.get('k') == 'mcall' and x.get('method') == 'zip':
                nzip += 1
                lets = {y.get('pat', '').replace('mut ', '').strip(): y.get('init') for y in A.nodes(n['body']) if y.get('k') == 'let' and isinstance(y.get('init'), dict)}

                def full_chain(e, depth=4):
                    root, chain = A.method_chain(e)
                    while depth > 0 and isinstance(root, dict) and root.get('k') == 'path' and root.get('text') in lets:
                        r2, c2 = A.method_chain(lets[root['text']])
                        if r2 is root:
                            break
                        root, chain = r2, c2 + chain
                        depth -= 1
                    return root, chain
                root_l, chain_l = full_chain(x.get('recv'))
                arg = (x.get('args') or [{}])[0]
                root_r, chain_r = full_chain(arg)
                fl = [c for c in chain_l if c in FILTERS]
                fr = [c for c in chain_r if c in FILTERS]
                rep.check(fl == fr, 'R05.4', 'derive|zip-aligned|%s|%s' % (f.split('/')[-1], n['name']), '%s:%s' % (f, x.get('line')),
                          'positional pairing %s ~ %s has the same filtering on both sides' % (A.text(root_l), A.text(root_r)),
                          'a positional pairing (zip) is filtered on one side only (%s vs %s): elements are paired with the wrong partner when the filter drops one '
                          '(e.g. wire names applied to the wrong fields)' % (fl or 'none', fr or 'none'))
    if nzip == 0:
        rep.ok('R05.4', 'derive|zip-aligned|none', 'zlink-macros/src', 'no positional pairing in the macros', nontrivial=False)


def check_no_params(fx, rep):
    t = fx.tpl
    # (a) library enums
    n = 0
    for fn, it in t.items('zlink-core/src', 'enum'):
        if it.get('test') or '/tests' in fn:
            continue
        ca = SS.container(it)
        if ca.get('content') == 'parameters' and 'Deserialize' in SS.derives(it):
            n += 1
            for v in it.get('variants') or []:
                if v.get('shape') == 'unit':
                    rep.bad('R05.6', 'enum|%s::%s|unit-variant-default-decoding' % (it['name'], v['name']), '%s:%s' % (fn, v.get('line')),
                            'unit variant %s::%s of an adjacently tagged wire enum (content = "parameters") is decoded by serde\'s default unit handling: '
                            'a message that spells "no parameters" as "parameters": {} is rejected' % (it['name'], v['name']))
                else:
                    rep.ok('R05.6', 'enum|%s::%s|has-fields' % (it['name'], v['name']), '%s:%s' % (fn, v.get('line')), 'variant with fields: parameters object expected')
    if n == 0:
        rep.bad('R05.6', 'enum|anchor', 'zlink-core/src', 'no adjacently tagged wire enum (content = "parameters") found in zlink-core: anchor lost')
    # (b) derive helper enum copies unit variants
    F = 'zlink-macros/src/reply_error.rs'
    for f, fnn, impl in A.all_fns(t, F):
        helper = [m for m in A.macros(fnn['body']) if re.search(r'content\s*=\s*"parameters"', m.get('tokens') or '') and 'Deserialize' in (m.get('tokens') or '')]
        if not helper:
            continue
        # does the generator rewrite unit variants of the helper (e.g. give them a tolerant content type)?
        rewrites_unit = False
        for x, path in A.nodes_with_path(fnn['body']):
            if x.get('k') == 'match':
                for arm in x.get('arms') or []:
                    if 'Fields::Unit' in (arm.get('pat') or ''):
                        # an arm that assigns to variant.fields / pushes attrs counts as a rewrite
                        if any(y.get('k') == 'assign' or (y.get('k') == 'mcall' and y.get('method') == 'push') for y in A.nodes(arm.get('body'))):
                            rewrites_unit = True
        if rewrites_unit:
            rep.ok('R05.6', 'derive|%s|unit-variants-rewritten' % fnn['name'], f, 'the helper-enum generator gives unit variants a tolerant content decoding')
        else:
            rep.bad('R05.6', 'derive|%s|unit-variants-default-decoding' % fnn['name'], '%s:%s' % (f, helper[0].get('line')),
                    'the ReplyError derive copies field-less variants unchanged into its adjacently tagged helper enum: `{"error": "x.Y", "parameters": {}}` is '
                    'rejected for every field-less error (instances: varlink_service::Error::{PermissionDenied, ExpectedMore})')
    # (c) proxy unit outputs
    Fp = 'zlink-macros/src/proxy/method_impl.rs'
    hits = 0
    for f, fnn, impl in A.all_fns(t, Fp):
        for m in A.macros(fnn['body']):
            tk = m.get('tokens') or ''
            if 'receive_reply' in tk or 'call_method' in tk:
                mm = re.search(r'(receive_reply|call_method)\s*::\s*<\s*(?:_\s*,\s*)?#\s*(\w+)', tk)
                if mm:
                    hits += 1
                    # is the unit output replaced by a tolerant decode type before being interpolated?
                    tolerant = False
                    for g, gn, gi in A.all_fns(t, Fp):
                        for x in A.nodes(gn['body']):
                            if x.get('k') == 'match' and 'reply_type' in (x.get('scrut') or ''):
                                for arm in x.get('arms') or []:
                                    if 'Tuple' in (arm.get('pat') or '') and any(y.get('k') == 'macro' and 'IgnoredAny' in (y.get('tokens') or '') for y in A.nodes(arm.get('body'))):
                                        tolerant = True
                    if tolerant:
                        rep.ok('R05.6', 'proxy|%s|unit-output-tolerant' % fnn['name'], '%s:%s' % (f, m.get('line')), 'unit outputs are decoded with a tolerant parameters type')
                    else:
                        rep.bad('R05.6', 'proxy|%s|unit-output-decoded-as-unit' % fnn['name'], '%s:%s' % (f, m.get('line')),
                                'the proxy decodes the reply parameters as the declared output type, `()` included: for a method without outputs a reply '
                                '`{"parameters": {}}` fails to decode')
    if hits == 0:
        rep.bad('R05.6', 'proxy|anchor', Fp, 'no proxy template decoding a reply found: anchor lost')


def check_proxy_extract(fx, rep):
    t = fx.tpl
    Fp = 'zlink-macros/src/proxy/method_impl.rs'
    fns = A.all_fns(t, Fp)
    # the shared extraction: a `let X = match &reply_type { Tuple.. => quote!(Ok(Ok(()))) , _ => quote!(match reply.into_parameters()..) }`
    shared = None
    for f, fnn, impl in fns:
        for x in A.nodes(fnn['body']):
            if x.get('k') == 'let' and isinstance(x.get('init'), dict) and x['init'].get('k') in ('match', 'if'):
                # two alternatives (match arms or if / else), one template per alternative
                toks = [m.get('tokens') or '' for m in A.macros(x['init'])]
                if len(toks) >= 2 and any('Ok (Ok (()))' in tk and 'into_parameters' not in tk for tk in toks) and any('into_parameters' in tk for tk in toks):
                    shared = x.get('pat')
    if shared is None:
        rep.bad('R05.7', 'proxy|anchor-shared-extraction', Fp, 'the shared unit-aware extraction of reply parameters was not found')
        return
    n = 0
    for f, fnn, impl in fns:
        for m in A.macros(fnn['body']):
            tk = m.get('tokens') or ''
            if re.search(r'Ok \(Ok \(reply\)\)|Ok \(reply\) =>', tk) or ('receive_reply' in tk or 'call_method' in tk) and 'reply' in tk:
                if 'Ok (Ok (()))' in tk and 'match' not in tk:
                    continue
                handles_success = bool(re.search(r'Ok \(Ok \(reply\)\)\s*=>|Ok \(reply\)\s*=>|into_parameters', tk))
                if not handles_success:
                    continue
                n += 1
                rep.check(shared in (m.get('vars') or []), 'R05.7', 'proxy|%s|uses-shared-extraction' % fnn['name'], '%s:%s' % (f, m.get('line')),
                          'the success arm interpolates the shared unit-aware extraction #%s' % shared,
                          'this template maps a success reply to the method output without the shared unit-aware extraction #%s: a method without outputs '
                          'reports MissingParameters when `parameters` is absent' % shared)
    if n < 2:
        rep.bad('R05.7', 'proxy|floor', Fp, 'expected the regular and the streaming template to map success replies, found %d' % n)


def check_setters(fx, rep):
    """R05.9: the flag setters / getters of Call are faithful: set_F stores its argument into F and touches no other flag, F() returns F"""
    import mir
    core = fx.crate('zlink_core', 'full')
    adt = [a for p_, a in core.adts.items() if p_ == 'call::Call' or p_.endswith('::call::Call')]
    flags = [f['name'] for f in adt[0]['variants'][0]['fields'] if f.get('ty') == 'bool'] if adt else []
    if not flags:
        rep.bad('R05.9', 'anchor', 'zlink-core/src/call/mod.rs', 'bool fields of call::Call not found in the type facts')
        return
    n = 0
    for b in core.bodies:
        if b.in_test or not re.match(r'call::Call<', (b.impl_self or '')) or b.impl_trait:
            continue
        if b.name.startswith('set_') and b.name[4:] in flags:
            F = b.name[4:]
            n += 1
            stores = [(blk, i_, s_) for blk, i_, s_ in b.iter_assigns() if (mir.place_last_field(s_['place']) or (None, None))[1] in flags and
                      isinstance((s_['place'].get('p') or [None])[-1], dict)]
            own = [x for x in stores if mir.place_last_field(x[2]['place'])[1] == F]
            other = sorted({mir.place_last_field(x[2]['place'])[1] for x in stores} - {F})
            ok = len(own) == 1 and own[0][2]['rv']['k'] == 'use' and b.trace(own[0][2]['rv']['op']).get('kind') == 'arg' and not other
            if not ok and not stores:
                # functional update `Self { F: v, ..self }`: the value returned is built with F = the argument and every other flag copied from self's same field
                aggrs = [s_ for blk, i_, s_ in b.iter_assigns() if s_['rv']['k'] == 'aggr' and 'call::Call' in (s_['rv'].get('adt') or '') and s_['rv'].get('fields')]
                if len(aggrs) == 1:
                    rv_ = aggrs[0]['rv']
                    by_f = dict(zip(rv_['fields'], rv_['ops']))
                    good = F in by_f and b.trace(by_f[F]).get('kind') == 'arg' and b.trace(by_f[F]).get('kind') != 'place'
                    for g_ in flags:
                        if g_ == F or g_ not in by_f:
                            continue
                        tg = b.trace(by_f[g_])
                        lf = mir.place_last_field(tg.get('place') or (mir.op_place(by_f[g_]) or {})) if (tg.get('kind') in ('place', 'arg') or mir.op_place(by_f[g_])) else None
                        if not (lf and lf[1] == g_):
                            good = False
                    other = [] if good else other
                    ok = good
            rep.check(ok, 'R05.9', 'call::Call::%s|stores-only-its-flag' % b.name, b.where(),
                      '%s stores its argument into `%s` and leaves the other flags alone' % (b.name, F),
                      'Call::%s does not just store its argument into `%s`%s: which of the eight flag combinations a Call ends up with then depends on the order of '
                      'the setter calls, some combinations cannot be built at all, and encode / decode (which fill the fields directly) disagree with the builder'
                      % (b.name, F, (' - it also writes %s' % ', '.join('`%s`' % o for o in other)) if other else ''))
        elif b.name in flags and b.kind == 'AssocFn':
            n += 1
            rets = [s_ for blk, i_, s_ in b.iter_assigns() if s_['place']['l'] == 0 and not s_['place'].get('p')]
            ok = len(rets) == 1 and rets[0]['rv']['k'] == 'use' and (mir.place_last_field(mir.op_place(rets[0]['rv']['op']) or {'p': None}) or (None, None))[1] == b.name
            rep.check(ok, 'R05.9', 'call::Call::%s|returns-its-flag' % b.name, b.where(), '%s() returns the `%s` member' % (b.name, b.name),
                      'Call::%s() does not return the stored `%s` flag unchanged' % (b.name, b.name))
    rep.floor('R05.9', 2 * len(flags), 'flag setters and getters of Call')


def check_attr_scans(fx, rep):
    """R05.10: the helpers that look an attribute up by name (`#[zlink(rename = ..)]` ..) walk over *all* attributes of the item: the branch taken
    for an attribute of another name goes on with the next one"""
    n = 0
    for fn, it, impl in A.all_fns(fx.tpl, 'zlink-macros/src'):
        if 'Attribute' not in (it.get('sig') or ''):
            continue
        for lp in [x for x in A.nodes(it.get('body') or []) if x.get('k') == 'for']:
            for x, path in A.nodes_with_path(lp.get('body')):
                if x.get('k') != 'if' or any(p.get('k') in ('for', 'while', 'loop', 'closure') for p in path):
                    continue
                cond = re.sub(r'\s', '', A.text(x.get('cond_node')) if x.get('cond_node') else (x.get('cond') or ''))
                if 'is_ident(' not in cond:
                    continue
                neg = cond.startswith('!')
                branch = x.get('then') if neg else x.get('else')
                if branch is None:
                    continue
                n += 1
                leaves = [y.get('k') for y, p2 in A.nodes_with_path(branch) if y.get('k') in ('break', 'return') and not any(q.get('k') in ('for', 'while', 'loop', 'closure') for q in p2)]
                rep.check(not leaves, 'R05.10', '%s|other-attributes-are-skipped|%d' % (it['name'], n), '%s:%s' % (fn, x.get('line')),
                          '%s: an attribute of another name is skipped and the scan goes on' % it['name'],
                          '%s stops scanning at the first attribute that is not the one it looks for (`%s` in the branch for other attributes): a `#[zlink(..)]` attribute that '
                          'stands after a doc comment, `#[allow]`, `#[serde(..)]` .. is not seen - a renamed field then travels under its Rust name and the real message is rejected'
                          % (it['name'], leaves[0] if leaves else ''))
    rep.floor('R05.10', 1, 'attribute scans with a skip branch')


def check(fx, rep, tier):
    rep.rule('R05.9', 'the flag setters of Call store their argument into their own flag and touch no other flag; the getters return the stored flag (all eight combinations can be built, in any order)')
    rep.rule('R05.10', 'attribute look-ups in the macros skip attributes of other names and go on (no break / return in the branch for a non-matching attribute)')
    check_setters(fx, rep)
    check_attr_scans(fx, rep)
    rep.rule('R05.1', 'flag table: every bool field F of Call <-> serialized entry "F": true <-> filtered key "F" -> cell -> field F (absent => false)')
    rep.rule('R05.2', 'flags are written only under their own field; the flattening serializer forwards keys/values only and accepts map/struct')
    rep.rule('R05.3', 'flag arms consume+record+continue; the wildcard arm forwards the key to the method type; values are forwarded unchanged')
    rep.rule('R05.4', 'ReplyError derive: same qualified-name format and same wire-name source for encode and decode; unit/named templates; helper enum tagged error/parameters; no one-sided filtered zip')
    rep.rule('R05.5', 'Reply members parameters / continues are optional and skipped when None')
    rep.rule('R05.6', 'no adjacently tagged wire enum (content = parameters) leaves a field-less variant to serde\'s default unit decoding; proxy unit outputs tolerate {}')
    rep.rule('R05.7', 'every proxy template mapping a success reply uses the shared unit-aware extraction')
    check_call(fx, rep)
    check_reply(fx, rep)
    check_reply_ctor(fx, rep)
    check_derive(fx, rep)
    check_no_params(fx, rep)
    check_proxy_extract(fx, rep)
    import imports as _imp
    _imp.layer(fx, rep, 'C05')
    return META
