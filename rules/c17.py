"""C17 - buffers are bounded (R17.1 - R17.5)."""
import mir
from mir import op_place, op_str
import common as C

RC = 'read_connection::ReadConnection'
WC = 'write_connection::WriteConnection'

META = {
    'level': 'proof',
    'explanation': (
        'Guard-dominance and constant rules over the MIR of both connection halves: (R17.1) every call that grows the '
        'Vec<u8> buffer field of ReadConnection / WriteConnection is dominated by the "below limit" edge of a comparison of the '
        'buffer length (or a cursor tested equal to it) with MAX_BUFFER_SIZE whose other edge returns BufferOverflow; '
        '(R17.2) every growth adds exactly the constant step BUFFER_SIZE; (R17.3) BufferOverflow is constructed only on the '
        'over-limit edge of such a comparison; (R17.5) the limit is a positive multiple of the step and the initial size is '
        'the step. With R17.1-2/5, len <= MAX_BUFFER_SIZE is an inductive invariant of both buffers (boundedness proved); '
        'R17.3 gives that the refusal is unreachable while len < MAX. "A refused outgoing message sends nothing" is R02.2. '
        'Not decided: acceptance of every size below the limit as an observed fact.'),
    'assumptions': ['Vec::extend / extend_from_slice grow the vector by the length of their argument'],
    'trusted_base': ['rustc MIR construction and const evaluation', 'alloc::vec::Vec API contracts'],
}

nonstrict = []

GROW = ('extend', 'extend_from_slice', 'resize', 'reserve', 'reserve_exact', 'push', 'append', 'insert', 'resize_with', 'extend_from_within')


def limit_tests(body, adt, buf_field):
    """switches comparing buffer.len() (or a field dominated-equal to it) with the MAX_BUFFER_SIZE const.
    returns list of (switch_block, below_edge, over_edge); comparisons whose growing edge admits len == MAX are
    collected in `nonstrict` (module-level, reset by the caller) and do not count as guards"""
    out = []
    for sw in range(body.n):
        if body.is_cleanup(sw) or body.term(sw)['k'] != 'switch':
            continue
        info = body.switch_info(sw)
        if not info or info.get('kind') != 'cmp' or info['op'] not in ('Ge', 'Gt', 'Lt', 'Le'):
            continue
        sides = [('a', 'b'), ('b', 'a')]
        for x, y in sides:
            cy = info[y]
            if cy.get('kind') == 'const' and (cy.get('def') or '').split('::')[-1] == 'MAX_BUFFER_SIZE':
                vx = info[x]
                is_len = vx.get('kind') == 'call' and vx['callee'].get('name') == 'len' and \
                    C.trace_field(body, vx['args'][0], adt) == buf_field
                eq_len = False
                if not is_len and vx.get('kind') == 'place':
                    # a field that a dominating test proved equal to buffer.len()
                    fld = [n for a, n in vx.get('fields', []) if a and adt in a]
                    for sw2 in range(body.n):
                        if body.is_cleanup(sw2) or body.term(sw2)['k'] != 'switch' or not body.dominates(sw2, sw) or sw2 == sw:
                            continue
                        i2 = body.switch_info(sw2)
                        if i2 and i2.get('kind') == 'cmp' and i2['op'] == 'Eq':
                            a_f = i2['a'].get('kind') == 'place' and any(n in fld for _, n in i2['a'].get('fields', []))
                            b_l = i2['b'].get('kind') == 'call' and i2['b']['callee'].get('name') == 'len' and \
                                C.trace_field(body, i2['b']['args'][0], adt) == buf_field
                            if a_f and b_l and sw in body.reachable(i2['true']) and sw not in body.reachable(i2['false'], avoid={sw2}):
                                eq_len = True
                if not (is_len or eq_len):
                    # a local holding the tested value (`let filled = ..; if filled == buffer.len() { if MAX <= filled ..`)
                    def origin(op):
                        tr_ = body.trace(op)
                        if tr_.get('kind') == 'bin':
                            return ('bin', tr_.get('block'), tr_.get('stmt'))
                        if tr_.get('kind') == 'local':
                            return ('local', tr_.get('l'))
                        if tr_.get('kind') == 'place':
                            return ('place', tr_['place'].get('s'))
                        return None
                    ox = origin(info[x + '_op'])
                    for sw2 in range(body.n):
                        if ox is None or body.is_cleanup(sw2) or body.term(sw2)['k'] != 'switch' or not body.dominates(sw2, sw) or sw2 == sw:
                            continue
                        i2 = body.switch_info(sw2)
                        if not (i2 and i2.get('kind') == 'cmp' and i2['op'] == 'Eq'):
                            continue
                        for p_, q_ in (('a', 'b'), ('b', 'a')):
                            l_ok = i2[q_].get('kind') == 'call' and i2[q_]['callee'].get('name') == 'len' and C.trace_field(body, i2[q_]['args'][0], adt) == buf_field
                            if l_ok and origin(i2[p_ + '_op']) == ox and sw in body.reachable(i2['true']) and sw not in body.reachable(i2['false'], avoid={sw2}):
                                eq_len = True
                if not (is_len or eq_len):
                    continue
                op = info['op']
                if x == 'b':   # const OP value  -> flip
                    op = {'Ge': 'Le', 'Gt': 'Lt', 'Lt': 'Gt', 'Le': 'Ge'}[op]
                if op in ('Gt', 'Le'):
                    # `len > MAX` / `len <= MAX`: the growing edge still admits len == MAX, one step beyond the limit
                    nonstrict.append(sw)
                    continue
                over = info['true'] if op in ('Ge', 'Gt') else info['false']
                below = info['false'] if op in ('Ge', 'Gt') else info['true']
                out.append((sw, below, over))
    return out


def flag_guarded(body, b, lt):
    """`let full = ..; if full && len >= MAX { return Err(BufferOverflow) } if full { grow }`: the limit test does not dominate the
    growth, but both sit on the true edge of a switch on the same evaluation of one flag.  Accepted when
      * S1 (guarding the limit test) and S2 (guarding the growth) switch on copies of the value of one statement D,
      * S1 dominates S2 and D cannot run again between the last S1 and S2 (D is in S1's block, or S2 is not reachable from D avoiding S1),
      * the limit test is only on S1's true side, the growth only on S2's true side,
      * from S1's true edge S2 is reached only through the limit test, and not through its over-limit edge,
      * the over-limit edge reaches a BufferOverflow construction.
    Every path to the growth then took the below-limit edge after the flag was last computed."""
    def origin(sw):
        tr_ = body.trace(body.term(sw).get('op'))
        if tr_.get('kind') == 'bin' and tr_.get('block') is not None:
            return (tr_.get('block'), tr_.get('stmt'))
        return None

    def bool_switches():
        for s_ in range(body.n):
            if body.is_cleanup(s_) or body.term(s_)['k'] != 'switch' or body.term(s_).get('op_ty') != 'bool':
                continue
            i_ = body.switch_info(s_)
            if i_ and 'true' in i_ and 'false' in i_:
                yield s_, i_['true'], i_['false']

    def true_side_only(s_, t_, f_, x):
        return body.dominates(s_, x) and x in body.reachable(t_, avoid={s_}) and x not in body.reachable(f_, avoid={s_})

    sws = list(bool_switches())
    ov = [x for x, i, s in C.aggr_adt_sites(body, 'error::Error', 'BufferOverflow')]
    for sw, below, over in lt:
        if not any(x in body.reachable(over) for x in ov):
            continue
        for s2, t2, f2 in sws:
            o2 = origin(s2)
            if o2 is None or s2 == sw or not true_side_only(s2, t2, f2, b):
                continue
            for s1, t1, f1 in sws:
                if s1 in (s2, sw) or origin(s1) != o2 or not body.dominates(s1, s2) or not true_side_only(s1, t1, f1, sw):
                    continue
                dblk = o2[0]
                if dblk != s1 and s2 in body.reachable(dblk, avoid={s1}):
                    continue
                if not body.dominates(dblk, s1):
                    continue
                if s2 in body.reachable(t1, avoid={sw, s1}):
                    continue
                if s2 in body.reachable(over, avoid={s1}):
                    continue
                if s2 not in body.reachable(below, avoid={s1}):
                    continue
                return True
    return False


def check_crate(fx, rep, crate, cfg):
    n_growth = 0
    del nonstrict[:]
    for adt in (RC, WC):
        # buffer field = the Vec<u8> field of the ADT
        a = [v for p, v in crate.adts.items() if p.endswith(adt)]
        if not a:
            rep.bad('R17.1', '%s|anchor|%s' % (adt, cfg), '-', 'type %s not found' % adt)
            continue
        vec_fields = [f['name'] for f in a[0]['variants'][0]['fields'] if f['ty'].replace(' ', '').startswith(('std::vec::Vec<u8>', 'alloc::vec::Vec<u8>', 'Vec<u8>'))]
        if len(vec_fields) != 1:
            rep.bad('R17.1', '%s|anchor|%s' % (adt, cfg), '-', 'expected exactly one Vec<u8> field, found %s' % vec_fields)
            continue
        bf = vec_fields[0]
        for body in crate.bodies:
            if body.in_test:
                continue
            lt = None
            for b, t in body.iter_terms('call'):
                if t['callee'].get('name') in GROW and t['args'] and C.trace_field(body, t['args'][0], adt) == bf \
                        and 'Vec' in (t['callee'].get('def') or '') + (t['callee'].get('resolved') or '') + (t['callee'].get('self_ty') or ''):
                    n_growth += 1
                    if lt is None:
                        lt = limit_tests(body, adt, bf)
                    ok = False
                    for sw, below, over in lt:
                        if body.dominates(sw, b) and b in body.reachable(below) and b not in body.reachable(over):
                            # the over edge must return BufferOverflow
                            ov = [x for x, i, s in C.aggr_adt_sites(body, 'error::Error', 'BufferOverflow')]
                            if any(x in body.reachable(over) for x in ov):
                                ok = True
                    if not ok:
                        ok = flag_guarded(body, b, lt)
                    key = '%s|growth|%s|%s' % (body.path, t['callee']['name'], cfg)
                    rep.check(ok, 'R17.1', key, C.where(body, b),
                              'growth of %s.%s is dominated by the below-limit edge of a len-vs-MAX_BUFFER_SIZE test whose other edge returns BufferOverflow' % (adt.split('::')[-1], bf),
                              ('the buffer of %s is grown behind a limit test that still admits len == MAX_BUFFER_SIZE (`>` instead of `>=`): the buffer grows one step beyond the limit' % adt.split('::')[-1])
                              if nonstrict else 'the buffer of %s is grown without a dominating length-vs-MAX_BUFFER_SIZE test (unbounded memory)' % adt.split('::')[-1])
                    # R17.2 step: the amount is exactly the constant step (not merely an expression that mentions it)
                    import sym as SY
                    step_ok = False
                    amount = None
                    sz = ([c.get('val') for p_, c in crate.consts.items() if p_.split('::')[-1] == 'BUFFER_SIZE' and p_.startswith('connection::')] or [None])[0]
                    amount_args = t['args'][1:]
                    if t['callee'].get('name') == 'resize' and len(t['args']) >= 2:
                        # resize(new_len, fill): the amount is new_len - len; accept exactly len(buffer) + step
                        e = SY.expr(crate, body, t['args'][1])
                        amount = SY.show(e, 160)
                        amount_args = []

                        def is_len_of_buf(x):
                            return (x[0] == 'len' and x[1][0] == 'field' and x[1][1][-1] == bf) or (x[0] == 'call' and x[1] == 'len' and bf in SY.show(x, 200))
                        if e[0] == 'bin' and e[1] == 'Add':
                            a_, b_ = e[2], e[3]
                            stepx = lambda x: x[0] == 'cdef' and 'BUFFER_SIZE' in x[1] and 'MAX' not in x[1]
                            if (is_len_of_buf(a_) and stepx(b_)) or (is_len_of_buf(b_) and stepx(a_)):
                                step_ok = True
                    for aop in amount_args:
                        e = SY.expr(crate, body, aop)
                        amount = SY.show(e, 160)

                        def is_step(x):
                            return x[0] == 'cdef' and 'BUFFER_SIZE' in x[1] and 'MAX' not in x[1]
                        if e[0] == 'call' and e[1] in ('repeat_n', 'repeat') and len(e[2]) >= 2 and is_step(e[2][-1]):
                            step_ok = True
                        elif e[0] == 'call' and e[1] == 'take' and len(e[2]) >= 2 and is_step(e[2][-1]):
                            step_ok = True
                        elif is_step(e):
                            step_ok = True
                        else:
                            tr = body.trace(aop)
                            ty = (op_place(aop) or {}).get('ty') or aop.get('ty') or ''
                            if sz is not None and ('[u8; %d]' % sz) in ty:
                                step_ok = True
                            if tr.get('kind') == 'const' and tr['op'].get('promoted') and sz is not None and ('[u8; %d]' % sz) in (tr['op'].get('ty') or ''):
                                step_ok = True
                            if tr.get('kind') in ('rvalue',) and 'BUFFER_SIZE' in str(tr.get('rv', {}).get('n', '')):
                                step_ok = True
                            q = op_place(aop)
                            if q and not step_ok:
                                locs, events = body.slice_back([q['l']])
                                rep_ = [ev for ev in events if ev[0] == 'assign' and ev[3]['rv']['k'] == 'repeat' and 'BUFFER_SIZE' in str(ev[3]['rv'].get('n', '')) and 'MAX' not in str(ev[3]['rv'].get('n', ''))]
                                others = [ev for ev in events if ev[0] == 'call' and ev[2]['callee'].get('name') not in ('deref', 'as_slice', 'borrow')]
                                if rep_ and not others:
                                    step_ok = True
                    rep.check(step_ok, 'R17.2', key, C.where(body, b),
                              'growth amount is the constant step BUFFER_SIZE',
                              'the buffer is grown by `%s`, not by exactly the constant step BUFFER_SIZE: with another step the exact-equality "full" test can '
                              'jump over MAX_BUFFER_SIZE (e.g. doubling goes from 64 MiB to 128 MiB)' % amount,
                              {'amount': amount, 'arg_tys': [x.get('ty') for x in t['args'][1:]]})
    rep.floor('R17.1', 2, 'buffer growth call sites (read side, write side)')
    # R17.3 BufferOverflow only behind limit tests
    n_over = 0
    for body in crate.bodies:
        if body.in_test or 'json_ser' in body.path:
            continue
        sites = [(b, i) for b, i, s in C.aggr_adt_sites(body, 'error::Error', 'BufferOverflow')]
        if not sites:
            continue
        if body.impl_trait and ('Display' in body.impl_trait or 'Format' in body.impl_trait or 'Debug' in body.impl_trait):
            continue
        lts = limit_tests(body, RC, 'buffer') + limit_tests(body, WC, 'buffer')
        for b, i in sites:
            n_over += 1
            ok = any(b in body.reachable(over) and b not in body.reachable(below, avoid={sw}) for sw, below, over in lts)
            rep.check(ok, 'R17.3', '%s|overflow-site|%s' % (body.path, cfg), C.where(body, b, i),
                      'BufferOverflow is produced only on the over-limit edge of a len-vs-MAX_BUFFER_SIZE test',
                      'BufferOverflow can be returned although the buffer is below the limit (frames smaller than the limit refused)')
    rep.floor('R17.3', 2, 'BufferOverflow construction sites')
    # R17.5 constants
    def const_named(nm):
        hits = [c for p_, c in crate.consts.items() if p_.split('::')[-1] == nm and p_.startswith('connection::')]
        return hits[0].get('val') if len(hits) == 1 else None
    mx = const_named('MAX_BUFFER_SIZE')
    st = const_named('BUFFER_SIZE')
    rep.check(bool(mx) and bool(st) and mx % st == 0 and mx >= st > 0, 'R17.5', 'limit-multiple-of-step|%s' % cfg, 'zlink-core/src/connection/mod.rs',
              'MAX_BUFFER_SIZE (%s) is a positive multiple of BUFFER_SIZE (%s)' % (mx, st),
              'MAX_BUFFER_SIZE (%s) is not a positive multiple of BUFFER_SIZE (%s): the exact-equality growth test can step over the limit' % (mx, st))
    for adt in (RC, WC):
        for body in C.methods(crate, adt, 'new'):
            ok = False
            for b, t in body.iter_terms('call'):
                if 'from_elem' in (t['callee'].get('def') or '') or t['callee'].get('name') in ('from_elem', 'with_capacity', 'repeat_n'):
                    if any('BUFFER_SIZE' in (o.get('def') or '') and 'MAX' not in (o.get('def') or '') for o in t['args']):
                        ok = True
            rep.check(ok, 'R17.5', '%s|initial-size|%s' % (body.path, cfg), body.where(),
                      'initial buffer size is BUFFER_SIZE', 'initial buffer size is not the constant step BUFFER_SIZE')


def import_failure_atomicity(fx, rep, crate, cfg):
    """R17.4 = R02.2 (refused outgoing message contributes no bytes), evaluated by the C02 rule code"""
    import c02, engine
    sub = engine.Report('C02', rep.tier)
    c02.check_crate(fx, sub, crate, cfg)
    n = 0
    for i in sub.insts:
        if i.rule in ('R02.2', 'R02.7'):
            n += 1
            (rep.ok if i.ok else rep.bad)('R17.4', i.key, i.where, i.msg, i.detail)
    if n == 0:
        rep.bad('R17.4', 'anchor|%s' % cfg, '-', 'failure-atomicity instances of the enqueue function not found')


def check(fx, rep, tier):
    rep.rule('R17.4', 'a refused outgoing message queues nothing: no fill-position/terminator store on a path to an Err return of enqueue, '
                      'and room for the terminator is made before it is stored (same rule code as R02.2 / R02.7)')
    rep.rule('R17.1', 'every growth of either connection buffer is dominated by the below-limit edge of a length-vs-MAX_BUFFER_SIZE test whose other edge returns BufferOverflow')
    rep.rule('R17.2', 'every growth adds exactly the constant step BUFFER_SIZE')
    rep.rule('R17.3', 'BufferOverflow is constructed only on the over-limit edge of such a test')
    rep.rule('R17.5', 'MAX_BUFFER_SIZE is a positive multiple of BUFFER_SIZE; both buffers start at BUFFER_SIZE')
    for cfg in ['full'] + (['ws', 'nostd'] if tier == 'thorough' else []):
        check_crate(fx, rep, fx.crate('zlink_core', cfg), cfg)
        import_failure_atomicity(fx, rep, fx.crate('zlink_core', cfg), cfg)
    import imports as _imp
    _imp.layer(fx, rep, 'C17')
    return META
