"""C09 - a faulty client ends only its own connection (R09.1 - R09.5)."""
import mir
from mir import op_place, op_str, place_is_local
import common as C
import srv
import pathsens as PS
import launder as L

META = {
    'level': 'other',
    'explanation': (
        'Early-exit classification, path-sensitive must-pass-through and index/list agreement rules over the MIR of '
        'Server::run: (R09.1) the only ways out of the server loop are `?` on the result of Listener::accept and on the '
        'outer result of the call select, and the latter is infallible (the select helper has no Err-producing site); no other '
        'write to the return place exists - in particular nothing fed by receive_call, handle_call or a reply send; '
        '(R09.2) on every feasible path (flag variables followed by constant propagation) from a failure arm - Err of the '
        'decoded call, Err of the handler, Err of a stream-item send - back to the loop head, exactly the failing entry is '
        'removed: a swap_remove/remove on the list the failing index belongs to, with the index returned by that select; and '
        'every removal anywhere in the loop pairs an index with its own list (R09.2b); a path with no failure and no '
        'stream hand-over removes nothing (R09.2c); (R09.4) the receive path cannot panic on client-controlled lengths '
        '(index-safety rule R01.4 of the receive buffer, same rule code as C01); (R09.5) no unwrap/expect/panic call of '
        'zlink\'s own code inside the loop; (R09.3) escape analysis of the laundered `&mut Vec<Connection>` handed to the select '
        '(shared engine with C11): nothing that can carry it, by type, is read in a later iteration or returned, and no structural '
        'mutation of the list (push, swap_remove, ...) happens while such a value is still read afterwards (drops are not reads); '
        'the vector of unchecked-pinned receive futures is not touched once the select is awaited. Not decided: relational non-interference for every '
        'fault placement and schedule; panics inside user services.'),
    'assumptions': ['a user Service::handle does not panic', 'Listener::accept failing ends the server by design (documented behaviour)'],
}


def loop_region(S):
    run = S.run
    heads = [h for a, h in run.back_edges() if h == S.loop_head]
    body = set()
    for a, h in run.back_edges():
        if h == S.loop_head:
            body |= run.loop_body(h, a)
    return body


def result_switches(run, region):
    """switches on the discriminant of a Result-typed place inside region: (switch_block, ok_target, err_target, place)"""
    out = []
    for sw in sorted(region):
        if run.is_cleanup(sw) or run.term(sw)['k'] != 'switch':
            continue
        info = run.switch_info(sw)
        if not info or info.get('kind') != 'discr':
            continue
        ty = info['place'].get('ty') or ''
        if ty.startswith(('std::result::Result<', 'core::result::Result<', 'error::Result<')):
            if run.term(sw).get('ds') == 'QuestionMark':
                continue
            out.append((sw, info['arms'].get(0), info['arms'].get(1, info['otherwise']), info['place']))
    return out


def check_cfg(fx, rep, crate, cfg):
    S = srv.Srv(crate)
    if S.run is None or S.errors:
        rep.bad('R09.1', 'anchor|%s' % cfg, '-', 'Server::run anchors not found: %s' % S.errors)
        return
    run = S.run
    fk = run.path
    region = loop_region(S)
    # ---------------- R09.1 exits
    sites = C.ok_err_of_return_sites(run)
    pl = {k: S.payload_locals(k) for k in S.arms}
    gn_infallible = None
    if S.get_next_call is not None:
        errs = [x for x in C.ok_err_of_return_sites(S.get_next_call) if x[2] != 'Ok']
        gn_infallible = not errs
    n_exit = 0
    for b, i, v, st in sites:
        n_exit += 1
        origin = 'unknown'
        ok = False
        if i == 'term' and 'from_residual' in mir.callee_name(st):
            # find the Try::branch feeding this residual
            q = op_place(st['args'][0])
            locs, events = run.slice_back([q['l']]) if q else (set(), [])
            tb = [ev for ev in events if ev[0] == 'call' and ev[2]['callee'].get('name') == 'branch']
            if tb:
                aq = op_place(tb[0][2]['args'][0])
                for k, d in pl.items():
                    if aq and aq['l'] in d and d[aq['l']] == ():
                        origin = S.arms[k]['kind']
                if origin == 'unknown' and aq:
                    tr = run.trace(tb[0][2]['args'][0])
                    l2, ev2 = run.slice_back([aq['l']])
                    cs = [e[2]['callee'].get('name') for e in ev2 if e[0] == 'call' and e[2]['callee'].get('name') not in
                          ('branch', 'into_future', 'poll', 'new_unchecked', 'get_context')]
                    origin = 'result of %s' % (cs[:3] or ['?'])
        elif i != 'term' and v == 'Err' and st['rv']['k'] == 'aggr' and st['rv'].get('ops'):
            # the spelled-out form: `match res { Ok(x) => x, Err(e) => return Err(e) }` - the error value is the Err payload of an arm's result
            q = op_place(st['rv']['ops'][0])
            locs, events = run.slice_back([q['l']]) if q else (set(), [])
            for k, d in pl.items():
                if any(l in d and d[l] == ('Err',) for l in locs):
                    origin = S.arms[k]['kind']
            if origin == 'unknown':
                cs = [e[2]['callee'].get('name') for e in events if e[0] == 'call' and e[2]['callee'].get('name') not in ('into', 'from', 'into_future', 'poll', 'new_unchecked', 'get_context')]
                origin = 'result of %s' % (cs[:3] or ['?'])
        if True:
            if origin == 'accept':
                ok = True
            elif origin == 'calls':
                ok = bool(gn_infallible)
                if not ok:
                    origin = 'outer result of the call select, which can be Err'
        rep.check(ok, 'R09.1', '%s|exit|%s|%s' % (fk, origin, cfg), C.where(run, b, i),
                  'exit of the server loop fed only by %s' % ('Listener::accept' if origin == 'accept' else 'the infallible outer result of the call select'),
                  'Server::run can return because of %s: a fault on one connection ends the whole server' % origin)
    rep.floor('R09.1', 1, 'exits of Server::run')
    # ---------------- R09.2 failure arms remove exactly the failing entry
    kc, arm_c = S.arm_of_kind('calls')
    ks, arm_s = S.arm_of_kind('streams')
    idx_of = {S.conn_vec: S.index_locals(kc) if kc is not None else set(), S.stream_vec: S.index_locals(ks) if ks is not None else set()}
    vec_name = {S.conn_vec: 'connections', S.stream_vec: 'reply streams'}
    removals = {}   # block -> (vec, index_ok)
    for b, t in run.iter_terms('call'):
        nm = t['callee'].get('name')
        if nm in ('swap_remove', 'remove') and t['args']:
            v = S.vec_of_operand(run, t['args'][0])
            if v is None:
                continue
            iq = op_place(t['args'][1])
            iok = bool(iq) and iq['l'] in idx_of[v]
            removals[b] = (v, iok)
            other = [w for w in idx_of if w != v and iq and iq['l'] in idx_of[w]]
            rep.check(iok, 'R09.2b', '%s|removal-index-belongs-to-list|%s|%s' % (fk, vec_name[v], cfg), C.where(run, b),
                      'removal from the %s list uses the index returned by the select over that list' % vec_name[v],
                      'an entry is removed from the %s list with an index that %s: an unrelated client is dropped' % (
                          vec_name[v], ('belongs to the %s list' % vec_name[other[0]]) if other else 'does not come from the select over that list'))
    # element accesses pair index and list as well
    for b, t in run.iter_terms('call'):
        nm = t['callee'].get('name')
        if nm in ('index', 'index_mut') and t['args'] and len(t['args']) == 2:
            v = S.vec_of_operand(run, t['args'][0])
            if v is None or b not in region:
                continue
            iq = op_place(t['args'][1])
            rep.check(bool(iq) and iq['l'] in idx_of[v], 'R09.2b', '%s|element-index-belongs-to-list|%s|L%s|%s' % (fk, vec_name[v], nm, cfg), C.where(run, b),
                      'element access on the %s list uses that list\'s select index' % vec_name[v],
                      'the %s list is indexed with an index that does not come from the select over that list (wrong client or out-of-bounds panic)' % vec_name[v])
    rep.floor('R09.2b', 4, 'removals / element accesses on the two lists')
    # failure arms
    for kind, k, arm, own_vec in (('calls', kc, arm_c, S.conn_vec), ('streams', ks, arm_s, S.stream_vec)):
        if arm is None or arm.get('target') is None:
            rep.bad('R09.2', '%s|arm-%s|%s' % (fk, kind, cfg), run.where(), 'select arm %s not found' % kind)
            continue
        arm_region = run.reachable(arm['target'], avoid={S.loop_head}) & region
        rs = result_switches(run, arm_region)
        err_blocks = {}
        for sw, okt, errt, place in rs:
            if errt is None:
                continue
            err_blocks['err@%s' % (run.term(sw).get('line'))] = {errt}
        # `if let Err(e) = x` compiles to a switch [[1, errblock]] else ...: handled by arms.get(1)
        watch = dict(err_blocks)
        watch['remove-own'] = {b for b, (v, iok) in removals.items() if v == own_vec and iok}
        watch['remove-any'] = set(removals)
        handler_blocks = {b for b, t in run.iter_terms('call') if t['callee'].get('def') == S.handle_call_fn}
        watch['handled'] = handler_blocks
        # Some(stream) hand-over marker: blocks extracting the Some payload of the handler's Ok value
        some_blocks = set()
        for b, i, s in run.iter_assigns():
            if s['rv']['k'] == 'use':
                q = op_place(s['rv']['op'])
                if q and q.get('p') and any(isinstance(e, dict) and e.get('dc') == 'Some' for e in q['p']) and \
                        any(isinstance(e, dict) and e.get('dc') == 'Ok' for e in q['p']):
                    some_blocks.add(b)
        watch['handover'] = some_blocks
        try:
            paths = PS.explore(run, arm['target'], {S.loop_head}, watch)
        except RuntimeError as e:
            rep.bad('R09.2', '%s|explore-%s|%s' % (fk, kind, cfg), run.where(), str(e))
            continue
        n_fail_paths = 0
        for name in sorted(err_blocks):
            ps = [p for p in paths if name in p[1] and p[0] == S.loop_head]
            outs = [p for p in paths if name in p[1] and p[0] != S.loop_head]
            if not ps and outs and all(isinstance(p[0], tuple) and p[0][:2] == ('end', 'return') for p in outs):
                # not a failure arm but an exit of the server (the spelled-out `?`): every exit is judged by R09.1
                rep.ok('R09.2', '%s|exit-not-failure|%s|%d|%s' % (fk, kind, sorted(err_blocks).index(name), cfg), '%s:%s' % (run.file, name.split('@')[1]),
                       'this Err edge leaves Server::run: an exit (R09.1), not a failure that the loop survives', nontrivial=False)
                continue
            n_fail_paths += len(ps)
            bad = [p for p in ps if 'remove-own' not in p[1]]
            line = name.split('@')[1]
            rep.check(bool(ps) and not bad, 'R09.2', '%s|failure-removes-entry|%s|%d|%s' % (fk, kind, sorted(err_blocks).index(name), cfg),
                      '%s:%s' % (run.file, line),
                      'every feasible path from this failure arm to the next iteration removes the failing entry from the %s list (%d path states)' % (vec_name[own_vec], len(ps)),
                      'after this failure the loop can continue without removing the failing entry from the %s list: the dead connection is polled again '
                      '(busy loop / later faults hit other clients)' % vec_name[own_vec] if ps else
                      'no feasible path from this failure arm returns to the loop head (the failure leaves the loop)',
                      {'paths': len(ps), 'without_removal': len(bad)})
        if kind == 'calls':
            plain = [p for p in paths if p[0] == S.loop_head and 'handled' in p[1] and 'handover' not in p[1] and not any(n.startswith('err@') for n in p[1])]
            bad = [p for p in plain if 'remove-any' in p[1]]
            rep.check(bool(plain) and not bad, 'R09.2c', '%s|healthy-call-removes-nothing|%s' % (fk, cfg), C.where(run, arm['target']),
                      'a call answered without failure and without a stream hand-over removes no entry (%d path states)' % len(plain),
                      'a successfully answered call can remove a connection from the list: a healthy client is dropped',
                      {'paths': len(plain), 'with_removal': len(bad)})
        rep.note('%s arm: %d failure arms, %d feasible path states explored' % (kind, len(err_blocks), len(paths)))
    rep.floor('R09.2', 3, 'failure arms (decode error, handler error, stream-item send error)')
    # ---------------- R09.5 no panic calls in the loop
    bad = []
    for b in sorted(region):
        t = run.term(b)
        if t['k'] != 'call' or t.get('mac'):
            continue
        nm = t['callee'].get('name') or ''
        d = t['callee'].get('def') or ''
        if nm in ('unwrap', 'expect', 'unwrap_err', 'expect_err', 'begin_panic', 'panic', 'panic_fmt', 'unwrap_unchecked') or 'panicking::' in d:
            bad.append('%s at %s' % (nm, C.where(run, b)))
    rep.check(not bad, 'R09.5', '%s|no-panicking-call-in-loop|%s' % (fk, cfg), run.where(),
              'no unwrap / expect / panic call of zlink\'s own code inside the server loop (%d blocks)' % len(region),
              'the server loop contains panicking calls: %s' % bad)


PANICKY = ('unwrap', 'expect', 'unwrap_err', 'expect_err', 'begin_panic', 'panic', 'panic_fmt', 'unwrap_unchecked', 'unreachable', 'unimplemented', 'todo')


def check_connection_panics(fx, rep, crate, cfg):
    """R09.11: the receive / send paths the loop executes for every connection contain no panicking call of zlink's own code"""
    n = 0
    bad = []
    for b in crate.bodies:
        if b.in_test or not (b.impl_self and ('read_connection::ReadConnection' in b.impl_self or 'write_connection::WriteConnection' in b.impl_self)):
            continue
        n += 1
        for blk, t in b.iter_terms('call'):
            if b.is_cleanup(blk):
                continue
            nm = t['callee'].get('name') or ''
            d = t['callee'].get('def') or ''
            # a byte range applied to a `str` panics when a bound is not a char boundary - also inside the argument list of a log macro, which is evaluated eagerly
            if nm in ('index', 'index_mut') and t['args'] and ((mir.op_place(t['args'][0]) or {}).get('ty') or '').replace('mut ', '') in ('&str', "&'_ str") and \
                    'Range' in ((mir.op_place(t['args'][1]) or {}).get('ty') or t['args'][1].get('ty') or '' if len(t['args']) > 1 else ''):
                bad.append((b, blk, 'str[byte range]'))
                continue
            if t.get('mac'):
                continue
            if nm in PANICKY or 'panicking::' in d:
                bad.append((b, blk, nm))
    for b, blk, nm in bad:
        rep.bad('R09.11', '%s|panicking-call|%s|%s' % (b.path.split('::{closure')[0], nm, cfg), C.where(b, blk),
                '`%s` in %s can panic while the server task handles one connection: the panic unwinds through Server::run and ends every connection, '
                'not only the faulty one (return the error instead)' % (nm, b.path.split('::{closure')[0]))
    rep.check(not bad, 'R09.11', 'connection-code|no-panicking-call|%s' % cfg, 'zlink-core/src/connection',
              'no unwrap / expect / panic call of zlink\'s own code in the %d ReadConnection / WriteConnection bodies the server loop runs' % n,
              '%d panicking calls in the connection code' % len(bad))


STRUCTURAL = {'push', 'swap_remove', 'remove', 'clear', 'truncate', 'drain', 'insert', 'pop', 'retain', 'retain_mut', 'append', 'split_off', 'reserve',
              'reserve_exact', 'shrink_to_fit', 'shrink_to', 'dedup', 'dedup_by', 'dedup_by_key', 'resize', 'resize_with', 'extend', 'extend_from_slice', 'set_len',
              'splice', 'take', 'replace', 'swap'}


def check_laundering(fx, rep, crate, cfg):
    S = srv.Srv(crate)
    run = S.run
    if run is None or S.errors:
        return
    fk = run.path
    ss = L.sites(run)
    n = 0
    for s in ss:
        base = L._ref_base(run, s.src_place) if s.src_place else None
        if base != S.conn_vec:
            rep.bad('R09.3', '%s|unexpected-laundering-site|%s' % (s.key(), cfg), C.where(run, s.block, s.idx),
                    'a lifetime-laundering site in Server::run that does not concern the connection list: not covered by a discharge argument')
            continue
        n += 1
        tainted, stores = L.taint(run, s)
        li, lo = L.liveness_nodrop(run)
        live = sorted((run.local_name(x) or '_%d' % x) for x in (li[S.loop_head] & tainted)) if S.loop_head is not None else ['?']
        rep.check(not live and 0 not in tainted and not [1 for _, _, b in stores if L._derives_from_arg(run, b)], 'R09.3', '%s|outlives-iteration|%s' % (s.key(), cfg),
                  C.where(run, s.block, s.idx),
                  'nothing derived from the laundered `&mut Vec<Connection>` (the select future, its result, the call) is read in a later iteration or returned (%d locals may carry it)' % len(tainted),
                  'value(s) %s that may carry the laundered borrow of the connection list are still read in a later loop iteration / returned: the borrow outlives the '
                  'iteration in which the list may be modified' % live, {'carriers': sorted({run.local_name(x) for x in tainted if run.local_name(x)})})
        bad = []
        nmut = 0
        for b, t in run.iter_terms('call'):
            if not t['args'] or t['callee'].get('name') not in STRUCTURAL:
                continue
            if S.vec_of_operand(run, t['args'][0]) != S.conn_vec:
                continue
            nmut += 1
            still = sorted((run.local_name(x) or '_%d' % x) for x in (lo[b] & tainted))
            if still:
                bad.append('%s at %s while %s still read later' % (t['callee']['name'], C.where(run, b), still))
        for b, i, st in run.iter_assigns():
            if st['place']['l'] == S.conn_vec and mir.place_is_local(st['place']) and b != 0:
                sd = run.defs().get(S.conn_vec, [])
                if len(sd) > 1 and b in run.reachable(S.loop_head):
                    bad.append('list reassigned at %s' % C.where(run, b, i))
        rep.check(not bad, 'R09.3', '%s|no-structural-mutation-while-borrowed|%s' % (s.key(), cfg), C.where(run, s.block, s.idx),
                  'none of the %d structural mutations of the connection list happens while a value that may carry the laundered borrow is still read afterwards' % nmut,
                  'the connection list is structurally modified while the laundered borrow is still in use: %s' % bad)
    if n == 0:
        rep.ok('R09.3', '%s|no-laundering-site|%s' % (fk, cfg), run.where(), 'Server::run contains no lifetime-laundering site', nontrivial=False)
    # the unchecked pins of the receive futures
    g = S.get_next_call
    if g is not None:
        pu = [(b, t) for b, t in g.iter_terms('call') if t['callee'].get('name') == 'push_unchecked']
        if pu:
            # the vector the pinned futures live in
            vec_l = None
            for b, t in g.iter_terms('call'):
                if t['callee'].get('name') == 'into_iter' and t.get('ds') == 'ForLoop':
                    q = op_place(t['args'][0])
                    if q:
                        vec_l = L._ref_base(g, q)
            awaits = [b for b, t in g.iter_terms('call') if t['callee'].get('name') == 'into_future' and t.get('ds') == 'Await']
            li, lo = L.liveness_nodrop(g)
            ok = vec_l is not None and bool(awaits) and all(vec_l not in li[a] for a in awaits)
            rep.check(ok, 'R09.3', '%s|pinned-futures-not-touched|%s' % (g.path, cfg), C.where(g, pu[0][0]),
                      'the vector holding the unchecked-pinned receive futures is not used (only dropped) once the select is awaited',
                      'the vector holding the futures pinned with push_unchecked is used again before/while the select is awaited (futures may move)')


def import_receive_index_safety(fx, rep, crate, cfg):
    import c01, engine
    sub = engine.Report('C01', rep.tier)
    try:
        c01.check_crate(fx, sub, crate, cfg)
    except Exception as e:   # pragma: no cover
        rep.bad('R09.4', 'import|%s' % cfg, '-', 'R01.4 could not be evaluated: %s' % e)
        return
    n = 0
    for i in sub.insts:
        if i.rule == 'R01.4':
            n += 1
            (rep.ok if i.ok else rep.bad)('R09.4', i.key, i.where, i.msg if i.ok else i.msg + ' - a panic here unwinds out of Server::run and ends every connection', i.detail)
    if n == 0:
        rep.bad('R09.4', 'anchor|%s' % cfg, '-', 'index-safety instances of the receive path not found')


def check(fx, rep, tier):
    rep.rule('R09.1', 'the server loop is left only through `?` on Listener::accept and on the infallible outer result of the call select')
    rep.rule('R09.2', 'every feasible path from a failure arm back to the loop head removes the failing entry from its own list')
    rep.rule('R09.2b', 'every removal / element access pairs an index with the list whose select returned it')
    rep.rule('R09.2c', 'a call answered without failure and without stream hand-over removes nothing')
    rep.rule('R09.3', 'the laundered `&mut Vec<Connection>` handed to the select does not outlive the iteration, and the list is not structurally modified while it is in use')
    rep.rule('R09.4', 'the receive path cannot index out of bounds on client-controlled lengths (R01.4)')
    rep.rule('R09.6', 'the receive path keeps its buffer and cursor invariants across cancellation (R07.1-R07.3 of C07)')
    rep.rule('R09.5', 'no unwrap / expect / panic call of zlink code inside the server loop')
    rep.rule('R09.11', 'no unwrap / expect / panic call of zlink code in the ReadConnection / WriteConnection code the server runs for every connection (a panic there ends all connections)')
    for cfg in ['full'] + (['ws'] if tier == 'thorough' else []):
        crate = fx.crate('zlink_core', cfg)
        check_cfg(fx, rep, crate, cfg)
        check_laundering(fx, rep, crate, cfg)
        check_connection_panics(fx, rep, crate, cfg)
        import_receive_index_safety(fx, rep, crate, cfg)
    import imports
    imports.cancel_safety(fx, rep, 'R09.6', 'the server loop cancels the pending receive of every other connection on each iteration: a receive path that breaks its cursor / buffer '
                          'invariants across a cancellation panics or stalls inside Server::run and takes every connection down')
    import imports as _imp
    _imp.layer(fx, rep, 'C09')
    return META
