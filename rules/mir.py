"""MIR fact model + generic analyses (CFG, dominators, post-dominators, control dependence,
reaching definitions / backward slices, liveness) over the JSON facts written by zl-drv.

Everything here is plain graph / dataflow code over the *compiler's* MIR of /repo: nothing of
zlink is executed.
"""
import json, glob, os, sys
from collections import defaultdict, deque


# --------------------------------------------------------------------------------------------
# loading

# Named constants whose *identity* the rules rely on (the limit and the growth step of the buffers): they stay symbolic.  Every other named
# integer / byte / bool / char constant of the crate is a spelling of its value - a maintainer who writes `const FRAME_TERMINATOR: u8 = b'\0'`
# for a literal has not changed the program - so operands that name one also carry the evaluated value, and rules that look for the literal
# (`== 0`, `Some(4)`, capacity 1) see it.
SYMBOLIC_CONSTS = {'MAX_BUFFER_SIZE', 'BUFFER_SIZE'}


def _resolve_named_consts(doc, consts):
    vals = {p: c['val'] for p, c in consts.items() if c.get('kind') == 'const' and 'val' in c and p.split('::')[-1] not in SYMBOLIC_CONSTS}
    if not vals:
        return

    def visit(o):
        if isinstance(o, dict):
            if o.get('k') == 'const' and o.get('def') and 'val' not in o and o['def'] in vals:
                o['val'] = vals[o['def']]
                o['named'] = o['def']
            for v in o.values():
                visit(v)
        elif isinstance(o, list):
            for v in o:
                visit(v)
    import re as _re
    tys = {p: (consts[p].get('ty') or '') for p in vals}
    by_name = {}
    for p in vals:
        by_name.setdefault(p.split('::')[-1], []).append(p)
    uniq = {n: ps[0] for n, ps in by_name.items() if len(ps) == 1}
    pat = _re.compile(r'const (?:[\w<>{}#\' ]+::)*(%s)\b' % '|'.join(_re.escape(n) for n in uniq)) if uniq else None

    def lit(m):
        p = uniq[m.group(1)]
        ty = tys[p]
        if ty == 'bool':
            return 'const %s' % ('true' if vals[p] else 'false')
        return 'const %s_%s' % (vals[p], ty)
    for b in doc.get('bodies', []):
        visit(b.get('blocks'))
        if pat is not None and b.get('promoted'):
            b['promoted'] = [[pat.sub(lit, ln) for ln in pr] for pr in b['promoted']]


class Crate:
    def __init__(self, doc, fname):
        self.doc = doc
        self.fname = fname
        self.name = doc['crate']
        self.features = doc.get('features', [])
        self.test = doc.get('test', False)
        self.src = doc.get('src', '')
        self.crate_type = doc.get('crate_type', '')
        self.bodies = [Body(b, self) for b in doc.get('bodies', [])]
        self.by_path = {}
        for b in self.bodies:
            self.by_path.setdefault(b.path, b)
        self.consts = {c['path']: c for c in doc.get('consts', [])}
        _resolve_named_consts(doc, self.consts)
        self.impls = doc.get('impls', [])
        self.adts = {a['path']: a for a in doc.get('adts', [])}
        self.raw_bodies = self.bodies
        self.normal = None
        if not os.environ.get('ZL_NO_INLINE'):
            import inline
            inline.apply_global(self)

    def find(self, sub, exact=False):
        return [b for b in self.bodies if (b.path == sub if exact else sub in b.path)]

    def one(self, sub):
        r = self.find(sub, exact=True) or self.find(sub)
        if len(r) != 1:
            raise KeyError('%s: %d bodies match %r' % (self.name, len(r), sub))
        return r[0]


def load_dir(d):
    out = []
    for f in sorted(glob.glob(os.path.join(d, '*.json'))):
        with open(f) as fh:
            out.append(Crate(json.load(fh), f))
    return out


# --------------------------------------------------------------------------------------------
# operands / places helpers

def op_place(op):
    """place dict of a copy/move operand, else None"""
    if op and op.get('k') in ('copy', 'move'):
        return op['place']
    return None


def op_local(op):
    p = op_place(op)
    return p['l'] if p else None


def op_is_const(op, val=None):
    if not op or op.get('k') != 'const':
        return False
    return val is None or op.get('val') == val


def op_str(op):
    if op is None:
        return '?'
    k = op.get('k')
    if k in ('copy', 'move'):
        return op['place']['s']
    if k == 'const':
        for key in ('fn', 'def', 'val', 'str'):
            if key in op:
                return 'const %s' % (op[key],)
        return 'const ' + op.get('s', '?')
    return op.get('s', '?')


def place_fields(p):
    """list of (adt, fieldname) along the projection"""
    out = []
    for e in p.get('p') or []:
        if isinstance(e, dict) and 'f' in e:
            out.append((e.get('adt'), e.get('name')))
    return out


def place_last_field(p):
    f = place_fields(p)
    return f[-1] if f else None


def place_has_field(p, name, adt_sub=None):
    for adt, n in place_fields(p):
        if n == name and (adt_sub is None or (adt and adt_sub in adt)):
            return True
    return False


def place_is_local(p):
    return not p.get('p')


def rv_operands(rv):
    out = []
    for key in ('op', 'a', 'b'):
        v = rv.get(key)
        if isinstance(v, dict):
            out.append(v)
    for o in rv.get('ops') or []:
        out.append(o)
    return out


def rv_places_read(rv):
    """places read by an rvalue (operands + ref/discriminant/len bases)"""
    out = []
    for o in rv_operands(rv):
        p = op_place(o)
        if p:
            out.append(p)
    if 'place' in rv:
        out.append(rv['place'])
    return out


def place_locals_read(p):
    """locals used by evaluating place p as an rvalue (base + index locals)"""
    out = [p['l']]
    for e in p.get('p') or []:
        if isinstance(e, dict) and 'idx' in e:
            out.append(e['idx'])
    return out


# --------------------------------------------------------------------------------------------

class Body:
    def __init__(self, d, crate):
        self.d = d
        self.crate = crate
        self.path = d['path']
        self.kind = d.get('kind')
        self.root = d.get('root')
        self.name = d.get('name')
        self.file = d.get('file')
        self.lo = d.get('lo')
        self.hi = d.get('hi')
        self.is_coroutine = bool(d.get('coroutine'))
        self.impl_self = d.get('impl_self')
        self.impl_trait = d.get('impl_trait')
        self.in_trait = d.get('in_trait')
        self.mac = d.get('mac')
        self.locals = d['locals']
        self.blocks = d['blocks']
        self.n = len(self.blocks)
        self.arg_count = d.get('arg_count', 0)
        self.saved = d.get('saved')
        self.dbg = d.get('dbg', [])
        self._succ = None
        self._pred = None
        self._dom = None
        self._pdom = None
        self._cd = None
        self._defs = None
        self._reach_cache = {}
        self._annotate()

    def _annotate(self):
        """every place dict gets '@' = the block it occurs in (the use site, for reaching-definition lookups)"""
        def walk(x, b, i):
            if isinstance(x, dict):
                if 'l' in x and 's' in x and '@' not in x:
                    x['@'] = b
                    x['@i'] = i
                for v in x.values():
                    if isinstance(v, (dict, list)):
                        walk(v, b, i)
            elif isinstance(x, list):
                for y in x:
                    walk(y, b, i)
        for b, bl in enumerate(self.blocks):
            for i, st in enumerate(bl['stmts']):
                walk(st, b, i)
            walk(bl['term'], b, 1 << 30)

    # ---- naming
    def local_name(self, i):
        return self.locals[i].get('name')

    def local_ty(self, i):
        return self.locals[i].get('ty', '')

    def where(self, line=None):
        return '%s:%s' % (self.file, line if line is not None else self.lo)

    @property
    def in_test(self):
        return '::tests::' in self.path or self.path.startswith('tests::') or '/tests/' in (self.file or '') \
            or (self.file or '').endswith('/tests.rs') or 'test_utils' in self.path

    # ---- CFG (cleanup blocks and unwind edges are not part of it)
    def term(self, b):
        return self.blocks[b]['term']

    def stmts(self, b):
        return self.blocks[b]['stmts']

    def is_cleanup(self, b):
        return bool(self.blocks[b].get('cleanup'))

    def succ(self, b):
        if self._succ is None:
            self._build_cfg()
        return self._succ[b]

    def pred(self, b):
        if self._pred is None:
            self._build_cfg()
        return self._pred[b]

    def _build_cfg(self):
        succ = [[] for _ in range(self.n)]
        for i, bl in enumerate(self.blocks):
            t = bl['term']
            k = t['k']
            out = []
            if k in ('goto', 'drop', 'assert'):
                out = [t['t']]
            elif k == 'switch':
                out = [a[1] for a in t['arms']] + [t['otherwise']]
            elif k == 'call':
                if t.get('t') is not None:
                    out = [t['t']]
            elif k == 'yield':
                out = [t['t']]          # the drop edge is cancellation, handled separately
            seen = []
            for o in out:
                if o not in seen:
                    seen.append(o)
            succ[i] = seen
        pred = [[] for _ in range(self.n)]
        for i, ss in enumerate(succ):
            for s in ss:
                pred[s].append(i)
        self._succ, self._pred = succ, pred

    def reachable(self, start=0, avoid=()):
        avoid = set(avoid)
        seen = set()
        dq = deque([start])
        while dq:
            b = dq.popleft()
            if b in seen or b in avoid:
                continue
            seen.add(b)
            dq.extend(self.succ(b))
        return seen

    def reach_from_succ(self, b, avoid=()):
        """blocks reachable from the successors of b (b itself only if on a cycle)"""
        out = set()
        for s in self.succ(b):
            out |= self.reachable(s, avoid)
        return out

    def exits(self):
        return [b for b in self.reachable() if self.term(b)['k'] in ('return', 'coroutine_drop')]

    def returns(self):
        return [b for b in self.reachable() if self.term(b)['k'] == 'return']

    # ---- dominators (iterative, on reachable non-cleanup graph)
    def _dom_generic(self, entry_nodes, succ, pred, nodes):
        # returns dict node -> set(dominators)
        allset = set(nodes)
        dom = {n: set(allset) for n in nodes}
        for e in entry_nodes:
            dom[e] = {e}
        changed = True
        order = list(nodes)
        while changed:
            changed = False
            for n in order:
                if n in entry_nodes:
                    continue
                ps = [p for p in pred(n) if p in allset]
                if ps:
                    new = set.intersection(*(dom[p] for p in ps)) | {n}
                else:
                    new = {n}
                if new != dom[n]:
                    dom[n] = new
                    changed = True
        return dom

    def dom(self):
        if self._dom is None:
            nodes = sorted(self.reachable())
            self._dom = self._dom_generic({0}, self.succ, self.pred, nodes)
        return self._dom

    def dominates(self, a, b):
        d = self.dom()
        return b in d and a in d[b]

    def pdom(self):
        """post-dominators w.r.t. a virtual exit joined to every return/unreachable/diverging block"""
        if self._pdom is None:
            nodes = sorted(self.reachable())
            EXIT = -1
            ns = set(nodes)
            term_nodes = [n for n in nodes if not [s for s in self.succ(n) if s in ns]]

            def succ2(n):
                if n == EXIT:
                    return []
                r = [s for s in self.succ(n) if s in ns]
                return r if r else [EXIT]

            def pred2(n):
                if n == EXIT:
                    return term_nodes
                return [p for p in self.pred(n) if p in ns]

            # post-dominators = dominators on the reversed graph
            self._pdom = self._dom_generic({EXIT}, pred2, succ2, nodes + [EXIT])
        return self._pdom

    def postdominates(self, a, b):
        return a in self.pdom().get(b, ())

    def control_deps(self):
        """cd[b] = set of (switch_block, successor_taken) on which b is control dependent"""
        if self._cd is None:
            pd = self.pdom()
            cd = defaultdict(set)
            nodes = self.reachable()
            for a in nodes:
                ss = self.succ(a)
                if len(ss) < 2:
                    continue
                for s in ss:
                    # nodes that post-dominate s (incl s) but do not strictly post-dominate a
                    for b in pd.get(s, ()):
                        if b == -1:
                            continue
                        if b == a or b not in pd.get(a, ()):
                            cd[b].add((a, s))
            self._cd = cd
        return self._cd

    def control_deps_closure(self, b):
        """transitive control dependences of block b: set of (switch_block, succ)"""
        cd = self.control_deps()
        out = set()
        work = [b]
        seen = set()
        while work:
            x = work.pop()
            if x in seen:
                continue
            seen.add(x)
            for (a, s) in cd.get(x, ()):
                out.add((a, s))
                work.append(a)
        return out

    # ---- loops
    def back_edges(self):
        out = []
        for a in self.reachable():
            for s in self.succ(a):
                if self.dominates(s, a):
                    out.append((a, s))
        return out

    def loop_body(self, header, latch):
        body = {header}
        work = [latch]
        while work:
            x = work.pop()
            if x in body:
                continue
            body.add(x)
            work.extend(self.pred(x))
        return body

    # ---- iteration helpers
    def iter_stmts(self):
        for b in range(self.n):
            if self.is_cleanup(b):
                continue
            for i, s in enumerate(self.blocks[b]['stmts']):
                yield b, i, s

    def iter_assigns(self):
        for b, i, s in self.iter_stmts():
            if s['k'] == 'assign':
                yield b, i, s

    def iter_terms(self, kind=None):
        for b in range(self.n):
            if self.is_cleanup(b):
                continue
            t = self.blocks[b]['term']
            if kind is None or t['k'] == kind:
                yield b, t

    def calls(self, pred=None):
        out = []
        for b, t in self.iter_terms('call'):
            if pred is None or pred(t):
                out.append((b, t))
        return out

    def yields(self):
        return [b for b, t in self.iter_terms('yield')]

    # ---- definitions of locals (whole-local assignment sites)
    def defs(self):
        """local -> list of (block, stmt_index or 'term', kind, payload)"""
        if self._defs is None:
            d = defaultdict(list)
            for b, i, s in self.iter_assigns():
                p = s['place']
                d[p['l']].append((b, i, 'assign' if place_is_local(p) else 'partial', s))
            for b, t in self.iter_terms():
                if t['k'] == 'call':
                    p = t['dest']
                    d[p['l']].append((b, 'term', 'call' if place_is_local(p) else 'partial', t))
                elif t['k'] == 'yield':
                    p = t['resume_arg']
                    d[p['l']].append((b, 'term', 'yield', t))
            self._defs = d
        return self._defs

    def single_def(self, l):
        ds = [x for x in self.defs().get(l, []) if x[2] != 'partial']
        return ds[0] if len(ds) == 1 else None

    def _reach_avoiding(self, start, avoid):
        k = (start, avoid)
        r = self._reach_cache.get(k)
        if r is None:
            r = self.reachable(start, avoid=avoid)
            self._reach_cache[k] = r
        return r

    def single_def_at(self, l, at=None, at_i=None):
        """the one definition of local l that reaches block `at`: the only definition, or - when several exist - the only one from which
        `at` can be reached without passing another definition of l (definitions in unreachable blocks do not count)"""
        ds = [x for x in self.defs().get(l, []) if x[2] != 'partial']
        if len(ds) == 1:
            return ds[0]
        if at is None or not ds or len(ds) > 12:
            return None
        live = self.reachable()
        ds = [d for d in ds if d[0] in live]
        if len(ds) == 1:
            return ds[0]
        if at_i is not None:
            # a definition earlier in the block of the use kills everything before it
            same = [d for d in ds if d[0] == at and d[1] != 'term' and d[1] < at_i]
            if same:
                return max(same, key=lambda d: d[1])
        blocks = frozenset(d[0] for d in ds)
        if len(blocks) != len(ds):
            return None                     # two definitions in one block: order matters, give up
        reaching = []
        for d in ds:
            others = frozenset(blocks - {d[0]})
            if d[0] == at:
                reaching.append(d)
                continue
            r = set()
            for sx in self.succ(d[0]):
                if sx not in others:
                    r |= self._reach_avoiding(sx, others)
            if at in r:
                reaching.append(d)
        return reaching[0] if len(reaching) == 1 else None

    # ---- value tracing: follow copies/moves/refs/casts back to an origin description
    def trace(self, op, depth=12):
        """Trace an operand back through trivial assignments.
        Returns a dict: {'kind': 'const'|'field'|'call'|'arg'|'bin'|'discr'|'aggr'|'local'|..., ...}"""
        if op is None:
            return {'kind': 'unknown'}
        if op.get('k') == 'const':
            return {'kind': 'const', 'op': op, 'val': op.get('val'), 'def': op.get('def'), 'fn': op.get('fn')}
        p = op_place(op)
        if p is None:
            return {'kind': 'unknown'}
        return self.trace_place(p, depth)

    def trace_place(self, p, depth=12):
        if p.get('p'):
            pr = p['p']
            # `_x.0` of a checked arithmetic op `_x = AddWithOverflow(a, b)` is the arithmetic result
            if len(pr) == 1 and isinstance(pr[0], dict) and pr[0].get('f') == 0 and depth > 0:
                sd = self.single_def(p['l'])
                if sd and sd[2] == 'assign' and sd[3]['rv']['k'] == 'bin' and sd[3]['rv']['op'].endswith('WithOverflow'):
                    rv = sd[3]['rv']
                    return {'kind': 'bin', 'op': rv['op'][:-len('WithOverflow')], 'a': rv['a'], 'b': rv['b'],
                            'block': sd[0], 'stmt': sd[1], 'checked': True}
            if depth > 0 and not (1 <= p['l'] <= self.arg_count):
                q = self._peel(p)
                if q is not None:
                    if q.get('k') in ('const', 'copy', 'move'):
                        return self.trace(q, depth - 1)
                    return self.trace_place(q, depth - 1)
            fl = place_fields(p)
            return {'kind': 'place', 'place': p, 'fields': fl, 'base': p['l']}
        l = p['l']
        if depth <= 0:
            return {'kind': 'local', 'l': l}
        if 1 <= l <= self.arg_count:
            return {'kind': 'arg', 'l': l, 'name': self.local_name(l)}
        sd = self.single_def_at(l, p.get('@'), p.get('@i'))
        if sd is None:
            return {'kind': 'local', 'l': l, 'name': self.local_name(l), 'ndefs': len(self.defs().get(l, []))}
        b, i, kind, payload = sd
        if kind == 'call':
            return {'kind': 'call', 'callee': payload['callee'], 'args': payload['args'], 'block': b, 'term': payload}
        if kind == 'yield':
            return {'kind': 'yield', 'block': b}
        rv = payload['rv']
        k = rv['k']
        if k == 'use':
            return self.trace(rv['op'], depth - 1)
        if k == 'cast':
            return self.trace(rv['op'], depth - 1)
        if k == 'ref' or k == 'rawptr':
            if rv['place'].get('p') == ['*']:
                # reborrow `&*x` / `&raw *x`: same referent as x
                return self.trace_place({'l': rv['place']['l'], 'p': None, 's': '_%d' % rv['place']['l']}, depth - 1)
            r = self.trace_place(rv['place'], depth - 1) if not rv['place'].get('p') else \
                {'kind': 'place', 'place': rv['place'], 'fields': place_fields(rv['place']), 'base': rv['place']['l']}
            r = dict(r)
            r['ref'] = True
            return r
        if k == 'bin':
            return {'kind': 'bin', 'op': rv['op'], 'a': rv['a'], 'b': rv['b'], 'block': b, 'stmt': i}
        if k == 'un':
            return {'kind': 'un', 'op': rv['op'], 'a': rv['a'], 'block': b}
        if k == 'discr':
            return {'kind': 'discr', 'place': rv['place'], 'block': b}
        if k == 'aggr':
            return {'kind': 'aggr', 'rv': rv, 'block': b}
        return {'kind': 'rvalue', 'rv': rv, 'block': b}

    def _peel(self, p):
        """one step of scalar replacement for a projected place `_x.proj...` whose base has one reaching definition:
        copy of another place -> that place with the projections appended; aggregate -> the operand stored in the projected field;
        `Try::branch(r)` -> Continue/Break payloads are the Ok/Some / Err payloads of r; `&place` then `*` -> the place.
        Returns an operand / place dict or None."""
        pr = p['p']
        at = p.get('@')
        if pr[0] == '*':
            # through a reference: only `&local` of a local aggregate is looked through (`(*r).f` with `r = &frame` is `frame.f`); references
            # into self / arguments keep their place (deref_origin describes those)
            sd0 = self.single_def_at(p['l'], at, p.get('@i'))
            if sd0 and sd0[2] == 'assign':
                rv0 = sd0[3]['rv']
                if rv0['k'] == 'use' and op_place(rv0['op']) is not None and not op_place(rv0['op']).get('p') and not (1 <= op_place(rv0['op'])['l'] <= self.arg_count):
                    q0 = op_place(rv0['op'])
                    return {'l': q0['l'], 'p': list(pr), 's': q0.get('s', '') + '~', 'ty': '', '@': sd0[0], '@i': sd0[1] if isinstance(sd0[1], int) else (1 << 30)}
                if rv0['k'] == 'ref' and not rv0['place'].get('p') and len(pr) > 1 and not (1 <= rv0['place']['l'] <= self.arg_count):
                    return {'l': rv0['place']['l'], 'p': list(pr[1:]), 's': rv0['place'].get('s', '') + '~', 'ty': '', '@': sd0[0], '@i': sd0[1] if isinstance(sd0[1], int) else (1 << 30)}
            return None
        sd = self.single_def_at(p['l'], at, p.get('@i'))
        if sd is None:
            return None
        b, i, kind, payload = sd

        def mk(base, rest):
            q = {'l': base['l'], 'p': (list(base.get('p') or []) + list(rest)) or None, 's': base.get('s', '') + '~', 'ty': ''}
            q['@'] = b
            q['@i'] = i if isinstance(i, int) else (1 << 30)
            return q
        if kind == 'call':
            c = payload['callee']
            if c.get('name') == 'branch' and 'Try' in ((c.get('def') or '') + (c.get('trait') or '')) and payload.get('args'):
                a = op_place(payload['args'][0])
                if a and isinstance(pr[0], dict) and pr[0].get('dc') in ('Continue', 'Break') and len(pr) >= 2:
                    ty = a.get('ty') or ''
                    if pr[0]['dc'] == 'Continue':
                        dc = 'Ok' if 'Result' in ty else 'Some'
                        first = dict(pr[0], dc=dc)
                        return mk(a, [first] + list(pr[1:]))
            return None
        if kind != 'assign':
            return None
        rv = payload['rv']
        k = rv['k']
        if k in ('use', 'cast'):
            q = op_place(rv['op'])
            if q is None:
                return None
            return mk(q, pr)
        if k == 'aggr':
            ops = rv.get('ops') or []
            rest = list(pr)
            if rv.get('kind') == 'adt' and rv.get('variant') and rest and isinstance(rest[0], dict) and 'dc' in rest[0]:
                if rest[0]['dc'] != rv['variant']:
                    return None
                rest = rest[1:]
            if not rest or not isinstance(rest[0], dict) or 'f' not in rest[0]:
                return None
            fi = rest[0]['f']
            if not isinstance(fi, int) or fi >= len(ops):
                return None
            op = ops[fi]
            if len(rest) == 1:
                return op
            q = op_place(op)
            if q is None:
                return None
            return mk(q, rest[1:])
        return None

    def deref_origin(self, p, depth=12):
        """For a place whose base local is a reference temp (`(*_5).f`), rewrite the base through
        `_5 = &mut (*_1).g` / `_5 = copy _3` chains; returns list of (adt, field) from the root."""
        chain = []
        cur = p
        for _ in range(depth):
            chain = place_fields(cur) + chain
            l = cur['l']
            if 1 <= l <= self.arg_count:
                return l, chain
            sd = self.single_def(l)
            if not sd or sd[2] != 'assign':
                return l, chain
            rv = sd[3]['rv']
            if rv['k'] in ('ref', 'rawptr'):
                cur = rv['place']
            elif rv['k'] in ('use', 'cast'):
                q = op_place(rv['op'])
                if not q:
                    return l, chain
                cur = q
            else:
                return l, chain
        return cur['l'], chain

    # ---- backward slice (data dependences through locals; field-insensitive on memory)
    def slice_back(self, seeds, max_nodes=4000):
        """seeds: iterable of locals.  Returns (locals, events) where events is a list of
        ('assign', b, i, stmt) / ('call', b, term) contributing to the values of the seeds.
        Flow-insensitive over all defs of each local (sound over-approximation of the data slice)."""
        seen = set()
        events = []
        work = list(seeds)
        defs = self.defs()
        while work and len(seen) < max_nodes:
            l = work.pop()
            if l in seen:
                continue
            seen.add(l)
            for (b, i, kind, payload) in defs.get(l, []):
                if kind in ('assign', 'partial') and i != 'term':
                    events.append(('assign', b, i, payload))
                    for q in rv_places_read(payload['rv']):
                        work.extend(place_locals_read(q))
                elif i == 'term' and payload['k'] == 'call':
                    events.append(('call', b, payload))
                    for a in payload['args']:
                        q = op_place(a)
                        if q:
                            work.extend(place_locals_read(q))
                    ind = payload['callee'].get('indirect')
                    if ind:
                        q = op_place(ind)
                        if q:
                            work.extend(place_locals_read(q))
        return seen, events

    # ---- switch decoding
    def switch_info(self, b):
        """Describe the condition of the switch terminating block b:
        {'kind':'cmp', 'op':'Eq', 'a':trace, 'b':trace, 'true':bb, 'false':bb}
        {'kind':'bool', 'src':trace, 'true':bb,'false':bb}
        {'kind':'discr', 'of':trace_of_place, 'arms': {value: bb}, 'otherwise': bb, 'place': place}
        {'kind':'int', ...}"""
        t = self.term(b)
        if t['k'] != 'switch':
            return None
        arms = {a[0]: a[1] for a in t['arms']}
        oth = t['otherwise']
        tr = self.trace(t['op'])
        info = {'arms': arms, 'otherwise': oth, 'src': tr, 'op_ty': t.get('op_ty')}
        if t.get('op_ty') == 'bool':
            # arms: 0 -> false target, otherwise -> true target
            info['false'] = arms.get(0, oth)
            info['true'] = oth if 0 in arms else arms.get(1, oth)
            neg = False
            while tr.get('kind') == 'un' and tr.get('op') == 'Not':
                neg = not neg
                tr = self.trace(tr['a'])
            if neg:
                info['true'], info['false'] = info['false'], info['true']
            info['src'] = tr
            if tr.get('kind') == 'bin' and tr['op'] in ('Eq', 'Ne', 'Lt', 'Le', 'Gt', 'Ge'):
                info['kind'] = 'cmp'
                info['op'] = tr['op']
                info['a'] = self.trace(tr['a'])
                info['b'] = self.trace(tr['b'])
                info['a_op'] = tr['a']
                info['b_op'] = tr['b']
            else:
                info['kind'] = 'bool'
                pred = self._predicate_helper(tr) if tr.get('kind') == 'call' else None
                if pred is not None:
                    info.update(pred)
        elif tr.get('kind') == 'discr':
            info['kind'] = 'discr'
            info['place'] = tr['place']
            info['of'] = self.trace_place(tr['place']) if not tr['place'].get('p') else \
                {'kind': 'place', 'place': tr['place'], 'fields': place_fields(tr['place'])}
        else:
            info['kind'] = 'int'
        return info

    def _predicate_helper(self, tr):
        """`if at_limit(len)` with `const fn at_limit(n: usize) -> bool { n >= MAX }`: a call of a small function of the crate that returns
        one comparison of its parameters / constants reads as that comparison on the arguments"""
        c = tr.get('callee') or {}
        if not c.get('local'):
            return None
        hb = self.crate.by_path.get(c.get('resolved') or c.get('def') or '')
        if hb is None or hb.n > 4 or hb.is_coroutine:
            return None
        rets = [s for b, i, s in hb.iter_assigns() if s['place']['l'] == 0 and not s['place'].get('p')]
        if len(rets) != 1:
            return None
        rv = rets[0]['rv']
        t = {'kind': 'bin', 'op': rv.get('op'), 'a': rv.get('a'), 'b': rv.get('b')} if rv['k'] == 'bin' else hb.trace(rv['op']) if rv['k'] == 'use' else None
        if not t or t.get('kind') != 'bin' or t.get('op') not in ('Eq', 'Ne', 'Lt', 'Le', 'Gt', 'Ge'):
            return None

        def side(op):
            tt = hb.trace(op)
            if tt.get('kind') == 'arg' and 1 <= tt['l'] <= len(tr.get('args') or []):
                o = tr['args'][tt['l'] - 1]
                return self.trace(o), o
            if tt.get('kind') == 'const':
                return tt, op
            return None, None
        a, a_op = side(t['a'])
        b, b_op = side(t['b'])
        if a is None or b is None:
            return None
        return {'kind': 'cmp', 'op': t['op'], 'a': a, 'b': b, 'a_op': a_op, 'b_op': b_op, 'via_helper': hb.path}

    # ---- liveness of locals (for coroutine-state rules)
    def liveness(self):
        """classic backward may-liveness over whole locals; returns live_in[b] (set of locals).
        A use of any projection of a local is a use; only whole-local assignments kill."""
        use = [set() for _ in range(self.n)]
        deff = [set() for _ in range(self.n)]
        for b in range(self.n):
            if self.is_cleanup(b):
                continue
            u, d = set(), set()

            def use_place(p, as_def=False):
                # index locals and the base of projected places are uses
                for e in p.get('p') or []:
                    if isinstance(e, dict) and 'idx' in e and e['idx'] not in d:
                        u.add(e['idx'])
                if as_def:
                    if p.get('p'):
                        if p['l'] not in d:
                            u.add(p['l'])
                    else:
                        d.add(p['l'])
                else:
                    if p['l'] not in d:
                        u.add(p['l'])

            for s in self.blocks[b]['stmts']:
                if s['k'] == 'assign':
                    for q in rv_places_read(s['rv']):
                        use_place(q)
                    use_place(s['place'], as_def=True)
                elif s['k'] == 'setdiscr':
                    use_place(s['place'])
            t = self.blocks[b]['term']
            k = t['k']
            if k == 'call':
                for a in t['args']:
                    q = op_place(a)
                    if q:
                        use_place(q)
                ind = t['callee'].get('indirect')
                if ind and op_place(ind):
                    use_place(op_place(ind))
                use_place(t['dest'], as_def=True)
            elif k == 'switch':
                q = op_place(t['op'])
                if q:
                    use_place(q)
            elif k == 'assert':
                q = op_place(t['cond'])
                if q:
                    use_place(q)
            elif k == 'yield':
                q = op_place(t['value'])
                if q:
                    use_place(q)
                use_place(t['resume_arg'], as_def=True)
            elif k == 'drop':
                use_place(t['place'])
            elif k == 'return':
                u.add(0) if 0 not in d else None
            use[b], deff[b] = u, d
        live_in = [set() for _ in range(self.n)]
        live_out = [set() for _ in range(self.n)]
        changed = True
        while changed:
            changed = False
            for b in reversed(range(self.n)):
                if self.is_cleanup(b):
                    continue
                out = set()
                for s in self.succ(b):
                    out |= live_in[s]
                inn = use[b] | (out - deff[b])
                if out != live_out[b] or inn != live_in[b]:
                    live_out[b], live_in[b] = out, inn
                    changed = True
        return live_in, live_out

    # ---- pretty printer (for diagnostics and development)
    def dump(self, show_mac=False, out=sys.stdout):
        w = out.write
        w('== %s  [%s %s:%s-%s]%s\n' % (self.path, self.kind, self.file, self.lo, self.hi,
                                        ' coroutine' if self.is_coroutine else ''))
        if self.saved is not None:
            w('   saved across yields: %s\n' % ', '.join('%s' % s.get('name', '?') for s in self.saved))
        named = ['_%d=%s' % (l['i'], l['name']) for l in self.locals if l.get('name')]
        w('   named: %s\n' % ' '.join(named))
        for i, bl in enumerate(self.blocks):
            if bl.get('cleanup'):
                continue
            for s in bl['stmts']:
                if s.get('mac') and not show_mac:
                    continue
                if s['k'] == 'assign':
                    w('  bb%d  %s = %s    // L%s%s\n' % (i, s['place']['s'], rv_str(s['rv']), s['line'],
                                                       ' ' + s['mac'] if s.get('mac') else ''))
                elif s['k'] in ('live', 'dead'):
                    continue
                else:
                    w('  bb%d  %s\n' % (i, {k: v for k, v in s.items() if k != 'line'}))
            t = bl['term']
            tag = (' ' + t['mac']) if t.get('mac') else ''
            ds = (' ds=' + t['ds']) if t.get('ds') else ''
            if t['k'] == 'call':
                c = t['callee']
                nm = c.get('def') or ('indirect ' + op_str(c.get('indirect')))
                res = (' => ' + c['resolved']) if c.get('resolved') else ''
                w('  bb%d  %s = CALL %s(%s)%s -> bb%s   // L%s%s%s\n' % (
                    i, t['dest']['s'], nm, ', '.join(op_str(a) for a in t['args']), res, t.get('t'), t['line'], tag, ds))
            elif t['k'] == 'switch':
                w('  bb%d  SWITCH %s %s else bb%s   // L%s%s%s\n' % (i, op_str(t['op']), t['arms'], t['otherwise'], t['line'], tag, ds))
            elif t['k'] == 'assert':
                w('  bb%d  ASSERT %s %s==%s -> bb%s\n' % (i, t['msg'], op_str(t['cond']), t['expected'], t['t']))
            elif t['k'] == 'yield':
                w('  bb%d  YIELD -> bb%s (drop bb%s)   // L%s%s\n' % (i, t['t'], t.get('drop'), t['line'], ds))
            elif t['k'] == 'drop':
                w('  bb%d  DROP %s -> bb%s\n' % (i, t['place']['s'], t['t']))
            else:
                w('  bb%d  %s%s\n' % (i, t['k'].upper(), (' -> bb%s' % t['t']) if 't' in t else ''))


def rv_str(rv):
    k = rv['k']
    if k == 'use':
        return op_str(rv['op'])
    if k == 'ref':
        return ('&mut ' if rv.get('mut') else '&') + rv['place']['s']
    if k == 'rawptr':
        return ('&raw mut ' if rv.get('mut') else '&raw const ') + rv['place']['s']
    if k == 'bin':
        return '%s(%s, %s)' % (rv['op'], op_str(rv['a']), op_str(rv['b']))
    if k == 'un':
        return '%s(%s)' % (rv['op'], op_str(rv['a']))
    if k == 'cast':
        return '%s as %s (%s)' % (op_str(rv['op']), rv['ty'], rv['kind'][:24])
    if k == 'discr':
        return 'discriminant(%s)' % rv['place']['s']
    if k == 'aggr':
        if rv['kind'] == 'adt':
            return '%s::%s{%s}' % (rv['adt'], rv['variant'], ', '.join(op_str(o) for o in rv['ops']))
        return '%s %s(%s)' % (rv['kind'], rv.get('def', ''), ', '.join(op_str(o) for o in rv['ops']))
    if k == 'repeat':
        return '[%s; %s]' % (op_str(rv['op']), rv['n'])
    return rv.get('s', k)


# --------------------------------------------------------------------------------------------
# callee helpers

def callee_name(t):
    c = t['callee']
    return c.get('def') or ''


def callee_is(t, *subs):
    n = callee_name(t)
    r = t['callee'].get('resolved') or ''
    return any(s in n or s in r for s in subs)


def callee_trait_method(t):
    c = t['callee']
    if 'trait' in c:
        return c['trait'], c.get('name')
    return None, None


if __name__ == '__main__':
    # usage: mir.py <facts-dir> <crate-name> <path-substring> [--mac]
    d, cn, sub = sys.argv[1:4]
    for c in load_dir(d):
        if c.name != cn or c.test:
            continue
        for b in c.find(sub):
            b.dump(show_mac='--mac' in sys.argv)
        break
