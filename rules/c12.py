"""C12 - proxy-generated methods put exactly the declared call on the wire (R12.1 - R12.7)."""
import re
import ast as A
import common as C
import mir

P = 'zlink-macros/src/proxy'
GENERATORS = {'generate_method_impl': 'plain', 'generate_chain_method': 'chain-start', 'generate_chain_extension_method': 'chain-extension'}
DESTRUCTIVE = {'strip_param_attrs', 'extract_param_rename_attr'}

META = {
    'level': 'other',
    'explanation': (
        'Sibling-agreement and template rules over the syntax trees of the proxy macro\'s three per-method generators (plain, '
        'chain-start, chain-extension): (R12.1) argument facts: every ArgInfo record is built with its wire name and optional '
        'flag computed from the attribute / type helpers (never constants), each generator obtains its records from the shared '
        'parser and its params-struct fields from an emitter that reads both facts; (R12.1b) the generators run one after the '
        'other on the same trait method, so no generator may destructively strip the argument attributes of the shared '
        'signature: every call of a destructive attribute extractor receives a clone; (R12.2) flags: a generator that builds a '
        'Call reads is_streaming and is_oneway and emits set_more(true) / set_oneway(true) under them or emits nothing for such '
        'a method; (R12.3) one method-path: all three build `{interface}.{name}` with the same format string from the same '
        'rename-or-PascalCase value of the unraw\'d identifier; (R12.4) the field emitter is evaluated for all four (renamed x '
        'optional) combinations by walking its decision tree: the emitted attribute tokens contain `rename =` exactly when a '
        'wire name is set and `skip_serializing_if = "Option::is_none"` exactly when the type is Option; (R12.5) "no arguments" '
        'is an absent `parameters` (Option + skip in the plain form, content-less tagged unit variant in the chain forms); '
        '(R12.6) the reply-mapping templates have the three arms Ok(Ok) / Ok(Err) / Err; (R12.7) identifiers that become wire '
        'names pass through unraw(). Not decided: behaviour of generated code for every trait shape and value.'),
    'assumptions': ['serde derive semantics of rename / skip_serializing_if / tag / content', 'quote! interpolation emits the tokens of the interpolated variable'],
}


def fn_table(t):
    d = {}
    for f, n, impl in A.all_fns(t, P):
        d.setdefault(n['name'], (f, n))
    return d


def exec_quotes(node, env, lets=None):
    """tokens of every quote! executed under the truth assignment env = {'renamed': bool, 'optional': bool};
    unknown conditions explore both branches"""
    out = []

    def cond_val(c):
        txt = re.sub(r'\s', '', c.get('cond') or '') if isinstance(c, dict) else ''
        pat = re.sub(r'\s', '', c.get('pat') or '') if isinstance(c, dict) else ''
        full = txt + ' ' + pat
        neg = txt.startswith('!')
        v = None
        if 'serialized_name' in full:
            v = env['renamed']
            if 'None' in pat and 'Some' not in pat or 'is_none' in txt:
                v = not v
        elif 'is_optional' in full:
            v = env['optional']
        if v is not None and neg:
            v = not v
        return v

    def go(x):
        if isinstance(x, list):
            for y in x:
                go(y)
            return
        if not isinstance(x, dict):
            return
        k = x.get('k')
        if k == 'macro' and x.get('name') in ('quote', 'parse_quote'):
            out.append(x.get('tokens') or '')
            return
        if k == 'if' or k == 'letcond':
            v = cond_val(x)
            if v is None or v:
                go(x.get('then'))
            if v is None or not v:
                go(x.get('else'))
            return
        if k == 'match':
            scr = re.sub(r'\s', '', x.get('scrut') or '')
            if scr.startswith('(') and scr.endswith(')'):
                # tuple scrutinee: element-wise
                depth, cur, elems = 0, '', []
                for ch in scr[1:-1]:
                    if ch in '([{<':
                        depth += 1
                    if ch in ')]}>':
                        depth -= 1
                    if ch == ',' and depth == 0:
                        elems.append(cur)
                        cur = ''
                    else:
                        cur += ch
                elems.append(cur)
                for arm in x.get('arms') or []:
                    pat = re.sub(r'\s', '', arm.get('pat') or '')
                    pe = re.sub(r'^\(|\)$', '', pat)
                    depth, cur, pels = 0, '', []
                    for ch in pe:
                        if ch in '([{<':
                            depth += 1
                        if ch in ')]}>':
                            depth -= 1
                        if ch == ',' and depth == 0:
                            pels.append(cur)
                            cur = ''
                        else:
                            cur += ch
                    pels.append(cur)
                    match_ = True
                    for e_, p_ in zip(elems, pels):
                        if p_ == '_' or re.fullmatch(r'[a-z_]\w*', p_) and p_ not in ('true', 'false'):
                            continue
                        if 'serialized_name' in e_:
                            want = env['renamed']
                            if p_.startswith('Some') and not want or p_ == 'None' and want:
                                match_ = False
                        elif 'is_optional' in e_:
                            want = env['optional']
                            if p_ == 'true' and not want or p_ == 'false' and want:
                                match_ = False
                    if match_:
                        go(arm.get('body'))
                        break      # first matching arm wins
                return
            for arm in x.get('arms') or []:
                pat = re.sub(r'\s', '', arm.get('pat') or '')
                v = None
                if 'serialized_name' in scr:
                    v = env['renamed'] if 'Some' in pat else (not env['renamed'] if 'None' in pat else None)
                if 'is_optional' in scr:
                    v = env['optional'] if pat == 'true' else (not env['optional'] if pat == 'false' else None)
                if v is None or v:
                    go(arm.get('body'))
            return
        for kk, vv in x.items():
            if kk in ('cond_node', 'scrut_node'):
                continue
            if isinstance(vv, (dict, list)):
                go(vv)
    go(node)
    return out


CLASS_PREDS = ('is_alphabetic', 'is_alphanumeric', 'is_numeric', 'is_uppercase', 'is_lowercase', 'is_whitespace', 'is_control', 'is_ascii_alphabetic',
               'is_ascii_alphanumeric', 'is_ascii_digit', 'is_ascii_uppercase', 'is_ascii_lowercase', 'is_ascii_punctuation', 'is_digit')


def check_word_boundaries(fx, rep, rule='R12.8'):
    """the snake_case -> PascalCase conversion starts a new word at underscores and nowhere else (a digit or any other character
    inside a word does not capitalise the letter that follows it)"""
    crate = fx.crate('zlink_macros', 'full')
    conv = [b for b in crate.bodies if not b.in_test and b.kind == 'Fn' and b.path.startswith('proxy::') and
            any('to_uppercase' in (t['callee'].get('name') or '') for c2 in [b] + C.nested(crate, b) for _, t in c2.iter_terms('call')) and
            any('to_lowercase' in (t['callee'].get('name') or '') for c2 in [b] + C.nested(crate, b) for _, t in c2.iter_terms('call'))]
    if len(conv) != 1:
        rep.bad(rule, 'conversion|anchor', 'zlink-macros/src/proxy/utils.rs', 'expected exactly one case-conversion function (calls to_uppercase and to_lowercase) in the proxy generator, found %d' % len(conv))
        return
    body = conv[0]
    bodies = [body] + C.nested(crate, body)
    fk = body.path

    def calls(name_sub):
        return [(c2, blk, t) for c2 in bodies for blk, t in c2.iter_terms('call') if name_sub in (t['callee'].get('name') or '')]
    preds = [(c2, blk, t) for c2 in bodies for blk, t in c2.iter_terms('call') if (t['callee'].get('name') or '') in CLASS_PREDS and 'char' in (t['callee'].get('def') or '')]
    splits = [(c2, blk, t) for c2, blk, t in calls('split') if 'str' in (t['callee'].get('def') or '') and len(t['args']) > 1 and mir.op_is_const(t['args'][1], 95)]
    if splits:
        # idiom (a): words are the pieces of split('_'); the capitalised character is the first one of each piece
        ups = calls('to_uppercase')
        first_ok = False
        for c2, blk, t in ups:
            tr = c2.trace(t['args'][0])
            # payload of Chars::next()
            src = tr
            for _ in range(4):
                if src.get('kind') == 'place':
                    src = c2.trace_place({'l': src['base']})
                else:
                    break
            if src.get('kind') == 'call' and src['callee'].get('name') == 'next':
                first_ok = True
        rep.check(first_ok and not preds, rule, '%s|split-idiom' % fk, body.where(),
                  'words are the pieces of split(\'_\'); the first character of each piece is upper-cased, the rest lower-cased; no character class test is involved',
                  'the conversion splits at underscores but %s' % ('a character class test (%s) takes part in it' % sorted({t['callee']['name'] for _, _, t in preds}) if preds
                                                                   else 'the upper-cased character is not the first one of each piece'))
        return
    # idiom (b): one pass with a word-start flag
    ups = [(c2, blk) for c2, blk, t in calls('to_uppercase') if c2 is body]
    lows = [(c2, blk) for c2, blk, t in calls('to_lowercase') if c2 is body]
    flag = None
    for sw in range(body.n):
        if body.is_cleanup(sw) or body.term(sw)['k'] != 'switch':
            continue
        info = body.switch_info(sw)
        if not info or info.get('kind') != 'bool' or info['src'].get('kind') != 'local':
            continue
        rt, rf = body.reachable(info['true'], avoid=(sw,)), body.reachable(info['false'], avoid=(sw,))
        up_t = any(b in rt for _, b in ups) and not any(b in rt and b not in rf for _, b in lows)
        if any(b in rt and b not in rf for _, b in ups) and any(b in rf and b not in rt for _, b in lows) or \
           any(b in rf and b not in rt for _, b in ups) and any(b in rt and b not in rf for _, b in lows):
            flag = info['src']['l']
            flag_sw = sw
    if flag is None:
        rep.bad(rule, '%s|shape' % fk, body.where(), 'the case conversion is neither the split(\'_\') form nor a single pass with a word-start flag: where a word starts cannot be established')
        return
    bad = []
    n_st = 0
    for b, i, st in body.iter_assigns():
        pl = st['place']
        if pl['l'] != flag or pl.get('p'):
            continue
        n_st += 1
        # data dependence of the stored value
        rv = st['rv']
        srcs = []
        if rv['k'] == 'use' and rv['op']['k'] == 'const':
            pass
        else:
            ops = mir.rv_operands(rv)
            for o in ops:
                tr = body.trace(o)
                while tr.get('kind') == 'un':
                    tr = body.trace(tr['a'])
                if tr.get('kind') == 'call' and (tr['callee'].get('name') or '') in CLASS_PREDS:
                    bad.append('the flag is assigned from %s(..) (line %s)' % (tr['callee']['name'], st.get('line')))
                elif tr.get('kind') == 'bin' and tr['op'] in ('Eq', 'Ne') and (mir.op_is_const(tr['a'], 95) or mir.op_is_const(tr['b'], 95)):
                    pass
                elif tr.get('kind') in ('const',) or (tr.get('kind') == 'local' and tr.get('l') == flag):
                    pass
                else:
                    bad.append('the flag is assigned from something other than a constant or a comparison with `_` (line %s)' % st.get('line'))
        # control dependence of the store
        for sw, tgt in body.control_deps_closure(b):
            info = body.switch_info(sw)
            if not info:
                continue
            src = info.get('src') or {}
            if info.get('kind') == 'bool' and src.get('kind') == 'call' and (src['callee'].get('name') or '') in CLASS_PREDS:
                bad.append('the flag is assigned under a %s(..) test (line %s)' % (src['callee']['name'], st.get('line')))
    rep.check(n_st > 0 and not bad, rule, '%s|flag-idiom' % fk, body.where(),
              'the word-start flag is set only by constants and comparisons with `_`, under no character class test',
              'where a word starts does not depend on underscores alone: %s - a digit (or another non-letter) inside a word makes the next letter upper-case, so `list_2fa_devices` '
              'is sent as `List2FaDevices` instead of `List2faDevices`' % '; '.join(sorted(set(bad))))


SWALLOWERS = ('ok', 'unwrap_or', 'unwrap_or_default', 'unwrap_or_else', 'map_or', 'map_or_else', 'is_ok', 'is_err', 'err', 'or_else', 'iter', 'into_iter')
SWALLOW_EXEMPT = {}


def check_error_discipline(fx, rep, rule='R12.9'):
    """a syn::Error built while reading the `#[zlink(..)]` attributes of a method or argument reaches the user: it is propagated, never
    turned into None / a default (the macro would accept the trait and silently ignore what the user declared)"""
    crate = fx.crate('zlink_macros', 'full')
    n = 0
    for b in crate.bodies:
        if b.in_test or not b.path.startswith('proxy'):
            continue
        ordn = 0
        for blk, t in b.iter_terms('call'):
            c = t['callee']
            d = c.get('def') or ''
            if 'result::Result' not in d or c.get('name') not in SWALLOWERS or 'syn::Error' not in (c.get('args') or ''):
                continue
            if t.get('mac'):
                continue
            n += 1
            ordn += 1
            key = '%s|%s|%d' % (b.path, c.get('name'), ordn)
            why = SWALLOW_EXEMPT.get('%s|%s' % (b.path, c.get('name')))
            if why is None and c.get('name') in ('unwrap_or_else', 'map_or_else', 'or_else', 'map_err') and len(t['args']) >= 2:
                # the error is not dropped when the closure turns it into the compile error the user sees
                clo = b.trace(t['args'][-1] if c.get('name') != 'map_or_else' else t['args'][1])
                cb = crate.by_path.get(clo['rv'].get('def')) if clo.get('kind') == 'aggr' and clo['rv'].get('kind') == 'closure' else None
                if cb is not None and any(tt['callee'].get('name') in ('to_compile_error', 'into_compile_error') for _, tt in cb.iter_terms('call')):
                    why = 'the closure turns the error into a compile error (to_compile_error)'
            rep.check(why is not None, rule, key, C.where(b, blk), 'listed: %s' % why,
                      'a Result<_, syn::Error> is discarded with `.%s()` in %s: an attribute list the processor rejects (unknown or duplicate item, non-string rename) is not reported; '
                      'the trait is accepted and the whole list - rename, more, oneway - is silently ignored, so the call on the wire is not the declared one' % (c.get('name'), b.path))
    rep.ok(rule, 'proxy|swallowed-attribute-errors|count', 'zlink-macros/src/proxy', '%d Result<_, syn::Error> values are discarded in the proxy generator' % n)


def check_option_spellings(fx, rep):
    """the emitter decides `skip_serializing_if` from is_option_type: the three ways to spell the type must all be recognised"""
    NEED = ('Option', 'std::option::Option', 'core::option::Option')
    n = 0
    for fn, it, impl in A.all_fns(fx.tpl, 'zlink-macros/src'):
        if it['name'] != 'is_option_type':
            continue
        n += 1
        lits = set()
        for x in A.nodes(it.get('body') or []):
            if x.get('k') == 'str' and isinstance(x.get('value'), str):
                lits.add(x['value'])
        # named string constants of the same file that the function mentions (`const OPTION_IDENT: &str = "Option"`)
        named = {}
        for fn2, f2 in fx.tpl.files.items():
            if fn2 != fn:
                continue
            for y in A.nodes(f2.get('items') or []):
                if y.get('k') == 'const' and isinstance(y.get('expr'), dict) and y['expr'].get('k') == 'str':
                    named[y.get('name')] = y['expr'].get('value')
        body_txt = ' '.join(A.text(x) for x in A.nodes(it.get('body') or []) if x.get('k') == 'path')
        for nm_, val_ in named.items():
            if nm_ and re.search(r'\b%s\b' % re.escape(nm_), body_txt):
                lits.add(val_)
        missing = []
        for w in NEED:
            # recognised by an exact literal, or (for the qualified forms) by a suffix literal that the spelling itself ends with
            if w in lits:
                continue
            missing.append(w)
        early = [x for x in A.nodes(it.get('body') or []) if x.get('k') == 'return' and re.sub(r'\s', '', A.text(x.get('expr') or x.get('value') or {}) or '') == 'false']
        rep.check(len(early) <= 1, 'R12.2', 'is_option_type|no-rejecting-guard', '%s:%s' % (fn, it.get('line')),
                  'is_option_type gives up early only for a type that is not a path',
                  'is_option_type has %d early `return false` (one - the non-path case - is expected): a guard ahead of the spelling comparisons turns some way of writing `Option<T>` '
                  '(`::std::option::Option`, a qualified path ..) into "not optional", and its `None` goes out as `null`' % len(early))
        rep.check(not missing, 'R12.2', 'is_option_type|spellings', '%s:%s' % (fn, it.get('line')),
                  'is_option_type recognises Option, std::option::Option and core::option::Option',
                  'is_option_type has no alternative that equals %s (its literals: %s): an argument declared with that spelling is not treated as optional, its `None` goes out as '
                  '`null` instead of being omitted - in the plain, the chain_ and the chain-extension form alike' % (', '.join('`%s`' % m for m in missing), sorted(lits)))
    if not n:
        rep.bad('R12.2', 'is_option_type|anchor', 'zlink-macros/src/utils.rs', 'fn is_option_type not found')


def check(fx, rep, tier):
    rep.rule('R12.9', 'errors built for `#[zlink(..)]` attribute lists are propagated: no Result<_, syn::Error> in the proxy generator is turned into an Option or a default')
    check_option_spellings(fx, rep)
    rep.rule('R12.8', 'PascalCase conversion: a new word starts at an underscore and nowhere else (split(\'_\') form, or a word-start flag that depends only on constants and comparisons with `_`)')
    rep.rule('R12.1', 'every ArgInfo is built from the attribute/type helpers; every generator takes its records from the shared parser and its struct fields from an emitter reading both facts')
    rep.rule('R12.1b', 'destructive attribute extractors are applied to clones only: all generators see the same argument attributes')
    rep.rule('R12.2', 'each Call-building generator reads is_streaming / is_oneway and emits set_more(true) / set_oneway(true) under them or nothing')
    rep.rule('R12.3', 'one qualified method-name format, built from rename-or-PascalCase of the unraw\'d identifier, in all three generators')
    rep.rule('R12.4', 'field emitter: `rename` iff a wire name is set, `skip_serializing_if = "Option::is_none"` iff optional, for all four combinations')
    rep.rule('R12.5', 'no arguments => `parameters` absent (Option + skip in the plain form, content-less unit variant in chain forms)')
    rep.rule('R12.6', 'reply mapping templates have the three arms Ok(Ok) / Ok(Err) / Err')
    rep.rule('R12.7', 'identifiers that become wire names pass through unraw()')
    t = fx.tpl
    fns = fn_table(t)
    allf = A.all_fns(t, P)
    missing = [g for g in GENERATORS if g not in fns]
    if missing:
        rep.bad('R12.1', 'anchor-generators', P, 'generator entry point(s) not found: %s' % missing)
        return META
    # which generators does proxy() call per method
    # ---- R12.1 ArgInfo constructions
    n_ctor = 0
    for f, n, impl in allf:
        for x in A.nodes(n['body']):
            if x.get('k') == 'struct' and re.sub(r'\s', '', x.get('path') or x.get('name') or '') == 'ArgInfo':
                n_ctor += 1
                vals = {fl.get('name'): fl.get('value') for fl in x.get('fields') or []}
                bad = []
                for fld in ('is_optional', 'serialized_name'):
                    v = vals.get(fld)
                    if v is None or (v.get('k') == 'path' and v.get('text') == fld):
                        # shorthand: a local of the same name; find its let
                        lets = [y for y in A.nodes(n['body']) if y.get('k') == 'let' and (y.get('pat') or '').replace('mut ', '').strip() == fld]
                        v = lets[-1].get('init') if lets else None
                    txt = A.text(v) if v else ''
                    if v is not None and v.get('k') not in ('path', 'bool', 'call', 'mcall'):
                        # a match / if / `?` around the helper call: the facts come from the calls inside
                        txt += ' ' + ' '.join((y.get('func') if isinstance(y.get('func'), str) else A.text(y.get('func'))) if y.get('k') == 'call' else (y.get('method') or '')
                                              for y in A.nodes(v) if y.get('k') in ('call', 'mcall'))
                    if v is None or v.get('k') in ('bool',) or txt in ('None', 'false', 'true') or (v.get('k') == 'path' and v.get('text') in ('None', 'false')):
                        bad.append('%s = %s' % (fld, txt or '?'))
                    elif fld == 'is_optional' and 'is_option_type' not in txt and 'Option' not in txt:
                        bad.append('%s = %s' % (fld, txt))
                    elif fld == 'serialized_name' and 'rename' not in txt:
                        bad.append('%s = %s' % (fld, txt))
                rep.check(not bad, 'R12.1', 'arginfo-ctor|%s|%s' % (f.split('/')[-1], n['name']), '%s:%s' % (f, x.get('line')),
                          'ArgInfo is filled from extract_param_rename_attr(..) and is_option_type(..)',
                          'an argument record is built with constant facts (%s): renames / optional arguments are ignored by the generator using it' % bad)
    if n_ctor == 0:
        rep.bad('R12.1', 'arginfo-ctor|anchor', P, 'no construction of the per-argument record found')
    for g, label in GENERATORS.items():
        f, n = fns[g]
        body_text = [A.text(x) for x in A.nodes(n['body']) if x.get('k') in ('call',)]
        calls = {x.get('func') if isinstance(x.get('func'), str) else A.text(x.get('func')) for x in A.nodes(n['body']) if x.get('k') == 'call'}
        calls_last = {c.split('::')[-1] for c in calls}
        # transitive one level: helper fns in the same file
        helper_calls = set()
        for c in list(calls_last):
            if c in fns and fns[c][0] == f:
                helper_calls |= {(y.get('func') if isinstance(y.get('func'), str) else A.text(y.get('func'))).split('::')[-1]
                                 for y in A.nodes(fns[c][1]['body']) if y.get('k') == 'call'}
        rep.check('parse_method_arguments' in calls_last, 'R12.1', 'generator|%s|shared-argument-parser' % label, '%s:%s' % (f, n.get('line')),
                  'takes its argument records from parse_method_arguments', 'the %s generator does not use the shared argument parser' % label)
        rep.check('generate_params_struct_fields' in (calls_last | helper_calls), 'R12.1', 'generator|%s|shared-field-emitter' % label, '%s:%s' % (f, n.get('line')),
                  'emits its params-struct fields through generate_params_struct_fields', 'the %s generator emits params-struct fields without the shared emitter '
                  '(sibling generators may disagree on rename / Option handling)' % label)
    # ---- R12.1b destructive extractors on clones only
    n_d = 0
    for f, n, impl in allf:
        if n['name'] in DESTRUCTIVE:
            continue
        lets = {(y.get('pat') or '').replace('mut ', '').strip(): A.text(y.get('init')) for y in A.nodes(n['body']) if y.get('k') == 'let' and isinstance(y.get('init'), dict)}
        for x in A.nodes(n['body']):
            if x.get('k') == 'call':
                fname = (x.get('func') if isinstance(x.get('func'), str) else A.text(x.get('func'))).split('::')[-1]
                if fname in DESTRUCTIVE and x.get('args'):
                    n_d += 1
                    a = A.text(x['args'][0])
                    root = re.sub(r'^&(mut)?', '', a).strip()
                    root_ident = re.split(r'[.\[(]', root)[0]
                    on_clone = '.clone()' in a or '.clone()' in lets.get(root_ident, '') or 'clone' in lets.get(root_ident, '')
                    if not on_clone:
                        # the driver loop may strip the shared signature once every generator has run
                        later = [y for y in A.nodes(n['body']) if y.get('k') == 'call' and
                                 (y.get('func') if isinstance(y.get('func'), str) else A.text(y.get('func'))).split('::')[-1] in GENERATORS and
                                 (y.get('line') or 0) > (x.get('line') or 0)]
                        calls_generators = any(y.get('k') == 'call' and (y.get('func') if isinstance(y.get('func'), str) else A.text(y.get('func'))).split('::')[-1] in GENERATORS
                                               for y in A.nodes(n['body']))
                        on_clone = calls_generators and not later
                    rep.check(on_clone, 'R12.1b', 'destructive-extractor|%s|%s|%s' % (f.split('/')[-1], n['name'], fname), '%s:%s' % (f, x.get('line')),
                              '%s is applied to a clone (%s)' % (fname, a),
                              '%s(%s) strips the zlink argument attributes of the shared trait method in place: the generators that run afterwards no longer '
                              'see the argument renames' % (fname, a))
    if n_d == 0:
        rep.bad('R12.1b', 'destructive-extractor|anchor', P, 'no use of the attribute extractors found: anchor lost')
    # ---- R12.2 flags
    for g, label in GENERATORS.items():
        f, n = fns[g]
        file_fns = [x for x in allf if x[0] == f]
        reads = {x.get('member') for ff, nn, ii in file_fns for x in A.nodes(nn['body']) if x.get('k') == 'field' and A.text(x.get('base')).endswith('method_attrs')}
        toks = ' '.join(m.get('tokens') or '' for ff, nn, ii in file_fns for m in A.macros(nn['body']))
        builds_call = 'Call :: new' in toks
        if label == 'plain':
            ok = {'is_streaming', 'is_oneway'} <= reads and 'set_more (true)' in toks and 'set_oneway (true)' in toks
            msg = 'reads is_streaming / is_oneway and emits set_more(true) / set_oneway(true)'
        elif label == 'chain-start':
            # oneway -> nothing; streaming -> set_more(true) under is_streaming
            guard = False
            for x, path in A.nodes_with_path(n['body']):
                if x.get('k') != 'macro' or 'set_more (true)' not in (x.get('tokens') or ''):
                    continue
                for c in path:
                    # `if attrs.is_streaming { quote!(..) }`, `attrs.is_streaming.then(|| quote!(..))`, `match attrs.is_streaming { true => quote!(..), .. }`
                    if c.get('k') == 'if' and 'is_streaming' in (c.get('cond') or '') and '!' not in (c.get('cond') or '') and x in list(A.nodes(c.get('then'))):
                        guard = True
                    if c.get('k') == 'mcall' and c.get('method') in ('then', 'then_some') and 'is_streaming' in A.text(c.get('recv')) and '!' not in A.text(c.get('recv')):
                        guard = True
                    if c.get('k') == 'match' and 'is_streaming' in (c.get('scrut') or ''):
                        for a_ in c.get('arms') or []:
                            if (a_.get('pat') or '').strip() == 'true' and x in list(A.nodes(a_.get('body'))):
                                guard = True
            skip = any(x.get('k') == 'if' and 'is_oneway' in (x.get('cond') or '') and any(y.get('k') == 'return' for y in A.nodes(x.get('then'))) for x in A.nodes(n['body']))
            ok = guard and skip
            msg = 'emits set_more(true) under is_streaming and nothing for oneway methods'
        else:
            skip = [x for x in A.nodes(n['body']) if x.get('k') == 'if' and any(y.get('k') == 'return' for y in A.nodes(x.get('then')))]
            conds = ' '.join(x.get('cond') or '' for x in skip)
            ok = ('is_oneway' in conds and 'is_streaming' in conds) or ('is_oneway' in conds and 'set_more (true)' in toks)
            msg = 'emits nothing for oneway / streaming methods (or sets `more`)'
        rep.check(builds_call and ok, 'R12.2', 'generator|%s|flags' % label, '%s:%s' % (f, n.get('line')), 'the %s generator %s' % (label, msg),
                  'the %s generator builds a Call without honouring the method\'s more / oneway annotation (expected: %s)' % (label, msg), {'reads': sorted(r for r in reads if r)})
    # ---- R12.3 method path
    fmts = {}
    chains = {}
    for g, label in GENERATORS.items():
        f, n = fns[g]
        lets = {(y.get('pat') or '').replace('mut ', '').strip(): y.get('init') for y in A.nodes(n['body']) if y.get('k') == 'let' and isinstance(y.get('init'), dict)}
        mp = lets.get('method_path')
        if mp is None:
            # any binding initialised by a format! of `{interface}.{name}` or by a helper that returns one
            for k_, v_ in lets.items():
                if v_.get('k') == 'macro' and '{interface_name}.' in (v_.get('fmt') or ''):
                    mp = v_
        if mp is not None and mp.get('k') in ('call', 'try') :
            callee = mp if mp.get('k') == 'call' else mp.get('expr') or {}
            hname = (callee.get('func') if isinstance(callee.get('func'), str) else A.text(callee.get('func') or {})).split('::')[-1] if callee.get('k') == 'call' else None
            hs = [(ff, nn) for ff, nn, ii in allf if nn['name'] == hname]
            if len(hs) == 1:
                # the three generators share one helper that builds the path: its bindings are theirs
                hn = hs[0][1]
                # the helper's parameters stand for the caller's arguments
                for q_, a_ in zip(hn.get('params') or [], callee.get('args') or []):
                    pn_ = re.sub(r'^(mut\s+)?', '', q_.split(':')[0].strip())
                    a0_ = a_
                    while isinstance(a0_, dict) and a0_.get('k') in ('ref', 'paren') and isinstance(a0_.get('expr'), dict):
                        a0_ = a0_['expr']
                    if pn_ not in lets and not (isinstance(a0_, dict) and a0_.get('k') == 'path' and (a0_.get('text') or '').strip() == pn_):
                        lets[pn_] = a_
                for y in A.nodes(hn['body']):
                    if y.get('k') == 'let' and isinstance(y.get('init'), dict):
                        lets.setdefault((y.get('pat') or '').replace('mut ', '').strip(), y.get('init'))
                fm = [m for m in A.nodes(hn['body']) if m.get('k') == 'macro' and m.get('name') == 'format' and '{interface_name}.' in (m.get('fmt') or '')]
                if fm:
                    mp = fm[-1]
        fmts[label] = (mp or {}).get('fmt') if mp and mp.get('k') == 'macro' else A.text(mp)
        # follow the bindings from the interpolated name back to the identifier, whatever the locals are called
        fm_ = fmts[label] or ''
        mvars = re.findall(r'\{(\w+)\}', fm_)
        name_var = mvars[-1] if len(mvars) == 2 else 'actual_method_name'

        # the interpolated name as a canonical expression: bindings resolved, borrowing / cloning / string conversions transparent, every spelling of
        # "the rename if there is one, else .." (unwrap_or, unwrap_or_else, map_or, match Some/None, if let Some) as one `choice` node
        TRANSPARENT = ('clone', 'to_string', 'to_owned', 'as_str', 'as_deref', 'as_ref', 'into', 'cloned', 'borrow', 'deref', 'as_deref_mut')

        def canon(nd, depth=0, bound=None):
            bound = bound or {}
            if nd is None or depth > 24:
                return '?'
            if isinstance(nd, str):
                return nd
            k = nd.get('k')
            if k == 'path':
                t_ = (nd.get('text') or '').strip()
                if t_ in bound:
                    return bound[t_]
                if t_ in lets and lets[t_] is not nd:
                    return canon(lets[t_], depth + 1, bound)
                return t_
            if k in ('ref', 'paren', 'deref', 'group', 'unary') and isinstance(nd.get('expr'), dict):
                return canon(nd['expr'], depth + 1, bound)
            if k == 'field':
                return A.text(nd).replace(' ', '')
            if k == 'closure':
                return canon(nd.get('body'), depth + 1, bound)
            if k == 'mcall':
                m_ = nd.get('method')
                if m_ in TRANSPARENT:
                    return canon(nd.get('recv'), depth + 1, bound)
                if m_ in ('unwrap_or', 'unwrap_or_else') and nd.get('args'):
                    return ('choice', canon(nd.get('recv'), depth + 1, bound), canon(nd['args'][0], depth + 1, bound))
                if m_ in ('map_or', 'map_or_else') and len(nd.get('args') or []) == 2:
                    return ('choice', canon(nd.get('recv'), depth + 1, bound), canon(nd['args'][0], depth + 1, bound))
                return (m_, canon(nd.get('recv'), depth + 1, bound)) + tuple(canon(a_, depth + 1, bound) for a_ in nd.get('args') or [])
            if k == 'call':
                fn_ = nd.get('func') if isinstance(nd.get('func'), str) else A.text(nd.get('func') or {})
                return (fn_.replace(' ', '').split('::')[-1],) + tuple(canon(a_, depth + 1, bound) for a_ in nd.get('args') or [])
            if k == 'match' and len(nd.get('arms') or []) == 2:
                some = [a_ for a_ in nd['arms'] if re.match(r'Some\s*\(', a_.get('pat') or '')]
                none = [a_ for a_ in nd['arms'] if (a_.get('pat') or '').strip() in ('None', '_')]
                if len(some) == 1 and len(none) == 1:
                    v_ = re.sub(r'^(ref\s+|mut\s+)*', '', re.match(r'Some\s*\(\s*(.*?)\s*\)$', some[0]['pat'].strip()).group(1))
                    sc = canon(nd.get('scrut_node') or nd.get('scrut'), depth + 1, bound)
                    if canon(some[0].get('body'), depth + 1, dict(bound, **{v_: '<payload>'})) == '<payload>':
                        return ('choice', sc, canon(none[0].get('body'), depth + 1, bound))
            if k == 'if':
                m_ = re.match(r'let\s+Some\s*\(\s*(?:ref\s+)?(\w+)\s*\)\s*=\s*(.*)$', (nd.get('cond') or '').strip())
                if m_ and nd.get('else') is not None:
                    sc_n = (nd.get('cond_node') or {}).get('expr') if isinstance(nd.get('cond_node'), dict) else None
                    sc = canon(sc_n, depth + 1, bound) if sc_n else re.sub(r'[&\s]', '', m_.group(2))
                    th = nd.get('then')
                    th = th[-1] if isinstance(th, list) and th else th
                    el = nd.get('else')
                    el = el[-1] if isinstance(el, list) and el else el
                    th = (th.get('expr') or th) if isinstance(th, dict) and th.get('k') == 'expr' else th
                    el = (el.get('expr') or el) if isinstance(el, dict) and el.get('k') == 'expr' else el
                    if canon(th, depth + 1, dict(bound, **{m_.group(1): '<payload>'})) == '<payload>':
                        return ('choice', sc, canon(el, depth + 1, bound))
            if k == 'block' and nd.get('body'):
                last = nd['body'][-1]
                return canon(last.get('expr') or last if isinstance(last, dict) else last, depth + 1, bound)
            return re.sub(r'\s', '', A.text(nd))
        cn = canon(lets.get(name_var))

        def flat(x):
            return x if isinstance(x, str) else '(' + ' '.join(flat(y) for y in x) + ')'
        is_choice = isinstance(cn, tuple) and cn[0] == 'choice'
        opt_src = flat(cn[1]) if is_choice else flat(cn)
        dflt = flat(cn[2]) if is_choice else ''
        chains[label] = (opt_src if is_choice else 'not a rename-or-default choice: ' + opt_src, dflt, 'unraw' in dflt)
        fmts[label] = re.sub(r'\{%s\}' % re.escape(name_var), '{<name>}', fm_) if len(mvars) == 2 else fm_
    vals = set(fmts.values())
    rep.check(len(vals) == 1 and None not in vals and '{interface_name}.{<name>}' in vals, 'R12.3', 'method-path|format', P,
              'all three generators build the method path as %s' % sorted(vals), 'the generators format the qualified method name differently: %s' % fmts)
    same_chain = len({(a, b) for a, b, c in chains.values()}) == 1 and all(a.endswith('.rename') and b.startswith('(snake_case_to_pascal_case ') for a, b, c in chains.values())
    rep.check(same_chain, 'R12.3', 'method-path|name-source', P, 'name = method_attrs.rename or PascalCase(identifier) in all three generators',
              'the generators derive the wire method name differently: %s' % chains)
    rep.check(all(c for a, b, c in chains.values()), 'R12.7', 'method-ident|unraw', P, 'the method identifier is unraw\'d before it becomes a wire name in all three generators',
              'a generator turns the method identifier into a wire name without unraw(): `fn r#type` would be sent as `R#type`')
    raw = []
    for f, n, impl in allf:
        for x in A.nodes(n['body']):
            if x.get('k') == 'mcall' and x.get('method') == 'to_string':
                r = A.text(x.get('recv'))
                if re.search(r'(sig\.ident|method_name|method_ident)$', r) and 'unraw' not in r:
                    raw.append('%s:%s %s.to_string()' % (f, x.get('line'), r))
    rep.check(not raw, 'R12.7', 'ident-to-string|unraw', P, 'no identifier is stringified for the wire without unraw()', 'identifier stringified without unraw(): %s' % raw)
    # R12.7 (resolved form): every Ident -> String conversion of the macro crate that can reach the wire is unraw'd (rule code of C15/R15.4)
    import engine, c15
    sub = engine.Report('C15', 'quick')
    c15.check_idents(fx, sub)
    for i in sub.insts:
        if 'proxy::' in i.key:
            (rep.ok if i.ok else rep.bad)('R12.7', i.key, i.where, i.msg, i.detail)
    # ---- R12.4 emitter truth table
    if 'generate_params_struct_fields' in fns:
        f, n = fns['generate_params_struct_fields']
        for renamed in (False, True):
            for optional in (False, True):
                toks = ' '.join(exec_quotes(n['body'], {'renamed': renamed, 'optional': optional}))
                has_r = bool(re.search(r'\brename\s*=', toks))
                has_s = 'skip_serializing_if' in toks and 'Option::is_none' in toks.replace(' ', '')
                rep.check(has_r == renamed and has_s == optional, 'R12.4', 'field-emitter|renamed=%s|optional=%s' % (renamed, optional), '%s:%s' % (f, n.get('line')),
                          'emits rename=%s skip_serializing_if=%s' % (has_r, has_s),
                          'for an argument with wire-name-set=%s and Option-type=%s the field emitter produces rename=%s, skip_serializing_if=%s: %s' % (
                              renamed, optional, has_r, has_s,
                              'a None argument is sent as null instead of being omitted' if optional and not has_s else 'the declared wire name is not used' if renamed and not has_r else 'spurious attribute'))
    else:
        rep.bad('R12.4', 'field-emitter|anchor', P, 'generate_params_struct_fields not found')
    # ---- R12.5 no-arguments templates
    mi = ' '.join(m.get('tokens') or '' for f, n, impl in allf if f.endswith('method_impl.rs') for m in A.macros(n['body']))
    ok_plain = bool(re.search(r'skip_serializing_if\s*=\s*"Option::is_none"\s*\)\s*\]\s*parameters\s*:\s*Option\s*<', mi))
    rep.check(ok_plain, 'R12.5', 'plain|parameters-optional', P + '/method_impl.rs', 'the plain form declares `parameters: Option<T>` with skip_serializing_if',
              'the plain form does not omit `parameters` when there are no arguments')
    for fname, label in (('chain_method.rs', 'chain-start'), ('chain_extension.rs', 'chain-extension')):
        tk = [m.get('tokens') or '' for f, n, impl in allf if f.endswith(fname) for m in A.macros(n['body'])]
        unit = any(re.search(r'serde\s*\(\s*tag\s*=\s*"method"\s*\)', x) and re.search(r'rename\s*=\s*#\s*method_path\s*\)\s*\]\s*Method\s*,', x) for x in tk)
        withp = any(re.search(r'tag\s*=\s*"method"\s*,\s*content\s*=\s*"parameters"', x) and re.search(r'rename\s*=\s*#\s*method_path', x) for x in tk)
        rep.check(unit and withp, 'R12.5', '%s|tagged-wrapper' % label, '%s/%s' % (P, fname),
                  'with arguments: tag="method", content="parameters"; without: content-less unit variant renamed to the method path',
                  'the %s form does not encode (method path, parameters) through a tagged wrapper with a content-less variant for "no arguments"' % label)
    # ---- R12.6 reply mapping
    for g in ('generate_regular_method', 'generate_streaming_method'):
        if g not in fns:
            rep.bad('R12.6', 'reply-mapping|%s|anchor' % g, P, '%s not found' % g)
            continue
        f, n = fns[g]
        tk = ' '.join(m.get('tokens') or '' for m in A.macros(n['body']))
        ok = bool(re.search(r'Ok \(Ok \(reply\)\) =>', tk)) and bool(re.search(r'Ok \(Err \((\w+)\)\) => Ok \(Err \(\1\)\)', tk)) and bool(re.search(r'Err \((\w+)\) => Err \(\1\)', tk))
        # equivalent two-arm form behind `?`: transport errors propagate, Ok(reply) -> output, Err(e) -> Ok(Err(e))
        ok = ok or (bool(re.search(r'\. await \?\s*\{\s*Ok \(reply\) =>', tk)) and bool(re.search(r'Err \((\w+)\) => Ok \(Err \(\1\)\)', tk)))
        rep.check(ok, 'R12.6', 'reply-mapping|%s' % g, '%s:%s' % (f, n.get('line')), 'arms: Ok(Ok(reply)) -> output, Ok(Err(e)) -> Ok(Err(e)), Err(e) -> Err(e) (or `?` for the last)',
                  'the reply mapping of %s does not have the three arms Ok(Ok) / Ok(Err) -> Ok(Err) / Err -> Err' % g)
    check_error_discipline(fx, rep)
    check_word_boundaries(fx, rep)
    import imports as _imp
    _imp.layer(fx, rep, 'C12')
    return META
