"""C20 - notified state: subscribers converge on the latest value, in order (R20.1 - R20.6)."""
import mir
from mir import op_place, op_str, place_is_local
import common as C

META = {
    'level': 'other',
    'explanation': (
        'Constant-argument, guard and path rules over the MIR of the `notified` modules of zlink-tokio and zlink-smol, evaluated '
        'per crate and compared (sibling agreement): (R20.1) every reply built in the broadcast arm of Stream::poll_next is '
        'Reply::new(Some(value)).set_continues(Some(true)) and in the one-shot arm ...set_continues(Some(false)) (constants read '
        'from the MIR aggregates, arms identified by the discriminant switch over the stream-kind enum, closures attributed to the '
        'arm that creates them); (R20.2) lag never ends or stalls a subscription: where the inner stream reports lag as an Err item '
        '(tokio BroadcastStream) the Err edge of an explicit match goes back to polling the inner stream and reaches no return '
        'without it; end of stream (Ready(None)) in the broadcast arm is produced only under the inner item\'s None '
        'discriminant; where lag is handled by the channel (async-broadcast) the channel is created with capacity 1, '
        'set_overflow(true), set_await_active(false) and an inactive receiver is kept in the State; (R20.3) one-shot: a terminated '
        'test (is_terminated() or a flag of the stream) guards the poll - its true edge returns Ready(None) without polling - and '
        'when the flag idiom is used it is set on every path that yields the item; (R20.4) State::stream() itself subscribes '
        '(subscribe / activate_cloned called in stream(), result moved into the broadcast variant), so a value set after stream() '
        'returned is not missed; (R20.5) State::set stores the new value in the State and hands the same value to the channel; '
        'State::new creates a capacity-1 channel; (R20.6) both crates satisfy the same obligations. Not decided: ordering and '
        'eventual delivery under every interleaving (semantics of tokio::sync::broadcast / async-broadcast).'),
    'assumptions': ['tokio::sync::broadcast with capacity 1 reports overwritten values as Lagged and then continues with the most recent value',
                    'async-broadcast in overflow mode drops the oldest value and its Receiver stream skips Overflowed'],
}

SUBSCRIBE = {'subscribe', 'activate_cloned', 'new_receiver', 'activate', 'resubscribe'}


def kind_switch(crate, body):
    """switch over the stream-kind enum (StreamInner / its pin projection): returns (switch block, {variant name: target})"""
    best = None
    for sw in range(body.n):
        if body.is_cleanup(sw) or body.term(sw)['k'] != 'switch':
            continue
        info = body.switch_info(sw)
        if info and info.get('kind') == 'discr':
            ty = info['place'].get('ty') or ''
            if 'StreamInner' in ty:
                base = ty.split('<')[0]
                adt = [a for p, a in crate.adts.items() if p == base or p.endswith(base.split('::')[-1])]
                names = {}
                if adt:
                    for i, v in enumerate(adt[0]['variants']):
                        if i in info['arms']:
                            names[v['name']] = info['arms'][i]
                    missing = [v['name'] for i, v in enumerate(adt[0]['variants']) if i not in info['arms']]
                    if len(missing) == 1 and body.term(info['otherwise'])['k'] != 'unreachable':
                        names[missing[0]] = info['otherwise']
                if any('road' in n for n in names) and any('ne' in n and 'road' not in n for n in names):
                    return sw, names
                best = best or (sw, names)
    return best or (None, {})


def arm_of_block(body, names, sw, b):
    hits = [n for n, tgt in names.items() if b in body.reachable(tgt)]
    return hits[0] if len(hits) == 1 else None


def closure_site(crate, cb):
    """(parent body, block) where closure body cb is created"""
    parent_path = cb.path.rsplit('::{closure#', 1)[0]
    pb = crate.by_path.get(parent_path)
    norm = getattr(crate, 'normal', None)
    if norm is not None and parent_path in getattr(norm, 'host', {}):
        pb = norm.host[parent_path]         # the function that absorbed the helper in which the closure is written
    if pb is None:
        return None, None
    for b, i, s in pb.iter_assigns():
        if s['rv']['k'] == 'aggr' and s['rv'].get('kind') == 'closure' and s['rv'].get('def') == cb.path:
            return pb, b
    return pb, None


def arm_of(crate, pn, names, sw, body, b):
    cur_body, cur_b = body, b
    for _ in range(5):
        if cur_body is pn:
            return arm_of_block(pn, names, sw, cur_b)
        pb, pbk = closure_site(crate, cur_body)
        if pb is None or pbk is None:
            return None
        cur_body, cur_b = pb, pbk
    return None


def const_option_bool(body, op):
    tr = body.trace(op)
    if tr.get('kind') == 'aggr' and tr['rv'].get('adt', '').endswith('option::Option'):
        if tr['rv'].get('variant') == 'Some' and tr['rv']['ops'] and tr['rv']['ops'][0].get('k') == 'const':
            return ('Some', tr['rv']['ops'][0].get('val'))
        return (tr['rv'].get('variant'), None)
    return None


def check_crate(fx, rep, crate, cn):
    res = {}
    mod_bodies = [b for b in crate.bodies if not b.in_test and 'notified' in (b.file or '')]
    pns = [b for b in mod_bodies if b.name == 'poll_next' and b.kind == 'AssocFn' and b.impl_trait and 'Stream' in b.impl_trait]
    if not pns:
        rep.bad('R20.1', '%s|anchor-poll_next' % cn, '-', 'Stream::poll_next of the notified module not found')
        return res
    pn = pns[0]
    # ---- R20.10 what poll_next polls lives in the stream (a field of self), not in the call: a future made and polled inside poll_next is dropped when
    # poll_next returns, and with it the waker registration of a Pending answer (tokio's broadcast `Recv` and async-channel's `Recv` deregister on
    # drop) - the subscriber that was told "Pending" is never woken by the next set() / notify()
    WRAP = {'new', 'new_unchecked', 'as_mut', 'get_mut', 'deref_mut', 'deref', 'project', 'as_pin_mut', 'get_unchecked_mut', 'map_unchecked_mut', 'into_ref', 'set', 'borrow_mut'}
    for body in [pn] + C.nested(crate, pn):
        if body.mac and 'pin_project' in body.mac:
            continue
        ordn = 0
        for b, t in body.iter_terms('call'):
            nm = t['callee'].get('name')
            tr_ = (t['callee'].get('trait') or '') + (t['callee'].get('def') or '')
            if nm not in ('poll', 'poll_next', 'poll_recv', 'poll_next_unpin', 'poll_unpin') or not t['args'] or t.get('mac') and 'tracing' in (t.get('mac') or ''):
                continue
            if not ('Future' in tr_ or 'Stream' in tr_ or 'poll_recv' == nm or 'Unpin' in tr_):
                continue
            ordn += 1
            cur = body.trace(t['args'][0])
            temp = None
            for _ in range(10):
                if cur.get('kind') == 'call':
                    cn_ = cur['callee'].get('name')
                    if cn_ in WRAP and cur.get('args'):
                        cur = body.trace(cur['args'][0])
                        continue
                    temp = cur
                    break
                if cur.get('kind') in ('aggr',):
                    temp = cur
                    break
                break
            made_here = temp is not None and temp.get('kind') == 'call'
            rep.check(not made_here, 'R20.10', '%s|%s|polls-stored-state|%d' % (cn, body.path, ordn), C.where(body, b),
                      'the future / stream polled here is part of the stream\'s own state',
                      'poll_next polls a future that it has just made (`%s`) and drops it on return: a Pending answer leaves no waker registered (the future deregisters on drop), so a '
                      'subscriber that is already waiting is never woken by the next set() / notify() and never converges on the latest value'
                      % ((temp or {}).get('callee', {}).get('def') or (temp or {}).get('callee', {}).get('name') if made_here else ''))
    sw, names = kind_switch(crate, pn)
    bro = [n for n in names if 'road' in n]
    one = [n for n in names if 'ne' in n and n not in bro]
    if sw is None or not bro or not one:
        rep.bad('R20.1', '%s|anchor-kind-switch' % cn, pn.where(), 'switch over the stream kind (broadcast / one-shot) not found: %s' % list(names))
        return res
    BRO, ONE = bro[0], one[0]
    family = [pn] + C.nested(crate, pn)
    # ---- R20.1
    n1 = 0
    for body in family:
        for b, t in body.iter_terms('call'):
            if t['callee'].get('name') != 'set_continues':
                continue
            n1 += 1
            arm = arm_of(crate, pn, names, sw, body, b)
            val = const_option_bool(body, t['args'][1])
            want = ('Some', True) if arm == BRO else (('Some', False) if arm == ONE else None)
            # the reply is Reply::new(Some(value))
            tr = body.trace(t['args'][0])
            built = tr.get('kind') == 'call' and tr['callee'].get('name') == 'new' and 'Reply' in (tr['callee'].get('def') or '') and \
                (const_option_bool(body, tr['args'][0]) or ('?',))[0] == 'Some'
            rep.check(want is not None and val == want and built, 'R20.1', '%s|%s|continues-constant|%s' % (cn, pn.path, arm), C.where(body, b),
                      '%s arm builds Reply::new(Some(value)).set_continues(%s)' % (arm, want),
                      'the reply built in the %s arm is marked continues=%s (expected %s) or does not carry the value as Some(parameters)' % (arm, val, want),
                      {'arm': arm, 'continues': val, 'reply_new_some': built})
            res.setdefault('continues', {})[arm] = val
    if n1 < 2:
        rep.bad('R20.1', '%s|floor' % cn, pn.where(), 'expected a set_continues site in each of the two arms, found %d' % n1)
    # ---- R20.2 broadcast arm
    bt = names[BRO]
    region = pn.reachable(bt)
    inner = [(b, t) for b, t in pn.iter_terms('call') if b in region and t['callee'].get('name') == 'poll_next']
    rets = set(pn.returns())
    if not inner:
        rep.bad('R20.2', '%s|anchor-inner-poll' % cn, C.where(pn, bt), 'the broadcast arm does not poll an inner stream')
    else:
        pb, pt = inner[0]
        item_ty = ''
        # payload type: Poll<Option<X>>
        dty = pt['dest'].get('ty') or ''
        lagging = 'Result<' in dty
        res['lag_as_err'] = lagging
        # None test
        none_sw = None
        err_sw = None
        for s2 in sorted(region):
            if pn.term(s2)['k'] != 'switch':
                continue
            info = pn.switch_info(s2)
            if not info or info.get('kind') != 'discr':
                continue
            ty = info['place'].get('ty') or ''
            if ty.startswith(('std::option::Option<', 'core::option::Option<')) and pb in pn.dom().get(s2, ()):
                if none_sw is None:
                    none_sw = (s2, info)
            if ty.startswith(('std::result::Result<', 'core::result::Result<')) and pb in pn.dom().get(s2, ()) and pn.term(s2).get('ds') != 'QuestionMark':
                if err_sw is None:
                    err_sw = (s2, info)
        # every None written into the return value in this arm is control dependent on the None edge
        none_sites = []
        for b, i, s in pn.iter_assigns():
            if b in region and s['rv']['k'] == 'aggr' and s['rv'].get('variant') == 'None' and s['rv'].get('adt', '').endswith('option::Option'):
                none_sites.append((b, i))
        ok = none_sw is not None
        det = {'explicit_item_match': none_sw is not None, 'none_sites': len(none_sites)}
        if ok:
            s2, info = none_sw
            none_edge = info['arms'].get(0, info['otherwise'])
            for b, i in none_sites:
                if not (b in pn.reachable(none_edge) and all(b not in pn.reachable(tgt, avoid={s2}) for v, tgt in info['arms'].items() if v != 0)):
                    ok = False
                    det['none_outside_none_edge'] = C.where(pn, b, i)
            # the Some edge must not reach a return without building a reply or re-polling
        if not ok and not none_sites and not lagging:
            # combinator form: `inner.poll_next(cx).map(|item| item.map(build_reply))` - Poll::map and Option::map hand a None through
            # unchanged and produce none of their own
            for b, t in pn.iter_terms('call'):
                if b in region and t['callee'].get('name') == 'map' and t['args'] and 'Poll' in ((op_place(t['args'][0]) or {}).get('ty') or ''):
                    src = pn.trace(t['args'][0])
                    clo = pn.trace(t['args'][1]) if len(t['args']) > 1 else {}
                    if src.get('kind') == 'call' and src.get('block') == pb and clo.get('kind') == 'aggr' and clo['rv'].get('kind') == 'closure':
                        cbody = crate.by_path.get(clo['rv'].get('def'))
                        inner_maps = [(bb, tt) for bb, tt in cbody.iter_terms('call') if tt['callee'].get('name') == 'map' and 'Option' in ((op_place(tt['args'][0]) or {}).get('ty') or '')] if cbody else []
                        nones = [1 for bb, ii, ss in (cbody.iter_assigns() if cbody else []) if ss['rv']['k'] == 'aggr' and ss['rv'].get('variant') == 'None']
                        if len(inner_maps) == 1 and not nones and inner_maps[0][1]['dest']['l'] == 0 and cbody.trace(inner_maps[0][1]['args'][0]).get('kind') == 'arg':
                            ok = True
                            det['combinator_form'] = 'Poll::map(Option::map(..))'
        if not ok and not none_sites and not lagging:
            # `let item = ready!(inner.poll_next(cx)); Poll::Ready(item.map(build_reply))`: Option::map hands the inner None through and makes none itself
            for b, t in pn.iter_terms('call'):
                if b in region and t['callee'].get('name') == 'map' and t['args'] and \
                        ((op_place(t['args'][0]) or {}).get('ty') or '').startswith(('std::option::Option<', 'core::option::Option<')):
                    src = pn.trace(t['args'][0])
                    from_poll = False
                    if src.get('kind') == 'place':
                        q_ = src.get('place') or {}
                        d0 = pn.single_def(q_.get('l')) if q_.get('l') is not None else None
                        from_poll = bool(d0 and d0[2] == 'call' and d0[0] == pb)
                    elif src.get('kind') == 'call':
                        from_poll = src.get('block') == pb
                    wraps = [1 for bb, ii, ss in pn.iter_assigns() if bb in pn.reachable(b) and ss['place']['l'] == 0 and ss['rv']['k'] == 'aggr' and
                             ss['rv'].get('variant') == 'Ready' and ss['rv']['ops'] and (op_place(ss['rv']['ops'][0]) or {}).get('l') == t['dest']['l']]
                    if from_poll and wraps:
                        ok = True
                        det['combinator_form'] = 'Poll::Ready(ready!(..).map(..))'
        rep.check(ok, 'R20.2', '%s|%s|end-of-stream-only-on-inner-none' % (cn, pn.path), C.where(pn, pb),
                  'Ready(None) in the broadcast arm is produced only under the inner item\'s None discriminant',
                  'the broadcast arm does not decide end-of-stream by an explicit test of the inner item (accepted idiom: match on the item with a None arm): '
                  'a lag notice or any other non-value item can end the subscription', det)
        if lagging:
            ok = err_sw is not None
            det = {'explicit_err_match': ok}
            if ok:
                s2, info = err_sw
                err_edge = info['arms'].get(1, info['otherwise'])
                r = pn.reachable(err_edge, avoid={pb})
                repoll = pb in pn.reachable(err_edge)
                det.update({'err_edge_repolls': repoll, 'err_edge_can_return_without_polling': bool(rets & r)})
                ok = repoll and not (rets & r)
            rep.check(ok, 'R20.2', '%s|%s|lag-is-skipped-by-repolling' % (cn, pn.path), C.where(pn, pb),
                      'the Err (lag) edge of the item match goes back to polling the inner stream and reaches no return without it',
                      'a lag notice (Err item of the inner stream) is not skipped by polling again: the subscription ends or yields without the latest value', det)
        else:
            rep.ok('R20.2', '%s|%s|lag-handled-by-channel' % (cn, pn.path), C.where(pn, pb), 'inner stream yields plain values; lag handling is the channel\'s (see R20.5 constants)', nontrivial=False)
    # ---- R20.3 one-shot arm
    ot = names[ONE]
    region = pn.reachable(ot)
    polls = [(b, t) for b, t in pn.iter_terms('call') if b in region and t['callee'].get('name') in ('poll', 'poll_next')]
    guard = None
    for s2 in sorted(region):
        if pn.term(s2)['k'] != 'switch' or pn.term(s2).get('op_ty') != 'bool':
            continue
        info = pn.switch_info(s2)
        src = info['src']
        if src.get('kind') == 'call' and src['callee'].get('name') == 'is_terminated':
            guard = (s2, info, 'is_terminated')
            break
        if src.get('kind') == 'place':
            guard = (s2, info, 'flag')
            break
    ok = guard is not None and bool(polls)
    det = {}
    if ok:
        s2, info, kind = guard
        t_true, t_false = info['true'], info['false']
        no_poll_on_true = not any(b in pn.reachable(t_true, avoid={s2}) for b, _ in polls)
        polls_guarded = all(pn.dominates(s2, b) for b, _ in polls)
        none_on_true = any(b in pn.reachable(t_true) for b, i, s in pn.iter_assigns()
                           if s['rv']['k'] == 'aggr' and s['rv'].get('variant') == 'None')
        det = {'idiom': kind, 'terminated_edge_polls_nothing': no_poll_on_true, 'poll_dominated_by_test': polls_guarded, 'terminated_edge_returns_none': none_on_true}
        ok = no_poll_on_true and polls_guarded and none_on_true
        if ok and kind == 'flag':
            # flag set on every path that yields the item
            fld = [n for a, n in info['src'].get('fields', [])]
            base = info['src'].get('base')
            sets = {b for b, i, s in pn.iter_assigns() if b in region and
                    (any(n in fld for a, n in mir.place_fields(s['place'])) or (not fld and s['place']['l'] == base and s['place'].get('p') == ['*'])) and
                    s['rv']['k'] == 'use' and s['rv']['op'].get('k') == 'const' and s['rv']['op'].get('val') is True}
            item_blocks = {b for body in [pn] for b, t in body.iter_terms('call') if b in region and t['callee'].get('name') == 'set_continues'}
            bad = [b for b in item_blocks if rets & pn.reachable(b, avoid=sets) and not any(pn.dominates(s_, b) for s_ in sets)]
            det['flag_set_on_item_paths'] = not bad
            # ... and on no path that answers Pending: a poll that found nothing yet must leave the stream alive (`ready!` hides that return)
            pend = {b for b, i, s in pn.iter_assigns() if s['rv']['k'] == 'aggr' and s['rv'].get('variant') == 'Pending'}
            early = sorted(s_ for s_ in sets if pend & pn.reachable(s_))
            det['flag_set_before_pending_return'] = [C.where(pn, s_) for s_ in early]
            ok = bool(sets) and not bad and not early
        res['oneshot_idiom'] = kind
    rep.check(ok, 'R20.3', '%s|%s|oneshot-terminates-after-one-item' % (cn, pn.path), C.where(pn, ot),
              'one-shot arm: a terminated test guards the poll, its true edge returns Ready(None) without polling%s' % (
                  ', the flag is set on every path that yields the item and on no path that can still answer Pending' if guard and guard[2] == 'flag' else ''),
              'the one-shot arm can poll its receiver after the single reply was delivered, yields more than one item, or marks the stream terminated on a '
              'path that answers Pending (the reply that arrives later is never delivered)', det)
    # ---- R20.4 stream() subscribes itself
    st = [b for b in mod_bodies if b.name == 'stream' and b.kind == 'AssocFn' and b.impl_self and 'State' in b.impl_self]
    if not st:
        rep.bad('R20.4', '%s|anchor-stream' % cn, '-', 'State::stream not found')
    else:
        sb = st[0]
        subs = [(b, t) for b, t in sb.iter_terms('call') if t['callee'].get('name') in SUBSCRIBE]
        ok = False
        det = {'subscribe_calls': [t['callee'].get('name') for _, t in subs]}
        if subs:
            # the receiver flows into the returned value
            q0 = subs[0][1]['dest']['l']
            locs, events = sb.slice_back([0])
            ok = q0 in locs
            det['flows_into_returned_stream'] = ok
        rep.check(ok, 'R20.4', '%s|%s|subscription-taken-in-stream' % (cn, sb.path), sb.where(),
                  'State::stream() subscribes to the channel itself (%s) and returns that receiver' % det['subscribe_calls'],
                  'State::stream() does not take the subscription when it is called (accepted: subscribe / activate_cloned / new_receiver in stream()): '
                  'a value set between stream() and the first poll is never delivered to this subscriber', det)
        res['subscribe'] = bool(ok)
    # ---- R20.5 constants, set()
    newb = [b for b in mod_bodies if b.name == 'new' and b.kind == 'AssocFn' and b.impl_self and 'State' in b.impl_self]
    if newb:
        nb = newb[0]
        chans = [(b, t) for b, t in nb.iter_terms('call') if t['callee'].get('name') in ('channel', 'broadcast')]
        cap = chans[0][1]['args'][0].get('val') if chans and chans[0][1]['args'] and chans[0][1]['args'][0].get('k') == 'const' else None
        rep.check(cap == 1, 'R20.5', '%s|%s|capacity-one' % (cn, nb.path), nb.where(), 'broadcast channel is created with capacity 1 (latest value wins)',
                  'the broadcast channel is not created with the constant capacity 1 (found %s)' % cap)
        res['capacity'] = cap
        if not res.get('lag_as_err', True):
            flags = {}
            for b, t in nb.iter_terms('call'):
                if t['callee'].get('name') in ('set_overflow', 'set_await_active') and len(t['args']) >= 2 and t['args'][1].get('k') == 'const':
                    flags[t['callee']['name']] = t['args'][1].get('val')
            kept = any(t['callee'].get('name') == 'deactivate' and t['dest']['l'] in nb.slice_back([0])[0] for b, t in nb.iter_terms('call'))
            ok = flags.get('set_overflow') is True and flags.get('set_await_active') is False and kept
            rep.check(ok, 'R20.5', '%s|%s|overflow-mode' % (cn, nb.path), nb.where(),
                      'channel in overflow mode, senders do not wait for active receivers, an inactive receiver is kept in the State',
                      'the channel is not configured as set_overflow(true), set_await_active(false) with a kept inactive receiver: %s kept=%s' % (flags, kept),
                      {'flags': flags, 'inactive_receiver_kept': kept})
    else:
        rep.bad('R20.5', '%s|anchor-new' % cn, '-', 'State::new not found')
    setb = [b for b in mod_bodies if b.name == 'set' and b.kind == 'AssocFn' and b.impl_self and 'State' in b.impl_self]
    if setb:
        sbd = C.async_body(crate, setb[0])
        stores = [(b, i, s) for b, i, s in sbd.iter_assigns() if any(n == 'value' for a, n in mir.place_fields(s['place']))]
        sends = [(b, t) for b, t in sbd.iter_terms('call') if t['callee'].get('name') in ('send', 'broadcast_direct', 'broadcast', 'try_broadcast')]
        ok = bool(stores) and bool(sends)
        srets = set(sbd.returns())
        skip_send = bool(srets & sbd.reachable(0, avoid={b for b, _ in sends})) if sends else True
        skip_store = bool(srets & sbd.reachable(0, avoid={b for b, _, _ in stores})) if stores else True
        rep.check(ok and not skip_send and not skip_store, 'R20.5', '%s|%s|set-stores-and-broadcasts' % (cn, sbd.path), sbd.where(),
                  'State::set stores the value and hands it to the channel on every path', 'State::set does not both store the value and broadcast it on every path '
                  '(a set that is not broadcast - e.g. skipped because the value is unchanged - is never seen by a subscriber that has not received that value yet)',
                  {'stores': len(stores), 'sends': [t['callee'].get('name') for _, t in sends], 'path_without_broadcast': skip_send, 'path_without_store': skip_store})
        # exactly one value goes into the channel per set(): a second send - of a value the channel handed back (in overflow mode that is the *oldest*
        # queued value it evicted), of the previous value, of anything - overwrites the one just set in a capacity-1 channel
        rep.check(len(sends) == 1, 'R20.5', '%s|%s|set-broadcasts-once' % (cn, sbd.path), sbd.where(),
                  'State::set hands exactly one value to the channel',
                  'State::set sends %d values into the capacity-1 channel (%s): the later send evicts the value just set, so a subscriber that has not caught up converges on a stale value'
                  % (len(sends), ', '.join(t['callee'].get('name') for _, t in sends)))
    # ---- R20.8 set() cannot panic on the channel's answer
    if setb:
        sbd = C.async_body(crate, setb[0])
        sends = [(b, t) for b, t in sbd.iter_terms('call') if t['callee'].get('name') in ('send', 'broadcast_direct', 'broadcast', 'try_broadcast')]
        bad = []
        for b, t in sbd.iter_terms('call'):
            if t['callee'].get('name') in ('expect', 'unwrap', 'unwrap_or_else', 'expect_err', 'unwrap_err') and 'Result' in (t['callee'].get('def') or '') and t['args']:
                q = op_place(t['args'][0])
                if not q:
                    continue
                locs, events = sbd.slice_back([q['l']])
                if any(ev[0] == 'call' and any(ev[1] == sb_ for sb_, _ in sends) for ev in events):
                    if t['callee'].get('name') == 'unwrap_or_else':
                        continue
                    bad.append(C.where(sbd, b))
        rep.check(not bad, 'R20.8', '%s|%s|set-survives-a-refused-broadcast' % (cn, sbd.path), sbd.where(),
                  'State::set does not unwrap the channel\'s answer (the channel refuses a value while nobody is subscribed - a legal state)',
                  'State::set unwraps / expects the result of the broadcast: the channel answers Err while no subscriber is active (no stream() yet, or all '
                  'streams dropped), so a set() in that state panics and the state can never be subscribed to afterwards', {'sites': bad})
        res['set_unwraps_send'] = bool(bad)
    return res


def check(fx, rep, tier):
    rep.rule('R20.8', 'State::set never panics on the answer of the channel: a refused broadcast (no active subscriber) is not unwrapped')
    rep.rule('R20.1', 'broadcast arm replies carry continues=Some(true), one-shot arm replies continues=Some(false); both built as Reply::new(Some(value))')
    rep.rule('R20.2', 'lag never ends a subscription: Err items are skipped by re-polling; Ready(None) only under the inner None')
    rep.rule('R20.3', 'one-shot yields at most one item: a terminated test guards the poll and is armed when the item is produced')
    rep.rule('R20.4', 'State::stream() takes the subscription itself')
    rep.rule('R20.5', 'capacity-1 channel (overflow mode where the channel handles lag); set() stores and broadcasts')
    rep.rule('R20.6', 'the tokio and smol implementations satisfy the same obligations')
    rep.rule('R20.10', 'what poll_next polls is stored in the stream: no future is created and polled within one poll_next call (its waker registration would die with it)')
    rep.rule('R20.11', 'all clones of a State share one channel: Clone opens no channel of its own')
    rep.rule('R20.9', 'the broadcast channel shared by all clones of a State is never closed explicitly: a subscription ends only when the state is gone')
    out = {}
    for cn in ('zlink_tokio', 'zlink_smol'):
        out[cn] = check_crate(fx, rep, fx.crate(cn, 'full'), cn)
    # R20.9 a subscription lasts as long as the state exists: State is Clone and all clones share one channel, so no code of the module may
    # close the channel explicitly (a `Drop` that closes it ends every subscriber's stream as soon as any clone goes away, and later set()
    # calls are lost)
    for cn in ('zlink_tokio', 'zlink_smol'):
        crate = fx.crate(cn, 'full')
        n_close = 0
        for body in crate.bodies:
            if body.in_test or 'notified' not in body.path:
                continue
            for blk, t in body.iter_terms('call'):
                d = t['callee'].get('def') or ''
                if t['callee'].get('name') in ('close', 'closed') and ('broadcast' in d or 'Sender' in d or 'Receiver' in d) and t['callee'].get('name') == 'close':
                    n_close += 1
                    rep.bad('R20.9', '%s|%s|closes-the-channel' % (cn, body.path), C.where(body, blk),
                            '`%s` closes the broadcast channel all clones of the State share (%s): the streams of every subscriber end although the state still '
                            'exists, and values set afterwards are lost' % (body.path, d))
        rep.ok('R20.9', '%s|channel-never-closed-explicitly' % cn, 'zlink-%s/src/notified.rs' % cn.split('_')[1],
               'no code of the notified module closes the shared channel (%d close sites)' % n_close, nontrivial=(n_close == 0))
    # R20.11 every handle of a State is the same state: Clone shares the channel (derived, or a clone of the sender), it does not open a new one -
    # a clone with a channel of its own has its own subscribers and its own channel options (a second creation site that must repeat
    # set_overflow / set_await_active exactly), and what is set through one handle never reaches the subscribers of the other
    for cn in ('zlink_tokio', 'zlink_smol'):
        crate = fx.crate(cn, 'full')
        ncl = 0
        for body in crate.bodies:
            if body.in_test or 'notified' not in (body.file or body.path) or body.name != 'clone' or 'State' not in (body.impl_self or ''):
                continue
            ncl += 1
            makers = [t['callee'].get('def') or t['callee'].get('name') for _, t in body.iter_terms('call')
                      if t['callee'].get('name') in ('broadcast', 'channel', 'bounded', 'unbounded') and not (t['callee'].get('def') or '').endswith('::clone')]
            rep.check(not makers, 'R20.11', '%s|%s|clone-shares-the-channel' % (cn, body.path), body.where(),
                      'State::clone clones the handles of the existing channel',
                      'State::clone opens a channel of its own (%s): the clone is another state with other subscribers and separately configured channel options - a value set through '
                      'one handle is never seen by the subscribers of the other, and a missing option (await-active, overflow) makes set() on the clone wait or fail' % ', '.join(makers))
        rep.ok('R20.11', '%s|clone-impls-enumerated' % cn, 'zlink-%s/src/notified.rs' % cn.split('_')[1], '%d Clone impl(s) of State examined' % ncl, nontrivial=False)
    a, b = out['zlink_tokio'], out['zlink_smol']
    same = a.get('continues') == b.get('continues') and a.get('capacity') == b.get('capacity') and a.get('subscribe') == b.get('subscribe')
    rep.check(same and bool(a.get('continues')), 'R20.6', 'tokio-vs-smol|agreement', 'zlink-tokio/src/notified.rs vs zlink-smol/src/notified.rs',
              'both crates: continues constants %s, capacity %s, subscription in stream() %s' % (a.get('continues'), a.get('capacity'), a.get('subscribe')),
              'the two crates disagree: tokio %s / smol %s' % (a, b), {'tokio': str(a), 'smol': str(b)})
    # R20.7 the flag the notified streams put on a reply is the flag the reply carries: Reply's builder stores it unchanged
    rep.rule('R20.7', 'Reply::set_continues stores the given flag unchanged and Reply::continues returns the stored flag (a filtered or recomputed flag changes how every '
                      'notification is marked)')
    core = fx.crate('zlink_core', 'full')
    n7 = 0
    for b in core.bodies:
        if b.in_test or not (b.impl_self or '').startswith('reply::Reply<'):
            continue
        if b.name == 'set_continues':
            n7 += 1
            stores = [(blk, i_, s_) for blk, i_, s_ in b.iter_assigns() if (mir.place_last_field(s_['place']) or (None, None))[1] == 'continues']
            ok = len(stores) == 1 and stores[0][2]['rv']['k'] == 'use' and b.trace(stores[0][2]['rv']['op']).get('kind') == 'arg'
            if not ok and not stores:
                # `Self { continues, ..self }`
                aggrs = [s_ for blk, i_, s_ in b.iter_assigns() if s_['rv']['k'] == 'aggr' and 'reply::Reply' in (s_['rv'].get('adt') or '') and 'continues' in (s_['rv'].get('fields') or [])]
                if len(aggrs) == 1:
                    op_ = aggrs[0]['rv']['ops'][aggrs[0]['rv']['fields'].index('continues')]
                    ok = b.trace(op_).get('kind') == 'arg'
            rep.check(ok, 'R20.7', 'reply::Reply::set_continues|stores-argument', b.where(),
                      'set_continues stores its argument into the continues member', 'Reply::set_continues does not store the flag it is given unchanged: a one-shot reply '
                      'built with Some(false) (or a state reply built with Some(true)) goes out with a different marking')
        if b.name == 'continues':
            n7 += 1
            rets = [s_ for blk, i_, s_ in b.iter_assigns() if s_['place']['l'] == 0 and not s_['place'].get('p')]
            ok = len(rets) == 1 and rets[0]['rv']['k'] == 'use' and (mir.place_last_field(mir.op_place(rets[0]['rv']['op']) or {'p': None}) or (None, None))[1] == 'continues'
            rep.check(ok, 'R20.7', 'reply::Reply::continues|returns-member', b.where(),
                      'continues() returns the continues member', 'Reply::continues does not return the stored flag unchanged')
    if n7 < 2:
        rep.bad('R20.7', 'anchor', 'zlink-core/src/reply.rs', 'Reply::set_continues / Reply::continues not found')
    return META
