"""Engine M: production extraction from the phrase-level IDL parser and regular-language inclusion against the
Varlink grammar.

The phrase-level parser functions (everything in idl::parse that is not a lexical helper) are abstracted, from their
syntax trees, into regular expressions over *atoms*:

    's'   one white-space byte            'c'   one line comment (text up to the end of its line)
    'FN' / 'TN' / 'IN'   one field / type / interface name (the scanners, decided exactly by rule R13.7)
    every byte of a `literal("...")`      '$'   end of input (an `is_empty()` test that came out true)
    '<T>' the recursive type nonterminal (the single entry of the parser's recursive cycle)

Control flow is followed exactly: `?` continues on Ok, `return Err` kills the path, `if p.is_ok()` / `if let Ok(..) = p`
/ `match p { Ok.. Err.. }` fork on the parser's outcome (a failed parser consumes nothing: R13.2 checks the restore
discipline), loops are solved as right-linear equations (X = A X | B  =>  X = A* B), winnow's combinators (alt, separated,
opt, repeat, preceded, terminated, delimited, separated_pair, tuples, map ...) have their documented meaning, local
helpers are inlined with fn-item arguments bound.  Conditions the abstraction cannot decide (flags) fork both ways: the
extracted language over-approximates the accepted token language.

Verdict: for each production  L_min <= L(code) <= L_max  where L_max is the Varlink grammar with `_` = white space or
comment, and L_min is what the property requires as a minimum (white space between any two tokens; comments on their own
lines before the interface, members, fields and variants).  A counterexample is printed as a token string.
Nothing of zlink is executed.
"""
import ast as A

EPS = ('eps',)
EMPTY = ('empty',)


def sym(a):
    return ('sym', a)


def cat(*rs):
    out = []
    for r in rs:
        if r == EMPTY:
            return EMPTY
        if r == EPS:
            continue
        if r[0] == 'cat':
            out.extend(r[1])
        else:
            out.append(r)
    if not out:
        return EPS
    if len(out) == 1:
        return out[0]
    return ('cat', tuple(out))


def alt(*rs):
    out = []
    for r in rs:
        if r == EMPTY:
            continue
        if r[0] == 'alt':
            for x in r[1]:
                if x not in out:
                    out.append(x)
        elif r not in out:
            out.append(r)
    if not out:
        return EMPTY
    if len(out) == 1:
        return out[0]
    return ('alt', tuple(out))


def star(r):
    if r in (EPS, EMPTY):
        return EPS
    if r[0] == 'star':
        return r
    return ('star', r)


def opt(r):
    return alt(r, EPS)


def plus(r):
    return cat(r, star(r))


def lit(s):
    return cat(*[sym(ch) for ch in s])


def rep(r, lo, hi):
    """r repeated lo..hi times (hi None = unbounded)"""
    parts = [r] * lo
    if hi is None:
        parts.append(star(r))
    else:
        for _ in range(hi - lo):
            parts.append(opt(r))
    return cat(*parts)


def show(r, prec=0):
    k = r[0]
    if k == 'eps':
        return 'ε'
    if k == 'empty':
        return '∅'
    if k == 'sym':
        return r[1]
    if k == 'cat':
        s = ' '.join(show(x, 2) for x in r[1])
        return '(%s)' % s if prec > 2 else s
    if k == 'alt':
        s = ' | '.join(show(x, 1) for x in r[1])
        return '(%s)' % s if prec > 0 else s
    if k == 'star':
        return show(r[1], 3) + '*'
    return '?'


# ------------------------------------------------------------------------------------------------ automata

class NFA:
    def __init__(self):
        self.n = 0
        self.eps = {}
        self.tr = {}

    def new(self):
        self.n += 1
        return self.n - 1

    def add_eps(self, a, b):
        self.eps.setdefault(a, set()).add(b)

    def add(self, a, x, b):
        self.tr.setdefault((a, x), set()).add(b)

    def build(self, r):
        k = r[0]
        s, e = self.new(), self.new()
        if k == 'eps':
            self.add_eps(s, e)
        elif k == 'empty':
            pass
        elif k == 'sym':
            self.add(s, r[1], e)
        elif k == 'cat':
            cur = s
            for x in r[1]:
                a, b = self.build(x)
                self.add_eps(cur, a)
                cur = b
            self.add_eps(cur, e)
        elif k == 'alt':
            for x in r[1]:
                a, b = self.build(x)
                self.add_eps(s, a)
                self.add_eps(b, e)
        elif k == 'star':
            a, b = self.build(r[1])
            self.add_eps(s, a)
            self.add_eps(b, a)
            self.add_eps(s, e)
            self.add_eps(b, e)
        return s, e

    def closure(self, states):
        st = list(states)
        seen = set(states)
        while st:
            x = st.pop()
            for y in self.eps.get(x, ()):
                if y not in seen:
                    seen.add(y)
                    st.append(y)
        return frozenset(seen)

    def step(self, states, a):
        out = set()
        for x in states:
            out |= self.tr.get((x, a), set())
        return self.closure(out)


def compile_re(r, eof_idempotent=True):
    n = NFA()
    s, e = n.build(r)
    if eof_idempotent:
        # `$` is a look-ahead: testing for the end of input twice is the same as testing once
        for (a, x), bs in list(n.tr.items()):
            if x == 'EOF':
                for b in list(bs):
                    n.add(b, 'EOF', b)
    return n, s, e


def alphabet(r, acc=None):
    acc = set() if acc is None else acc
    if r[0] == 'sym':
        acc.add(r[1])
    elif r[0] in ('cat', 'alt'):
        for x in r[1]:
            alphabet(x, acc)
    elif r[0] == 'star':
        alphabet(r[1], acc)
    return acc


def valid_next(vs, a):
    """physical shape of token strings: a comment runs to the end of its line, so only white space or the end of input can
    follow it; nothing follows the end of input"""
    if vs == 'eof':
        return 'eof' if a == 'EOF' else None
    if vs == 'c':
        if a == 'WS':
            return 'n'
        if a == 'EOF':
            return 'eof'
        return None
    if a == 'CMT':
        return 'c'
    if a == 'EOF':
        return 'eof'
    return 'n'


def included(ra, rb, limit=400000):
    """None when L(ra) (restricted to physically valid strings) is included in L(rb); otherwise a shortest witness
    (list of atoms) accepted by ra and not by rb"""
    na, sa, ea = compile_re(ra)
    nb, sb, eb = compile_re(rb)
    sigma = sorted(alphabet(ra) | alphabet(rb))
    start = (na.closure({sa}), nb.closure({sb}), 'n')
    seen = {start: None}
    queue = [start]
    qi = 0
    while qi < len(queue):
        cur = queue[qi]
        qi += 1
        A_, B_, vs = cur
        if ea in A_ and eb not in B_:
            w = []
            x = cur
            while seen[x] is not None:
                x, a = seen[x]
                w.append(a)
            return list(reversed(w))
        for a in sigma:
            v2 = valid_next(vs, a)
            if v2 is None:
                continue
            A2 = na.step(A_, a)
            if not A2:
                continue
            B2 = nb.step(B_, a)
            nxt = (A2, B2, v2)
            if nxt not in seen:
                seen[nxt] = (cur, a)
                queue.append(nxt)
                if len(queue) > limit:
                    raise Unmodelled('automaton product too large')
    return None


# ------------------------------------------------------------------------------------------------ extraction

class Unmodelled(Exception):
    pass


S = sym('WS')
CM = sym('CMT')
EOF = sym('EOF')

LEXICAL = {
    'ws': star(alt(S, CM)),
    'whitespace_only': star(S),
    'comment_def': CM,
}
WINNOW_ATOMS = {
    'multispace0': star(S), 'multispace1': plus(S), 'space0': star(S), 'space1': plus(S),
    'line_ending': S, 'newline': S, 'eof': EOF, 'empty': EPS, 'success': EPS,
}
TRANSPARENT_METHODS = {'map', 'value', 'void', 'take', 'recognize', 'context', 'with_taken', 'with_span', 'span', 'output_into',
                       'default_value', 'verify', 'try_map', 'verify_map', 'parse_to', 'by_ref', 'complete_err', 'err_into'}
RESULT_TRANSPARENT = {'map', 'map_err', 'or_else_err', 'inspect', 'inspect_err'}
PURE_CALL_PREFIX = ('Vec::', 'Ok', 'Err', 'Some', 'None', 'String::', 'List::', 'ErrMode::', 'ParserError::', 'format', 'core::', 'alloc::', 'std::')


def lf_cat(r, lf):
    return {k: cat(r, v) for k, v in lf.items() if cat(r, v) != EMPTY}


def lf_alt(*lfs):
    out = {}
    for lf in lfs:
        for k, v in lf.items():
            out[k] = alt(out[k], v) if k in out else v
    return {k: v for k, v in out.items() if v != EMPTY}


def lf_solve(lf, var):
    """X = A X | rest  =>  rest with A* in front"""
    a = lf.get(var)
    rest = {k: v for k, v in lf.items() if k != var}
    if a is None:
        return rest
    return lf_cat(star(a), rest)


RET = {'RET': EPS}
DEAD = {}


class Extractor:
    def __init__(self, fns, scanners, cut=None):
        """fns: name -> fn node (tpl) of the parser module; scanners: name -> atom"""
        self.fns = fns
        self.scanners = scanners
        self.cut = cut
        self.memo = {}
        self.tagged = {}
        self.stack = []
        self.loopc = 0
        self.trim = False
        self.calls = {}

    # ---- classification
    def is_parser_fn(self, name):
        f = self.fns.get(name)
        return f is not None and '& mut &' in (f.get('sig') or '') and 'ModalResult' in (f.get('sig') or '') or name in LEXICAL or name in self.scanners

    def fn_lang(self, name, binds=None):
        """regex of the Ok paths of parser function `name`"""
        if name in self.scanners:
            return sym(self.scanners[name])
        if name in LEXICAL:
            return LEXICAL[name]
        if name == self.cut and self.stack:
            return sym('<T>')
        key = (name, tuple(sorted((binds or {}).items())))
        if key in self.memo:
            return self.memo[key]
        if name in [s for s, _ in self.stack]:
            raise Unmodelled('recursion through %s that does not go through the type entry %s' % (name, self.cut))
        f = self.fns.get(name)
        if f is None:
            raise Unmodelled('function %s not found in the parser module' % name)
        self.stack.append((name, binds or {}))
        try:
            env = dict(binds or {})
            lf = self.block(f['body'], 0, {'next': None}, env, tail=True)
            bad = [k for k in lf if not str(k).startswith('RET')]
            if bad:
                raise Unmodelled('unresolved continuation %s in %s' % (bad, name))
            r = alt(*[v for k, v in lf.items()]) if lf else EMPTY
            self.tagged[key] = {k: v for k, v in lf.items()}
        finally:
            self.stack.pop()
        self.memo[key] = r
        return r

    # ---- parser expressions (combinators): regex of one successful application
    def parser_expr(self, e, env):
        k = e.get('k')
        if k == 'path':
            t = e['text'].split('::<')[0]
            base = t.split('::')[-1]
            if base in env and isinstance(env[base], tuple) and env[base][0] == 'fn':
                return self.fn_lang(env[base][1])
            if base in env and isinstance(env[base], tuple) and env[base][0] == 'parser':
                return env[base][1]
            if self.is_parser_fn(base):
                self.calls.setdefault(self.stack[-1][0] if self.stack else '-', set()).add(base)
                return self.fn_lang(base)
            if base in WINNOW_ATOMS:
                return WINNOW_ATOMS[base]
            raise Unmodelled('parser `%s` is not modelled' % e['text'])
        if k == 'tuple':
            return cat(*[self.parser_expr(x, env) for x in e['elems']])
        if k in ('str',):
            return lit(e['value'])
        if k == 'bytes':
            v = e.get('value')
            if isinstance(v, str):
                return lit(v)
            if isinstance(v, list):
                return lit(''.join(chr(x) for x in v))
            raise Unmodelled('byte literal without value')
        if k == 'byte':
            return sym(chr(e['value']))
        if k == 'char':
            return sym(e['value'])
        if k == 'ref':
            return self.parser_expr(e['expr'], env)
        if k == 'call':
            fn = (e['func'] if isinstance(e['func'], str) else A.text(e['func'])).split('::<')[0]
            base = fn.split('::')[-1]
            args = e.get('args') or []
            if base in ('literal', 'tag'):
                return self.parser_expr(args[0], env)
            if base == 'alt':
                inner = args[0]
                elems = inner['elems'] if inner.get('k') in ('tuple', 'array') else [inner]
                return alt(*[self.parser_expr(x, env) for x in elems])
            if base == 'opt':
                return opt(self.parser_expr(args[0], env))
            if base in ('peek', 'not'):
                return EPS
            if base == 'fail':
                return EMPTY
            if base in ('cut_err', 'backtrack_err', 'trace'):
                return self.parser_expr(args[-1], env)
            if base == 'preceded' or base == 'terminated':
                return cat(self.parser_expr(args[0], env), self.parser_expr(args[1], env))
            if base == 'delimited':
                return cat(*[self.parser_expr(a, env) for a in args[:3]])
            if base == 'separated_pair':
                return cat(*[self.parser_expr(a, env) for a in args[:3]])
            if base in ('separated', 'repeat', 'take_while'):
                lo, hi = self.range_of(args[0])
                if base == 'repeat':
                    return rep(self.parser_expr(args[1], env), lo, hi)
                if base == 'take_while':
                    return rep(self.byte_class(args[1]), lo, hi)
                p = self.parser_expr(args[1], env)
                sp = self.parser_expr(args[2], env)
                out = EPS if lo == 0 else None
                # p (sp p){lo-1..hi-1}
                body = cat(p, rep(cat(sp, p), max(lo - 1, 0), None if hi is None else max(hi - 1, 0)))
                return alt(body, EPS) if lo == 0 else body
            if base in ('separated0', 'separated1'):
                p = self.parser_expr(args[0], env)
                sp = self.parser_expr(args[1], env)
                body = cat(p, star(cat(sp, p)))
                return opt(body) if base.endswith('0') else body
            if base in ('repeat0', 'many0'):
                return star(self.parser_expr(args[0], env))
            if base in ('repeat1', 'many1'):
                return plus(self.parser_expr(args[0], env))
            if base in WINNOW_ATOMS:
                return WINNOW_ATOMS[base]
            if self.is_parser_fn(base) or (base in env and isinstance(env[base], tuple) and env[base][0] == 'fn'):
                # direct application f(input) used as an expression
                return self.call_lang(base, args, env)
            raise Unmodelled('combinator `%s` is not modelled' % fn)
        if k == 'mcall':
            m = e['method']
            if m in TRANSPARENT_METHODS:
                return self.parser_expr(e['recv'], env)
            if m == 'parse_next':
                return self.parser_expr(e['recv'], env)
            raise Unmodelled('parser method `.%s()` is not modelled' % m)
        if k == 'closure':
            # |i: &mut &[u8]| { ... } used as a parser
            body = e.get('body') or []
            lf = self.block(body, 0, {'next': None}, dict(env), tail=True)
            if [x for x in lf if x != 'RET']:
                raise Unmodelled('closure parser with open continuation')
            return lf.get('RET', EMPTY)
        raise Unmodelled('parser expression of kind %s (%s) is not modelled' % (k, A.text(e)[:60]))

    def byte_class(self, pred):
        t = A.text(pred) if pred.get('k') != 'closure' else ' '.join(A.text(x) for x in pred.get('body') or [])
        if pred.get('k') == 'closure':
            # walk the closure body for the class method
            names = [n.get('method') for n in A.nodes(pred) if n.get('k') == 'mcall']
            if names == ['is_ascii_whitespace']:
                return S
            bys = [chr(n['value']) for n in A.nodes(pred) if n.get('k') == 'byte']
            ops = [n.get('op') for n in A.nodes(pred) if n.get('k') == 'binary']
            if bys and set(bys) <= {' ', '\t', '\n', '\r'} and all(o in ('==', '||') for o in ops) and not names:
                return S
        elif 'is_ascii_whitespace' in t or t.endswith('is_space') or t.endswith('is_newline'):
            return S
        if isinstance(pred, dict) and pred.get('k') in ('tuple', 'array'):
            bys = [chr(n['value']) for n in A.nodes(pred) if n.get('k') == 'byte']
            if bys and set(bys) <= {' ', '\t', '\n', '\r'}:
                return S
        raise Unmodelled('byte class `%s` consumed by a phrase-level parser is not white space (raw bytes are the lexical helpers\' business)' % t[:80])

    def range_of(self, e):
        k = e.get('k')
        if k == 'int':
            n = int(e['text'].rstrip('usize').rstrip('_') or 0)
            return n, n
        if k == 'range':
            lo = int(e['start']['text']) if e.get('start') else 0
            hi = None
            if e.get('end'):
                hi = int(e['end']['text'])
                if '..=' not in (e.get('text') or ''):
                    hi -= 1
            return lo, hi
        raise Unmodelled('repetition range `%s`' % A.text(e))

    def call_lang(self, base, args, env):
        if base in env and isinstance(env[base], tuple) and env[base][0] == 'fn':
            base = env[base][1]
        if base in self.scanners or base in LEXICAL:
            return self.fn_lang(base)
        f = self.fns.get(base)
        if f is None:
            raise Unmodelled('call of unknown parser %s' % base)
        self.calls.setdefault(self.stack[-1][0] if self.stack else '-', set()).add(base)
        # bind fn-item arguments to parameters
        binds = {}
        params = [p.split(':')[0].strip().replace('mut ', '') for p in f.get('params') or []]
        for p, a in zip(params, args):
            if a.get('k') == 'path':
                nm = a['text'].split('::')[-1]
                if self.is_parser_fn(nm):
                    binds[p] = ('fn', nm)
                elif nm in env and isinstance(env[nm], tuple) and env[nm][0] in ('fn', 'parser'):
                    binds[p] = env[nm]
        return self.fn_lang(base, binds or None)

    # ---- expressions: (kind, regex) where kind: 'parser' = a parser application whose Result is the value,
    #      'pure' = consumption inside sub-expressions only (always continues)
    def application(self, e, env):
        """if e is the application of a parser (call of a parser fn / `.parse_next(..)`), possibly wrapped in Result-transparent
        adaptors, return its Ok regex; else None"""
        k = e.get('k')
        if k == 'mcall':
            if e['method'] == 'parse_next' or e['method'] == 'parse_peek':
                return self.parser_expr(e['recv'], env)
            if e['method'] in RESULT_TRANSPARENT:
                return self.application(e['recv'], env)
            return None
        if k == 'call':
            fn = (e['func'] if isinstance(e['func'], str) else A.text(e['func'])).split('::<')[0]
            base = fn.split('::')[-1]
            if base in env and isinstance(env[base], tuple) and env[base][0] == 'fn':
                return self.call_lang(base, e.get('args') or [], env)
            if self.is_parser_fn(base) and (self.fns.get(base) is not None or base in LEXICAL or base in self.scanners):
                return self.call_lang(base, e.get('args') or [], env)
            return None
        if k == 'path':
            v = env.get(e['text'])
            if isinstance(v, tuple) and v[0] == 'res':
                return None
        return None

    def cond(self, c, env):
        """[(regex consumed, truth value, env)] outcomes of evaluating a condition"""
        k = c.get('k')
        if k == 'try' and (c.get('expr') or {}).get('k') == 'call':
            # `if helper(input)? { .. }`: a parser helper that answers with a boolean
            call = c['expr']
            fn = (call['func'] if isinstance(call['func'], str) else A.text(call['func'])).split('::<')[0].split('::')[-1]
            if fn in self.fns and self.is_parser_fn(fn) and fn not in self.scanners and fn not in LEXICAL:
                self.call_lang(fn, call.get('args') or [], env)
                tg = None
                for key_, v_ in self.tagged.items():
                    if key_[0] == fn:
                        tg = v_
                if tg and set(tg) <= {'RET:true', 'RET:false'}:
                    return [(tg.get('RET:true', EMPTY), True, env), (tg.get('RET:false', EMPTY), False, env)]
        if k == 'unary' and c.get('op') == '!':
            return [(r, (None if t is None else not t), en) for r, t, en in self.cond(c['expr'], env)]
        if k == 'mcall':
            m = c['method']
            if m == 'is_empty' and not c.get('args'):
                rt = A.text(c['recv']).replace('*', '').strip()
                rk = c['recv'].get('k')
                is_acc = isinstance(env.get(rt), tuple) and env[rt][0] == 'vec'
                if 'input' in rt or (rk in ('path', 'unary') and not is_acc and '.' not in rt):
                    # the unparsed rest of the text (a byte slice local, whatever its name); accumulators are known from their `Vec::new()`
                    return [(EOF, True, env), (EPS, False, env)]
            if m in ('is_ok', 'is_err', 'is_some', 'is_none'):
                r = self.application(c['recv'], env)
                if r is None and c['recv'].get('k') == 'mcall' and c['recv']['method'] == 'ok':
                    r = self.application(c['recv']['recv'], env)
                pos = m in ('is_ok', 'is_some')
                if r is not None:
                    return [(r, pos, env), (EPS, not pos, env)]
                if c['recv'].get('k') == 'path':
                    v = env.get(c['recv']['text'])
                    if isinstance(v, tuple) and v[0] == 'res':
                        return [(EPS, (v[1] == 'Ok') == pos, env)]
        if k == 'letcond':
            pat = c['pat'].replace(' ', '')
            r = self.application(c['expr'], env)
            okpat = pat.startswith('Ok(') or pat.startswith('Some(')
            errpat = pat.startswith('Err(') or pat == 'None'
            if r is None and c['expr'].get('k') == 'mcall' and c['expr']['method'] == 'ok':
                r = self.application(c['expr']['recv'], env)
            if r is not None and (okpat or errpat):
                return [(r, okpat, env), (EPS, not okpat, env)]
            if c['expr'].get('k') == 'path':
                v = env.get(c['expr']['text'])
                if isinstance(v, tuple) and v[0] == 'res' and (okpat or errpat):
                    return [(EPS, (v[1] == 'Ok') == okpat, env)]
        if k == 'binary' and c.get('op') in ('&&', '||'):
            out = []
            for r1, t1, e1 in self.cond(c['l'], env):
                short = (c['op'] == '&&' and t1 is False) or (c['op'] == '||' and t1 is True)
                if short:
                    out.append((r1, t1, e1))
                    continue
                for r2, t2, e2 in self.cond(c['r'], e1):
                    if t1 is None:
                        # left unknown: both the short-circuit and the evaluation of the right side are possible
                        out.append((cat(r1, r2), t2 if c['op'] == '&&' else t2, e2))
                    else:
                        out.append((cat(r1, r2), t2, e2))
                if t1 is None:
                    out.append((r1, c['op'] == '||', e1))
            return out
        # anything else: consumption inside it (if any) and an unknown truth value
        r = self.pure(c, env)
        return [(r, None, env)]

    def pure(self, e, env):
        """regex consumed while evaluating an expression that is not itself a control construct; parser applications
        inside must be `?`-ed (Ok path) or explicitly discarded with .ok()"""
        if e is None or not isinstance(e, dict):
            return EPS
        k = e.get('k')
        if k == 'try':
            r = self.application(e['expr'], env)
            if r is not None:
                return r
            return self.pure(e['expr'], env)
        if k == 'mcall':
            if e['method'] in ('ok', 'unwrap_or_default', 'unwrap_or', 'unwrap_or_else') :
                r = self.application(e['recv'], env)
                if r is not None:
                    return opt(r)
            if e['method'] in ('unwrap', 'expect'):
                r = self.application(e['recv'], env)
                if r is not None:
                    return r
            r = self.application(e, env)
            if r is not None:
                raise Unmodelled('result of parser application `%s` is neither propagated with `?` nor inspected' % A.text(e)[:80])
            if e['method'] in ('trim', 'trim_start', 'trim_end', 'trim_ascii', 'trim_ascii_start', 'trim_ascii_end'):
                self.trim = True
            parts = [self.pure(e['recv'], env)] + [self.pure(a, env) for a in e.get('args') or []]
            return cat(*parts)
        if k == 'call':
            r = self.application(e, env)
            if r is not None:
                raise Unmodelled('result of parser call `%s` is neither propagated with `?` nor inspected' % A.text(e)[:80])
            return cat(*[self.pure(a, env) for a in e.get('args') or []])
        if k == 'closure':
            return EPS
        if k == 'assign':
            lhs = e.get('l') or e.get('left')
            rhs = e.get('r') or e.get('right')
            lt = A.text(lhs).replace(' ', '')
            rt = A.text(rhs)
            if (lhs or {}).get('k') == 'unary' and (lhs.get('expr') or {}).get('k') == 'path' and 'input' in lhs['expr']['text'] or lt in ('*input', 'input'):
                rv = rhs or {}
                if rv.get('k') == 'path':
                    return EPS      # restoring a checkpoint
                raise Unmodelled('phrase-level parser advances the input by hand: `%s = %s`' % (lt, rt[:60]))
            return self.pure(rhs, env)
        if k in ('if', 'match', 'loop', 'while', 'for', 'block', 'return', 'break', 'continue'):
            raise Unmodelled('control construct `%s` nested inside an expression' % k)
        if k == 'macro':
            return EPS
        out = []
        for key in ('expr', 'base', 'left', 'right', 'l', 'r', 'recv', 'index', 'value'):
            v = e.get(key)
            if isinstance(v, dict):
                out.append(self.pure(v, env))
        for key in ('args', 'elems', 'fields'):
            for v in e.get(key) or []:
                if isinstance(v, dict):
                    out.append(self.pure(v.get('value') if 'value' in v and 'k' not in v else v, env))
        return cat(*out)

    # ---- statements (continuation passing; returns a linear form)
    def block(self, stmts, i, K, env, tail):
        """language from statement i of `stmts` to the function's Ok return.  K: continuations ('next': linear form or None
        when falling off the end yields the function value, 'break', 'continue')."""
        if i >= len(stmts):
            nx = K.get('next')
            if nx is None:
                return DEAD if tail else RET     # a body without tail expression returns () - not a parser result
            return nx(env) if callable(nx) else nx
        st = stmts[i]
        k = st.get('k')
        rest = lambda en: self.block(stmts, i + 1, K, en, tail)
        last = (i == len(stmts) - 1)
        if k == 'tail':
            if last:
                return self.value(st['expr'], K, env, tail)
            st = st['expr']         # a block-like expression statement written without `;`
            k = st.get('k')
        if k == 'let':
            init = st.get('init')
            pat = (st.get('pat') or '').replace('mut ', '').strip()
            if init is None:
                return rest(env)
            if st.get('else') is not None and init.get('k') == 'path' and isinstance(env.get(init.get('text')), tuple) and env[init['text']][0] == 'res':
                okpat = pat.replace(' ', '').startswith(('Ok(', 'Some('))
                tag = env[init['text']][1]
                if (tag == 'Ok') == okpat:
                    return rest(env)
                return self.block(self._else_stmts(st), 0, dict(K, next=DEAD), env, False)
            if st.get('else') is not None:
                # let PAT = expr else { diverge };
                r = self.application(init, env)
                if r is not None:
                    okpat = pat.replace(' ', '').startswith(('Ok(', 'Some('))
                    els = self.block(self._else_stmts(st), 0, dict(K, next=DEAD), env, False)
                    return lf_alt(lf_cat(r, rest(env)) if okpat else els, els if okpat else lf_cat(r, rest(env)))
            r = self.application(init, env)
            if r is not None:
                # Result bound to a variable and inspected later: fork on the outcome
                e_ok = dict(env)
                e_ok[pat] = ('res', 'Ok')
                e_er = dict(env)
                e_er[pat] = ('res', 'Err')
                return lf_alt(lf_cat(r, rest(e_ok)), rest(e_er))
            if init.get('k') in ('if', 'match', 'block', 'loop', 'unsafe'):
                return self.stmt_expr(init, lambda en: rest(en), K, env, tail=False)
            it_ = A.text(init)
            if init.get('k') in ('call', 'macro', 'mcall') and (it_.startswith(('Vec::', 'vec!', 'alloc::vec::Vec::', 'Default::default', 'Members::default')) or init.get('name') == 'vec'):
                env = dict(env)
                env[pat] = ('vec',)
                return rest(env)
            if init.get('k') == 'path' and self.is_parser_fn(init['text'].split('::')[-1]):
                env = dict(env)
                env[pat] = ('fn', init['text'].split('::')[-1])
                return rest(env)
            if init.get('k') == 'closure' and ('& mut' in init.get('params', '') or 'input' in init.get('params', '')):
                env = dict(env)
                env[pat] = ('parser', self.parser_expr(init, env))
                return rest(env)
            if init.get('k') in ('call', 'mcall') and self.looks_like_combinator(init):
                env = dict(env)
                env[pat] = ('parser', self.parser_expr(init, env))
                return rest(env)
            return lf_cat(self.pure(init, env), rest(env))
        if k in ('if', 'match', 'loop', 'while', 'for', 'block', 'unsafe'):
            return self.stmt_expr(st, lambda en: rest(en), K, env, tail=(tail and last and K.get('next') is None))
        if k == 'return':
            return self.value(st.get('expr'), K, env, True, is_return=True)
        if k == 'break':
            b = K.get('break')
            if b is None:
                raise Unmodelled('break outside a loop')
            return b(env) if callable(b) else b
        if k == 'continue':
            c = K.get('continue')
            if c is None:
                raise Unmodelled('continue outside a loop')
            return c(env) if callable(c) else c
        if k in ('fn', 'enum', 'struct', 'items', 'impl', 'const', 'static', 'use', 'macro', 'item_macro', 'macro_rules'):
            return rest(env)
        # expression statement
        if last and tail and K.get('next') is None and st.get('semi') is False:
            return self.value(st, K, env, tail)
        return lf_cat(self.pure(st, env), rest(env))

    def _else_stmts(self, st):
        e = st.get('else')
        if isinstance(e, dict) and e.get('k') == 'block':
            return e.get('body') or []
        if isinstance(e, list):
            return e
        return [self.as_stmt(e)]

    def looks_like_combinator(self, e):
        if e.get('k') == 'call':
            base = (e['func'] if isinstance(e['func'], str) else A.text(e['func'])).split('::<')[0].split('::')[-1]
            return base in ('alt', 'opt', 'separated', 'repeat', 'preceded', 'terminated', 'delimited', 'separated_pair', 'literal', 'take_while')
        if e.get('k') == 'mcall' and e['method'] in TRANSPARENT_METHODS:
            return self.looks_like_combinator(e['recv'])
        return False

    def stmt_expr(self, st, rest, K, env, tail):
        """control construct in statement position: `rest(env)` is what follows it"""
        k = st['k']
        if k in ('block', 'unsafe'):
            return self.block(st['body'], 0, dict(K, next=rest), env, tail)
        if k == 'if':
            out = []
            for r, t, en in self.cond(st['cond_node'], env):
                if t is not False:
                    out.append(lf_cat(r, self.block(st['then'], 0, dict(K, next=(None if tail else rest)), en, tail)))
                if t is not True:
                    if st.get('else'):
                        out.append(lf_cat(r, self.block([self.as_stmt(x) for x in st['else']], 0, dict(K, next=(None if tail else rest)), en, tail)))
                    else:
                        out.append(lf_cat(r, rest(en)))
            return lf_alt(*out)
        if k == 'match':
            sc = st['scrut_node']
            r = self.application(sc, env)
            tag = None
            if r is None and sc.get('k') == 'path':
                v = env.get(sc['text'])
                if isinstance(v, tuple) and v[0] == 'res':
                    tag = v[1]
            pre = EPS
            if r is None and tag is None:
                pre = self.pure(sc, env)
            out = []
            for arm in st['arms']:
                pat = arm['pat'].replace(' ', '')
                is_ok = pat.startswith(('Ok(', 'Some('))
                is_err = pat.startswith('Err(') or pat == 'None'
                body = arm['body']
                lf = self.block([self.as_stmt(body)], 0, dict(K, next=(None if tail else rest)), env, tail)
                if r is not None:
                    if is_ok:
                        out.append(lf_cat(r, lf))
                    elif is_err:
                        out.append(lf)
                    else:
                        out.append(lf_alt(lf_cat(r, lf), lf))
                elif tag is not None:
                    if (is_ok and tag == 'Ok') or (is_err and tag == 'Err') or not (is_ok or is_err):
                        out.append(lf)
                else:
                    out.append(lf_cat(pre, lf))
            return lf_alt(*out)
        if k in ('loop', 'while', 'for'):
            self.loopc += 1
            var = 'L%d' % self.loopc
            head = {var: EPS}
            K2 = dict(K, next=head, **{'break': rest, 'continue': head})
            if k == 'loop':
                body = self.block(st['body'], 0, K2, env, False)
            elif k == 'while':
                outs = []
                for r, t, en in self.cond(st['cond_node'], env):
                    if t is not False:
                        outs.append(lf_cat(r, self.block(st['body'], 0, K2, en, False)))
                    if t is not True:
                        outs.append(lf_cat(r, rest(en)))
                body = lf_alt(*outs)
            else:
                # for over a collection: zero or more iterations, no parser result drives it
                pre = self.pure(st.get('iter_node'), env)
                body = lf_alt(self.block(st['body'], 0, K2, env, False), rest(env))
                return lf_cat(pre, lf_solve(body, var))
            return lf_solve(body, var)
        raise Unmodelled('statement kind %s' % k)

    def as_stmt(self, e):
        if isinstance(e, dict) and e.get('k') in ('if', 'match', 'loop', 'while', 'for', 'block', 'unsafe', 'return', 'break', 'continue', 'let'):
            return e
        return {'k': 'tail', 'expr': e} if isinstance(e, dict) else {'k': 'tail', 'expr': {'k': 'other'}}

    def value(self, e, K, env, tail, is_return=False):
        """expression whose value is the value of the enclosing block.  When the block is the function body (tail / return)
        the value is the parser's result: Ok(..) -> RET, Err(..) -> dead, a parser application -> its language then RET."""
        if e is None:
            return DEAD if (tail or is_return) else self.after(K, env)
        k = e.get('k')
        if not (tail or is_return):
            # value of an inner block in statement position: consumption only
            if k in ('if', 'match', 'loop', 'while', 'for', 'block', 'unsafe'):
                nx = K.get('next')
                return self.stmt_expr(e, (lambda en: (nx(en) if callable(nx) else nx)), K, env, False)
            if k in ('return', 'break', 'continue'):
                return self.block([e], 0, K, env, False)
            return lf_cat(self.pure(e, env), self.after(K, env))
        if k == 'call':
            fn = e['func'] if isinstance(e['func'], str) else A.text(e['func'])
            base = fn.split('::')[-1]
            if base == 'Ok':
                args_ = e.get('args') or []
                if len(args_) == 1 and args_[0].get('k') == 'bool':
                    return {'RET:true' if args_[0].get('value') else 'RET:false': EPS}
                return lf_cat(cat(*[self.pure(a, env) for a in args_]), RET)
            if base == 'Err':
                return DEAD
        if k in ('if', 'match', 'block', 'unsafe', 'loop', 'while'):
            return self.stmt_expr(e, lambda en: DEAD, dict(K, next=None), env, True)
        if k in ('return', 'break', 'continue'):
            return self.block([e], 0, K, env, True)
        r = self.application(e, env)
        if r is not None:
            return lf_cat(r, RET)
        if k == 'path':
            v = env.get(e['text'])
            if isinstance(v, tuple) and v[0] == 'res':
                return RET if v[1] == 'Ok' else DEAD
        if k == 'try':
            return lf_cat(self.pure(e, env), RET)
        if k == 'mcall' and e['method'] in ('map', 'map_err', 'and_then'):
            r = self.application(e['recv'], env)
            if r is not None:
                return lf_cat(r, RET)
        raise Unmodelled('result expression `%s` of a parser function is not modelled' % A.text(e)[:80])

    def after(self, K, env):
        nx = K.get('next')
        if nx is None:
            return RET
        return nx(env) if callable(nx) else nx


# ------------------------------------------------------------------------------------------------ reference grammar

def _sep_list(item, ws_):
    """( item ( ws "," ws item )* )?"""
    return opt(cat(item, star(cat(ws_, lit(','), ws_, item))))


def reference():
    """(L_min, L_max) per production.  L_max: the Varlink grammar (https://varlink.org/Interface-Definition) with `_` = white
    space or comment wherever it allows `_`, end-of-line requirements relaxed to `_*`, and the member list of a typedef relaxed
    to names with optional types (the struct / enum decision is a flag, rule R13.12).  L_min: what the property demands: white
    space between any two tokens, comments (on their own lines) before the interface, members, fields and variants."""
    U = star(alt(S, CM))          # `_*`
    U1 = cat(alt(S, CM), U)       # `_+`
    W = star(S)
    W1 = plus(S)
    PRE = star(alt(S, CM))        # own-line comments and white space before an element
    T = sym('<T>')
    FN, TN, IN = sym('FN'), sym('TN'), sym('IN')

    def grammar(u, u1, pre):
        arg = cat(pre, FN, u, lit(':'), u, T)
        obj = cat(lit('('), u, _sep_list(arg, u), u, lit(')'))
        enum = cat(lit('('), u, _sep_list(cat(pre, FN), u), u, lit(')'))
        prim = alt(*[lit(x) for x in ('bool', 'int', 'float', 'string', 'object')])
        nonopt = alt(cat(lit('[]'), T), cat(lit('[string]'), T), prim, TN, obj, enum)
        typ = cat(opt(lit('?')), nonopt)
        method = cat(lit('method'), u1, TN, u, obj, u, lit('->'), u, obj)
        error = cat(lit('error'), u1, TN, u, obj)
        return dict(typ=typ, obj=obj, enum=enum, method=method, error=error)

    gmax = grammar(U, U1, U)
    gmin = grammar(W, W1, PRE)
    # typedef: "(" members ")" - members are names with optional `: type` (mixed lists are excluded by the flag rule)
    memb_max = cat(U, FN, opt(cat(U, lit(':'), U, T)))
    tdef_max = cat(lit('type'), U1, TN, U, lit('('), U, _sep_list(memb_max, U), U, lit(')'))
    tdef_min = alt(cat(lit('type'), W1, TN, W, gmin['obj']), cat(lit('type'), W1, TN, W, gmin['enum']))
    member_max = alt(gmax['method'], gmax['error'], tdef_max)
    member_min = alt(gmin['method'], gmin['error'], tdef_min)
    iface_max = cat(U, lit('interface'), U1, IN, star(cat(U, member_max)), U, EOF)
    iface_min = cat(PRE, lit('interface'), W1, IN, star(cat(PRE, member_min)), W, EOF)
    return {
        'type': (gmin['typ'], gmax['typ']),
        'interface': (iface_min, iface_max),
    }


def word(w):
    out = []
    buf = ''
    for a in w:
        if len(a) == 1:
            buf += a
        else:
            if buf:
                out.append('`%s`' % buf)
                buf = ''
            out.append({'WS': '␣', 'CMT': '#comment', 'EOF': '<end>'}.get(a, a))
    if buf:
        out.append('`%s`' % buf)
    return ' '.join(out)
