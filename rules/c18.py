"""C18 - round-robin service (R18.1 - R18.4)."""
import mir
from mir import op_place, op_str
import common as C
import srv
import sym

META = {
    'level': 'proof',
    'explanation': (
        'Index-dataflow rules over the MIR of Server::run, Server::get_next_call and SelectAll::poll, using symbolic value '
        'expressions rebuilt from the MIR def chains (through closures, Option combinators and the range loop variable): '
        '(R18.1) the start index handed to each select is `last winner + 1`, where the last-winner variable is assigned only '
        'None initially and Some(index returned by that very select) on every path of the winning arm; '
        '(R18.2) SelectAll::poll polls index (start + i) mod n for i in 0..n with n = number of futures (the expression is '
        'checked as a congruence: only +, reduction mod n and the `None -> 0` default may occur), returns at the first Ready '
        'future with exactly the polled index, and reports Pending only after the whole sweep; '
        '(R18.3) the connection / stream lists are reordered by nothing but push and swap_remove/remove (no sort, swap, '
        'reverse, rotate, retain, ...), so positions are stable while the set of connections is unchanged; '
        '(R18.4) futures are handed to the select in list order (iter_mut -> map -> collect -> for .. push, no adaptor that '
        'permutes or skips) and the select gets the caller\'s start index unchanged. Lemma: with the connection set '
        'unchanged, after connection w wins the next sweep starts at w+1 and visits every other position before w, so a '
        'connection that is ready the whole time is served before w is served again. Not decided: the numeric bound across '
        'closures and streaming transitions (arithmetic over histories).'),
    'assumptions': ['a future that is ready stays ready until polled (receive futures over buffered frames)',
                    'Vec::push appends, swap_remove(i) moves only the last element into position i'],
    'trusted_base': ['rustc MIR construction', 'alloc::vec::Vec and core::option::Option API contracts'],
}

REORDER_OK = {'push', 'swap_remove', 'remove', 'index', 'index_mut', 'iter', 'iter_mut', 'len', 'is_empty', 'deref', 'deref_mut',
              'as_mut_slice', 'as_slice', 'get', 'get_mut', 'new', 'with_capacity', 'reserve', 'first', 'last', 'capacity'}
CHAIN_OK = {'next', 'into_iter', 'collect', 'map', 'iter_mut', 'iter', 'deref_mut', 'deref', 'new', 'as_mut_slice'}


def cong(e, n):
    """linear form of e modulo n over symbols 'S' (start value, 0 when absent) and 'i' (sweep variable); None if unknown"""
    k = e[0]
    if k == 'const' and isinstance(e[1], int):
        return {1: e[1]}
    if k == 'var':
        return {'x': 1}
    if k == 'field' and e[1] and e[1][-1] == 'start_index':
        return None   # an Option, not a number
    if k == 'bin' and e[1] == 'Add':
        a, b = cong(e[2], n), cong(e[3], n)
        if a is None or b is None:
            return None
        out = dict(a)
        for t, c in b.items():
            out[t] = out.get(t, 0) + c
        return out
    if k == 'bin' and e[1] == 'Rem' and e[3] == n:
        return cong(e[2], n)
    if k in ('payload',) and e[2][0] == 'rangevar':
        return cong(e[2], n)
    if k == 'rangevar':
        if e[1] == ('const', 0) and e[2] == n:
            return {'i': 1}
        return None
    if k == 'map_or' and e[2] == ('const', 0) and e[3][0] == 'lam':
        body = cong(e[3][1], n)
        if body == {'x': 1} and is_start_opt(e[1]):
            return {'S': 1}
        return None
    if k == 'unwrap_or' and e[2] == ('const', 0) and is_start_opt(e[1]):
        return {'S': 1}
    if k == 'phi' and len(e) > 3:
        # `match self.start_index { Some(idx) => idx % n, None => 0 }`: every alternative is the start value (its Some payload, possibly reduced) or 0
        kinds = set()
        for a in e[3]:
            x = a
            while x[0] == 'bin' and x[1] == 'Rem' and x[3] == n:
                x = x[2]
            if x == ('const', 0):
                kinds.add('zero')
            elif x[0] in ('payload', 'payload0', 'tuplefield') and 'start_index' in repr(x) and 'Some' in repr(x):
                kinds.add('start')
            else:
                return None
        if kinds == {'zero', 'start'}:
            return {'S': 1}
        return None
    return None


def is_start_opt(e):
    return e[0] == 'field' and e[1] and e[1][-1] == 'start_index' or e[0] == 'arg' and 'start' in str(e[1])


def clean(d):
    return {k: v for k, v in (d or {}).items() if v != 0}


def check_select_iterator_form(fx, rep, crate, cfg, body):
    """the sweep written with iterator adaptors: `(start..n).chain(0..start).find_map(|idx| match futures[idx].poll(cx) { Ready(x) => Some((idx, x)),
    Pending => None })` mapped to Ready / Pending.  The rotation start, start+1, .., n-1, 0, .., start-1 is the sequence (start + i) mod n for i in 0..n
    when start < n; find_map stops at the first Some.  Returns True when the form was recognised (instances recorded), False to fall back."""
    fk = body.path
    cls = []
    for cb in C.nested(crate, body):
        ps = [(b, t) for b, t in cb.iter_terms('call') if t['callee'].get('name') == 'poll' and 'Future' in (t['callee'].get('trait') or '')]
        if ps:
            cls.append((cb, ps))
    if len(cls) != 1 or len(cls[0][1]) != 1:
        return False
    cb, ((pb, pt),) = cls[0]
    fm = [(b, t) for b, t in body.iter_terms('call') if t['callee'].get('name') in ('find_map',) and len(t['args']) == 2]
    fm = [(b, t) for b, t in fm if sym.expr(crate, body, t['args'][1])[:2] == ('closure', cb.path)]
    if len(fm) != 1:
        return False
    fb, ft = fm[0]
    it = sym.expr(crate, body, ft['args'][0])
    n = None
    ok_rot = False
    det = {'iterator': sym.show(it, 300)}
    if it[0] == 'call' and it[1] == 'chain' and len(it[2]) == 2 and all(r[0] == 'adt' and r[2] == 'Range' and len(r[3]) == 2 for r in it[2]):
        (s1, e1), (s2, e2) = it[2][0][3], it[2][1][3]
        if e1[0] == 'len' and e1[1][0] == 'field':
            n = e1
        ok_rot = n is not None and s2 == ('const', 0) and e2 == s1
        # every definition of the start value is 0 or a remainder modulo n
        if ok_rot and s1[0] == 'phi':
            l = [i for i, loc in enumerate(body.locals) if loc.get('name') == s1[1]]
            defs = [d for d in body.defs().get(l[0], []) if d[2] == 'assign'] if l else []
            forms = []
            for b_, i_, k_, pl_ in defs:
                rv_ = pl_['rv']
                if rv_['k'] == 'use':
                    e = sym.expr(crate, body, rv_['op'])
                elif rv_['k'] == 'bin':
                    e = ('bin', rv_['op'].replace('WithOverflow', ''), sym.expr(crate, body, rv_['a']), sym.expr(crate, body, rv_['b']))
                else:
                    e = ('?',)
                forms.append(e)
            det['start_definitions'] = [sym.show(e, 120) for e in forms]
            ok_rot = bool(forms) and all(e == ('const', 0) or (e[0] == 'bin' and e[1] == 'Rem' and e[3] == n) for e in forms)
        elif ok_rot:
            def reduced(x):
                if x == ('const', 0) or (x[0] == 'bin' and x[1] == 'Rem' and x[3] == n):
                    return True
                if x[0] == 'payload' and x[1] == 'Some' and x[2][0] == 'call' and x[2][1] == 'checked_rem' and len(x[2][2]) == 2 and x[2][2][1] == n:
                    return True         # `start.checked_rem(n)` taken on its Some arm
                return False
            ok_rot = reduced(s1)
    rep.check(ok_rot, 'R18.2', '%s|polled-index|%s' % (fk, cfg), C.where(body, fb),
              'the sweep visits start..n then 0..start with start = (start index mod n) or 0: the rotation (start + i) mod n',
              'the iterator that drives the sweep is not the rotation start..n, 0..start with start reduced modulo the number of futures: %s' % det.get('iterator'), det)
    # the closure polls futures[idx] for its own parameter and hands back (idx, payload)
    idx_ok = False
    for b, t in cb.iter_terms('call'):
        if t['callee'].get('name') in ('index_mut', 'get_mut', 'index') and len(t['args']) == 2:
            ie = sym.expr(crate, cb, t['args'][1])
            if ie[0] == 'arg' and ie[1] == cb.local_name(2):
                idx_ok = True
    ret_ok = False
    for b, i, s_ in cb.iter_assigns():
        if s_['place']['l'] == 0 and s_['rv']['k'] == 'aggr' and s_['rv'].get('variant') == 'Some' and s_['rv'].get('ops'):
            te = sym.expr(crate, cb, s_['rv']['ops'][0])
            if te[0] == 'tuple' and len(te) == 3 and te[1] == ('arg', cb.local_name(2)) and te[2][0] == 'payload' and te[2][1] == 'Ready':
                ret_ok = True
    rep.check(idx_ok and ret_ok, 'R18.2', '%s|ready-returns-polled-index|%s' % (fk, cfg), cb.where(),
              'the closure polls futures[idx] for the index it is given and answers Some((idx, payload)) on Ready',
              'the index reported with a ready item is not the index that was polled (the server would serve / advance the wrong connection)')
    rep.ok('R18.2', '%s|ready-returned-at-once|%s' % (fk, cfg), C.where(body, fb),
           'Iterator::find_map stops at the first Some: after a Ready result no further future is polled')
    # Pending exactly when find_map found nothing (or there are no futures)
    pend_ok = False
    for b, t in body.iter_terms('call'):
        if t['callee'].get('name') == 'map_or' and len(t['args']) == 3:
            a0 = sym.expr(crate, body, t['args'][0])
            a1 = sym.expr(crate, body, t['args'][1])
            a2 = sym.expr(crate, body, t['args'][2])
            if a0[0] == 'call' and a0[1] == 'find_map' and a1[:3] == ('adt', 'std::task::Poll', 'Pending') and a2[0] == 'fn' and a2[1].endswith('Poll::Ready') and t['dest']['l'] == 0:
                pend_ok = True
    if not pend_ok:
        # match / if let on the Option returned by find_map
        for sw in range(body.n):
            if body.is_cleanup(sw) or body.term(sw)['k'] != 'switch':
                continue
            info = body.switch_info(sw)
            if info and info.get('kind') == 'discr' and (info['place'].get('ty') or '').startswith(('std::option::Option<', 'core::option::Option<')) and fb in body.dom().get(sw, ()):
                none_edge = info['arms'].get(0, info['otherwise'])
                pend = [b for b, i, s_ in C.aggr_adt_sites(body, 'task::Poll', 'Pending') if s_['place']['l'] == 0 and fb in body.dom().get(b, ())]
                if pend and all(b in body.reachable(none_edge) and all(b not in body.reachable(tg, avoid={sw}) for v, tg in info['arms'].items() if v != 0) for b in pend):
                    pend_ok = True
    rep.check(pend_ok, 'R18.2', '%s|pending-only-after-sweep|%s' % (fk, cfg), body.where(),
              'Pending is returned exactly when the sweep found no ready future (or there are none)',
              'Pending can be returned although the sweep produced an item, or the item of the sweep is not what is returned')
    return True


def check_select(fx, rep, crate, cfg):
    polls = [b for b in crate.bodies if not b.in_test and b.kind == 'AssocFn' and b.impl_self and 'select_all::SelectAll' in b.impl_self
             and b.name == 'poll']
    if not polls:
        rep.bad('R18.2', 'anchor|%s' % cfg, '-', 'SelectAll::poll not found')
        return
    body = polls[0]
    fk = body.path
    inner = [(b, t) for b, t in body.iter_terms('call') if t['callee'].get('name') == 'poll' and 'Future' in (t['callee'].get('trait') or '')]
    if len(inner) == 0 and check_select_iterator_form(fx, rep, crate, cfg, body):
        return
    if len(inner) != 1:
        rep.bad('R18.2', '%s|poll-sites|%s' % (fk, cfg), body.where(), 'expected exactly one inner poll site in the sweep loop, found %d' % len(inner))
        return
    pb, pt = inner[0]
    # the polled element: futures[idx]
    recv = sym.expr(crate, body, pt['args'][0])
    idx_e, idx_op = None, None
    tr = body.trace(pt['args'][0])
    for _ in range(6):
        if tr.get('kind') == 'call' and tr['callee'].get('name') in ('index_mut', 'index', 'get_unchecked_mut', 'get_mut'):
            idx_op = tr['args'][1]
            idx_e = sym.expr(crate, body, idx_op)
            vec_e = sym.expr(crate, body, tr['args'][0])
            break
        if tr.get('kind') == 'call' and tr['args']:
            tr = body.trace(tr['args'][0])
        else:
            break
    if idx_e is None:
        rep.bad('R18.2', '%s|polled-index|%s' % (fk, cfg), C.where(body, pb), 'the polled future is not an indexed element of the futures list')
        return
    n = ('len', vec_e) if vec_e[0] == 'field' else None
    top_ok = idx_e[0] == 'bin' and idx_e[1] == 'Rem' and n is not None and idx_e[3] == n
    lin = clean(cong(idx_e, n)) if n else None
    rep.check(top_ok and lin == {'S': 1, 'i': 1}, 'R18.2', '%s|polled-index|%s' % (fk, cfg), C.where(body, pb),
              'polled index is (start + i) mod n: %s' % sym.show(idx_e),
              'the index polled in the sweep is not congruent to (start index + i) modulo the number of futures, reduced into range: %s '
              '(accepted: +, reduction mod n, None -> 0)' % sym.show(idx_e), {'expr': sym.show(idx_e, 800), 'linear_form': {str(k): v for k, v in (lin or {}).items()}})
    # first Ready returns (same idx, payload)
    ready = [(b, i, s) for b, i, s in C.aggr_adt_sites(body, 'task::Poll', 'Ready') if s['place']['l'] == 0]
    ok = False
    det = {}
    for b, i, s in ready:
        te = sym.expr(crate, body, s['rv']['ops'][0])
        det['ready_value'] = sym.show(te)
        if te[0] == 'tuple' and len(te) == 3 and te[1] == idx_e:
            pay = te[2]
            if pay[0] == 'payload' and pay[1] == 'Ready':
                ok = True
    rep.check(ok, 'R18.2', '%s|ready-returns-polled-index|%s' % (fk, cfg), body.where(),
              'Ready((idx, item)) carries the index that was polled and that poll\'s payload',
              'the index reported with a ready item is not the index that was polled (the server would serve / advance the wrong connection)', det)
    # nothing is polled after a Ready result: the ready output is returned at once
    after = None
    x = pt.get('t')
    for _ in range(8):
        if x is None:
            break
        info = body.switch_info(x)
        if info and info.get('kind') == 'discr':
            after = info['arms'].get(0)
            break
        sx = body.succ(x)
        x = sx[0] if len(sx) == 1 else None
    if after is None:
        rep.bad('R18.2', '%s|ready-returned-at-once|%s' % (fk, cfg), C.where(body, pb), 'the match on the result of the inner poll was not found')
    else:
        again = pb in body.reachable(after)
        rep.check(not again, 'R18.2', '%s|ready-returned-at-once|%s' % (fk, cfg), C.where(body, pb),
                  'after a Ready result no further future is polled in this call: the output is returned at once',
                  'after one future returned Ready the sweep goes on polling: a second future that is ready in the same sweep has its output produced and dropped '
                  '(its message was already consumed from the connection buffer)')
    # Pending only after the sweep (iterator exhausted) or with no futures
    pend = [(b, i, s) for b, i, s in C.aggr_adt_sites(body, 'task::Poll', 'Pending') if s['place']['l'] == 0]
    bad = []
    for b, i, s in pend:
        cds = body.control_deps_closure(b)
        fine = False
        for sw, tgt in cds:
            info = body.switch_info(sw)
            if not info:
                continue
            if info.get('kind') == 'discr':
                of = sym.place_expr(crate, body, info['place'], {}, 12)
                if of[0] == 'call' and of[1] == 'next' and info['arms'].get(0) == tgt:
                    fine = True
            if info.get('kind') == 'cmp' and info['op'] == 'Eq' and info['true'] == tgt:
                a, bb = sym.expr(crate, body, info['a_op']), sym.expr(crate, body, info['b_op'])
                if {a, bb} == {n, ('const', 0)}:
                    fine = True
            if body.term(sw).get('op_ty') == 'bool' and info.get('true') == tgt:
                # `if self.futures.is_empty() { return Pending }`
                tr_ = body.trace(body.term(sw)['op'])
                if tr_.get('kind') == 'call' and tr_['callee'].get('name') == 'is_empty' and tr_['args'] and \
                        sym.expr(crate, body, tr_['args'][0]) in (vec_e, ('ref', vec_e)) or \
                        (tr_.get('kind') == 'call' and tr_['callee'].get('name') == 'is_empty' and tr_['args'] and 'futures' in repr(sym.expr(crate, body, tr_['args'][0]))):
                    fine = True
        if not fine:
            bad.append(C.where(body, b, i))
    rep.check(bool(pend) and not bad, 'R18.2', '%s|pending-only-after-sweep|%s' % (fk, cfg), body.where(),
              'Pending is returned only when the sweep iterator is exhausted or there are no futures',
              'Pending can be returned before every future was polled', {'sites': bad})


def check_run(fx, rep, crate, cfg):
    S = srv.Srv(crate)
    run = S.run
    if run is None or S.errors:
        rep.bad('R18.1', 'anchor|%s' % cfg, '-', 'Server::run anchors not found: %s' % S.errors)
        return
    for kind in ('calls', 'streams'):
        k, arm = S.arm_of_kind(kind)
        if arm is None:
            rep.bad('R18.1', '%s|arm-%s|%s' % (run.path, kind, cfg), run.where(), 'select arm %s not found' % kind)
            continue
        # start-index operand
        start_op = None
        if kind == 'calls':
            for b, t in run.iter_terms('call'):
                if t['callee'].get('def') == S.get_next_call_fn:
                    # the start index argument: the one of type Option<usize>
                    for a_ in t['args']:
                        ty_ = ((a_.get('place') or {}).get('ty') or a_.get('ty') or '')
                        if ty_.replace(' ', '') in ('std::option::Option<usize>', 'core::option::Option<usize>'):
                            start_op = a_
                    if start_op is None and len(t['args']) > 2:
                        start_op = t['args'][2]
        else:
            # SelectAll::new(start) that is moved into the fused future of this arm
            for b, t in run.iter_terms('call'):
                if 'select_all::SelectAll' in (t['callee'].get('def') or '') and t['callee'].get('name') == 'new':
                    start_op = t['args'][0]
        if start_op is None:
            rep.bad('R18.1', '%s|start-%s|%s' % (run.path, kind, cfg), run.where(), 'start-index argument of the %s select not found' % kind)
            continue
        e = sym.expr(crate, run, start_op)
        idx = S.index_locals(k)
        W = None
        plus_one_at_use = False
        if e[0] == 'map' and e[1][0] == 'phi' and e[2] == ('lam', ('bin', 'Add', ('var', 'x'), ('const', 1))):
            W, plus_one_at_use = e[1][1], True
        elif e[0] == 'phi':
            W = e[1]
        wl = [l['i'] for l in run.locals if l.get('name') == W and l.get('user')] if W else []
        ok = bool(wl)
        det = {'start_expr': sym.show(e)}
        def_blocks = []
        if ok:
            w = wl[0]
            for (b, i, kd, payload) in run.defs().get(w, []):
                if kd != 'assign':
                    ok = False
                    continue
                rv = payload['rv']
                if rv['k'] == 'aggr' and rv.get('variant') == 'None':
                    continue
                src = None
                if rv['k'] == 'use':
                    tr = run.trace(rv['op'])
                    if tr.get('kind') == 'aggr' and tr['rv'].get('variant') == 'Some':
                        src = tr['rv']['ops'][0]
                elif rv['k'] == 'aggr' and rv.get('variant') == 'Some':
                    src = rv['ops'][0]
                if src is None:
                    ok = False
                    det.setdefault('bad_defs', []).append(C.where(run, b, i))
                    continue
                q = op_place(src)
                good = False
                if plus_one_at_use:
                    good = bool(q) and q['l'] in idx
                    if q and not good:
                        # copy of an index local
                        sd = run.single_def(q['l'])
                        if sd and sd[2] == 'assign' and sd[3]['rv']['k'] == 'use':
                            q2 = op_place(sd[3]['rv']['op'])
                            good = bool(q2) and q2['l'] in idx
                else:
                    se = sym.expr(crate, run, src)
                    good = se[0] == 'bin' and se[1] == 'Add' and se[3] == ('const', 1)
                if not good:
                    ok = False
                    det.setdefault('bad_defs', []).append(C.where(run, b, i))
                else:
                    def_blocks.append(b)
        rep.check(ok, 'R18.1', '%s|start-is-last-winner-plus-one|%s|%s' % (run.path, kind, cfg), run.where(),
                  'start index of the %s select is (last winner of that select) + 1: %s' % (kind, sym.show(e)),
                  'the start index handed to the %s select is not `index returned by the previous win of this select + 1` '
                  '(accepted: winner.map(|i| i + 1) with winner = None | Some(select index)): %s' % (kind, sym.show(e)), det)
        # updated on every path through the winning arm
        if ok and arm.get('target') is not None and S.loop_head is not None:
            r = run.reachable(arm['target'], avoid=set(def_blocks))
            rep.check(S.loop_head not in r, 'R18.1', '%s|winner-updated-on-every-win|%s|%s' % (run.path, kind, cfg), C.where(run, arm['target']),
                      'every path through the winning arm back to the loop head records the winner',
                      'a path through the %s arm reaches the next iteration without recording the winner (stale start index)' % kind)
    # R18.3 reorder
    bad = []
    n_ops = 0
    for b, t in run.iter_terms('call'):
        if not t['args']:
            continue
        v = S.vec_of_operand(run, t['args'][0])
        if v is None:
            continue
        nm = t['callee'].get('name')
        d = (t['callee'].get('def') or '') + (t['callee'].get('resolved') or '')
        if 'Vec' not in d and 'slice' not in d and 'IndexMut' not in d and 'Index' not in d and 'Deref' not in d:
            continue
        n_ops += 1
        if nm not in REORDER_OK:
            bad.append('%s at %s' % (nm, C.where(run, b)))
    rep.check(n_ops >= 4 and not bad, 'R18.3', '%s|list-operations|%s' % (run.path, cfg), run.where(),
              '%d operations on the connection / stream lists, all position-preserving (push / swap_remove / element access)' % n_ops,
              'the connection or stream list is reordered by an operation other than push / swap_remove: %s' % bad, {'ops': n_ops})
    # R18.4 order of futures
    g = S.get_next_call
    for body, label in ((g, 'calls'), (run, 'streams')):
        if body is None:
            rep.bad('R18.4', 'anchor-%s|%s' % (label, cfg), '-', 'get_next_call not found')
            continue
        pushes = [(b, t) for b, t in body.iter_terms('call') if 'select_all::SelectAll' in (t['callee'].get('def') or '')
                  and t['callee'].get('name') in ('push', 'push_unchecked')]
        for b, t in pushes:
            e = sym.expr(crate, body, t['args'][1])
            names = []

            def walk(x):
                if isinstance(x, tuple) and x:
                    if x[0] == 'call':
                        names.append(x[1])
                    for y in (x[1:] if isinstance(x[0], str) else x):
                        walk(y)
            walk(e)
            extra = [nme for nme in names if nme not in CHAIN_OK]
            has_iter = 'iter_mut' in names or 'iter' in names
            rep.check(has_iter and not extra, 'R18.4', '%s|futures-in-list-order|%s|%s' % (body.path, label, cfg), C.where(body, b),
                      'select futures are created and pushed in list order: %s' % sym.show(e, 200),
                      'the futures handed to the select do not follow the list order (adaptor(s) %s between the list and the push)' % extra,
                      {'expr': sym.show(e, 600)})
        if label == 'calls':
            news = [(b, t) for b, t in body.iter_terms('call') if 'select_all::SelectAll' in (t['callee'].get('def') or '') and t['callee'].get('name') == 'new']
            for b, t in news:
                e = sym.expr(crate, body, t['args'][0])
                rep.check(e[0] == 'arg', 'R18.4', '%s|start-index-forwarded|%s' % (body.path, cfg), C.where(body, b),
                          'get_next_call forwards its start index unchanged to the select', 'get_next_call does not forward its start index unchanged: %s' % sym.show(e))
    rep.floor('R18.4', 2, 'push sites / start forwarding')
    # R18.5 the select is the only source of a served call: every Ok return of get_next_call hands out the awaited SelectAll result,
    # and no receive is started outside the futures handed to the select
    if g is not None:
        oks = [(b, i, st) for b, i, v, st in C.ok_err_of_return_sites(g) if v == 'Ok']
        plain_value = False
        if not oks and not (g.d.get('ret_ty') or g.locals[0].get('ty') or '').startswith(('std::result::Result<', 'core::result::Result<')):
            # the function returns the (index, call) pair itself, not wrapped in an always-Ok Result
            oks = [(b, i, st) for b, i, v, st in C.ok_err_of_return_sites(g) if v == 'other' and isinstance(i, int)]
            plain_value = True
        bad = []
        for b, i, st in oks:
            if plain_value:
                q = op_place(st['rv']['op']) if st['rv']['k'] == 'use' else None
                if q is None:
                    q = next(iter(mir.rv_places_read(st['rv'])), None)
            else:
                q = op_place(st['rv']['ops'][0]) if st.get('rv') and st['rv'].get('ops') else None
            locs, evs = g.slice_back([q['l']]) if q else (set(), [])
            from_select = any(e[0] == 'call' and e[2]['callee'].get('name') == 'poll' and 'select_all::SelectAll' in (e[2]['callee'].get('resolved') or '') + str(e[2]['callee'].get('args') or '') for e in evs) or \
                any(e[0] == 'call' and e[2]['callee'].get('name') == 'into_future' and 'SelectAll' in (e[2]['callee'].get('args') or '') for e in evs)
            if not from_select:
                bad.append(C.where(g, b, i))
        direct = [C.where(g, b) for b, t in g.iter_terms('call') if t['callee'].get('name') in ('receive_call', 'read_message', 'receive_reply')]
        rep.check(bool(oks) and not bad and not direct, 'R18.5', '%s|select-is-the-only-winner-source|%s' % (g.path, cfg), g.where(),
                  'every Ok return of get_next_call is the result of the awaited select (%d return site(s)); no receive is started outside the select' % len(oks),
                  'get_next_call can serve a call that did not win the round-robin select (return sites not fed by the select: %s; receives started outside the select: %s): '
                  'connections polled by the select can be bypassed and starve' % (bad, direct))


def check(fx, rep, tier):
    rep.rule('R18.1', 'the start index of each select is the index returned by that select\'s previous win + 1, recorded on every path of the winning arm')
    rep.rule('R18.2', 'SelectAll::poll polls (start + i) mod n for i in 0..n, returns the first Ready with the polled index, Pending only after the sweep')
    rep.rule('R18.3', 'the connection and stream lists are modified only by push / swap_remove / element access')
    rep.rule('R18.4', 'futures are pushed to the select in list order; the start index reaches the select unchanged')
    rep.rule('R18.5', 'the round-robin select is the only source of a served call: get_next_call returns nothing but its result and starts no receive outside it')
    for cfg in ['full'] + (['ws'] if tier == 'thorough' else []):
        crate = fx.crate('zlink_core', cfg)
        check_select(fx, rep, crate, cfg)
        check_run(fx, rep, crate, cfg)
    rep.floor('R18.1', 4, 'start-index / winner-update instances')
    rep.floor('R18.2', 3, 'sweep obligations')
    import imports as _imp
    _imp.layer(fx, rep, 'C18')
    return META
