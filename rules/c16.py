"""C16 - derived introspection describes the Rust type it was derived from (R16.1 - R16.3)."""
CONFIGS_THOROUGH = ('full',)    # the introspection feature implies std: there is no second configuration with Type impls
import re
import ast as A
import common as C

M = 'zlink-macros/src/introspect'
KEYED_METHODS = {'entry', 'or_insert', 'or_insert_with', 'or_insert_with_key', 'or_default', 'into_values', 'into_keys', 'dedup_by_key', 'dedup_by'}
ORDER_BREAKERS = {'rev', 'sort', 'sort_by', 'sort_by_key', 'sort_unstable', 'sort_unstable_by', 'reverse', 'skip', 'step_by', 'take', 'dedup', 'retain', 'swap', 'rotate_left',
                  'rotate_right', 'insert', 'append', 'extend', 'extend_from_slice', 'splice', 'drain', 'chain', 'filter', 'partition'}

META = {
    'level': 'other',
    'explanation': (
        'Table extraction from the compiler and template rules: (R16.1) for every impl of introspect::Type in zlink-core (all '
        'feature configurations of the run) the outermost IDL constructor built by the associated const TYPE - read from the MIR '
        'of the const body and its promoted constant - is the one the statement prescribes for the implementing Rust type: '
        'integers -> int, floats -> float, bool -> bool, str / String / char -> string, Option -> optional, Vec / slices / sets '
        '-> array, string-keyed maps -> map, () -> empty object, Box / Rc / Arc / Cell / RefCell / Cow -> the inner type\'s '
        'description; the std types the statement does not name (paths, addresses, times, serde_json::Value, description '
        'wrappers) are compared with the mapping frozen from the confirmed tree; an impl for an unlisted type is reported as '
        'unclassified; every composite impl passes `<T as Type>::TYPE` of its own parameter; (R16.2) derive templates: each field '
        'is described under the unraw\'d identifier string, with `<FieldTy as Type>::TYPE` after lifetime erasure and its doc '
        'comments; fields and variants are emitted by iterating the declaration in order into ONE accumulator - no second list '
        'appended later, no sort / reverse / filter on the way; (R16.3) rendering and parsing of assembled interfaces is C14 (same '
        'rule code). Not decided: agreement for every program in the corpus (quantifies over programs).'),
    'assumptions': ['const evaluation of `&idl::Type::X` is what the promoted MIR shows'],
}

INTS = {'i8', 'i16', 'i32', 'i64', 'i128', 'u8', 'u16', 'u32', 'u64', 'u128', 'isize', 'usize'}
FROZEN = {   # types the statement does not name: mapping confirmed on the pinned tree
    'serde_json::Value': 'ForeignObject', 'std::time::Duration': 'Float', 'core::time::Duration': 'Float', 'std::time::Instant': 'Float', 'std::time::SystemTime': 'Float',
    'std::path::PathBuf': 'String', 'std::path::Path': 'String', 'std::ffi::OsString': 'String', 'std::ffi::OsStr': 'String',
    'std::net::IpAddr': 'String', 'std::net::Ipv4Addr': 'String', 'std::net::Ipv6Addr': 'String', 'std::net::SocketAddr': 'String', 'std::net::SocketAddrV4': 'String',
    'std::net::SocketAddrV6': 'String', 'core::net::IpAddr': 'String', 'core::net::Ipv4Addr': 'String', 'core::net::Ipv6Addr': 'String', 'core::net::SocketAddr': 'String',
    'core::net::SocketAddrV4': 'String', 'core::net::SocketAddrV6': 'String',
    'uuid::Uuid': 'String', 'url::Url': 'String', 'bytes::Bytes': 'Array', 'bytes::BytesMut': 'Array',
}


def expected(self_ty):
    t = self_ty.replace(' ', '')
    t0 = re.sub(r'^&(\'[a-z_]+)?(mut)?', '', t)
    if t in ('()',):
        return 'Object'
    if t0 in INTS:
        return 'Int'
    if t0 in ('f32', 'f64'):
        return 'Float'
    if t0 == 'bool':
        return 'Bool'
    if t0 in ('str', 'char', 'std::string::String', 'alloc::string::String', 'String'):
        return 'String'
    if re.match(r'(std|core)::option::Option<', t0):
        return 'Optional'
    if re.match(r'(std|alloc)::vec::Vec<|(std|alloc)::collections::(VecDeque|LinkedList|BinaryHeap|BTreeSet|HashSet|btree_set::BTreeSet|hash::set::HashSet)<|\[', t0):
        return 'Array'
    if re.match(r'(std|alloc)::collections::(HashMap|BTreeMap|hash::map::HashMap|btree_map::BTreeMap)<', t0):
        key = re.sub(r'^[^<]*<', '', t0).split(',')[0]
        if key in ('std::string::String', '&str', "&'_str", 'alloc::string::String') or key.endswith('str') or key.endswith('String'):
            return 'Map'
        return 'Map?'
    if re.match(r'(std|alloc)::(boxed::Box|rc::Rc|sync::Arc|cell::Cell|cell::RefCell|borrow::Cow)<|core::cell::(Cell|RefCell)<', t0):
        return 'inner'
    for k, v in FROZEN.items():
        if t0 == k:
            return v
    return None


def ctor_of(body):
    """outermost idl::Type constructor of a TYPE const body: variant name, 'inner' (passes T::TYPE through), or None"""
    aggr = [s['rv'].get('variant') for blk, i, s in body.iter_assigns() if s['rv']['k'] == 'aggr' and 'idl::r#type::Type' in s['rv'].get('adt', '') and 'TypeRef' not in s['rv'].get('adt', '')]
    if aggr:
        return aggr[-1]
    prom = body.d.get('promoted') or []
    for stmts in prom:
        m = None
        for st in stmts:
            mm = re.search(r"idl::r#type::Type::<[^>]*>::(\w+)", st)
            if mm:
                m = mm.group(1)
        if m:
            return m
    # the constructor written once in a small `const fn array_of(elem) -> Type` helper of the crate and called from the const body
    # (possibly inside the promoted `&helper(T::TYPE)`)
    crate = body.crate
    helpers = [t['callee'] for blk, t in body.iter_terms('call') if t['callee'].get('local')]
    for stmts in prom:
        for st in stmts:
            for mm in re.finditer(r'([A-Za-z_][\w:]*)::<[^>]*>\(|= ([A-Za-z_][\w:]*)\(', st):
                nm = mm.group(1) or mm.group(2)
                if nm:
                    helpers.append({'def': nm, 'resolved': nm})
    for c in helpers:
        hb = crate.by_path.get(c.get('resolved') or c.get('def') or '') or crate.by_path.get((c.get('def') or '').split('::<')[0])
        if hb is not None and hb is not body and hb.n <= 6:
            inner = ctor_of(hb)
            if inner and inner != 'inner':
                return inner
    uses = [s for blk, i, s in body.iter_assigns() if s['rv']['k'] == 'use' and s['rv']['op'].get('k') == 'const']
    if uses and all('Type::TYPE' in (u['rv']['op'].get('def') or '') for u in uses) and not prom:
        return 'inner'
    return None


def check_impls(fx, rep, crate, cfg):
    n = 0
    for body in crate.bodies:
        if body.name != 'TYPE' or body.in_test or 'introspect' not in body.path and 'Type' not in body.path:
            continue
        m = re.search(r'impl introspect::r#type::Type for (.*)>::TYPE$', body.path)
        if m:
            self_ty = m.group(1)
        else:
            m2 = re.match(r'<(.*) as introspect::r#type::Type>::TYPE$', body.path)
            if not m2:
                continue
            self_ty = m2.group(1)
        n += 1
        got = ctor_of(body)
        want = expected(self_ty)
        key = 'type-impl|%s|%s' % (re.sub(r"'[a-z_]+", "'_", self_ty), cfg)
        if want is None:
            if self_ty.startswith(('varlink_service::', 'idl::', 'reply::', 'call::')) or '::' not in self_ty.split('<')[0] and self_ty[0].isupper():
                rep.ok('R16.1', key, body.where(), 'derived / library description type (%s): not a std mapping' % got, nontrivial=False)
            else:
                rep.bad('R16.1', key, body.where(), 'impl of introspect::Type for `%s` is not classified by the mapping table (it yields %s): add it to the table with the Varlink type it must map to' % (self_ty, got))
            continue
        ok = got == want or (want == 'Map?' and got == 'Map')
        rep.check(ok, 'R16.1', key, body.where(), '%s is described as %s' % (self_ty, got),
                  'the description of `%s` is built with the IDL constructor %s, the mapping requires %s' % (self_ty, got, want.rstrip('?')))
        # composite impls describe their own parameter
        if want in ('Optional', 'Array', 'Map', 'Map?', 'inner') and '<' in self_ty:
            params = [(u['rv']['op'].get('s') or '') + ' ' + (u['rv']['op'].get('def') or '') for blk, i, u in body.iter_assigns() if u['rv']['k'] == 'use' and u['rv']['op'].get('k') == 'const']
            params += [st for stmts in (body.d.get('promoted') or []) for st in stmts if re.search(r'Type(>)?::TYPE', st)]
            params += [(a.get('s') or '') + ' ' + (a.get('def') or '') for blk, t in body.iter_terms('call') for a in t['args'] if a.get('k') == 'const']
            # which parameter: the value of a map (second generic argument), the element otherwise (first) - when that argument is a bare type parameter,
            # the `<X as Type>::TYPE` the body uses must name exactly it (`String::TYPE` in the impl for BTreeMap<String, V> describes every map as [string]string)
            gen = self_ty[self_ty.index('<') + 1:self_ty.rindex('>')] if '>' in self_ty else ''
            gargs, depth_, cur_ = [], 0, ''
            for ch in gen:
                if ch == ',' and depth_ == 0:
                    gargs.append(cur_.strip())
                    cur_ = ''
                    continue
                depth_ += ch in '<(['
                depth_ -= ch in '>)]'
                cur_ += ch
            if cur_.strip():
                gargs.append(cur_.strip())
            gargs = [a for a in gargs if not a.startswith("'")]
            want_arg = None
            if gargs:
                want_arg = gargs[1] if (want in ('Map', 'Map?') and len(gargs) > 1) else gargs[0]
                want_arg = re.sub(r"^&('\w+ )?(mut )?", '', want_arg)
                if want_arg.startswith('[') and want_arg.endswith(']'):
                    want_arg = want_arg[1:-1]
            used = set()
            for p_ in params:
                for mm in re.finditer(r'<([^<>]+?) as [\w:#]*Type>::TYPE', p_):
                    used.add(mm.group(1).strip())
            bare = bool(want_arg) and re.fullmatch(r'[A-Z][A-Za-z0-9]*', want_arg) is not None
            own = (not bare) or (not used) or (want_arg in used and all(u == want_arg or not re.fullmatch(r'[A-Za-z_][\w:]*', u) or u == want_arg for u in used))
            rep.check(any(re.search(r'Type(>)?::TYPE', p) for p in params) and own, 'R16.1', key + '|element', body.where(), 'the element description is `<T as Type>::TYPE` of the impl\'s parameter',
                      'the element of `%s` is not described by its parameter\'s `<T as Type>::TYPE`%s' % (self_ty, (' (the body names %s, the %s of the type is `%s`)' % (sorted(used), 'value' if want in ('Map', 'Map?') else 'element', want_arg)) if not own else ''))
    if n < (45 if cfg == 'full' else 20):
        rep.bad('R16.1', 'floor|%s' % cfg, '-', 'expected at least %d impls of introspect::Type in configuration %s, found %d: anchor lost' % (45 if cfg == 'full' else 20, cfg, n))


def check_templates(fx, rep):
    t = fx.tpl
    fns = A.all_fns(t, M)
    if not fns:
        rep.bad('R16.2', 'anchor', M, 'introspection derive sources not found')
        return
    by = {}
    for f, n, impl in fns:
        if n['name'] in by and not A.macros(n['body']):
            continue          # thin wrapper around the shared generator
        if n['name'] not in by or not A.macros(by[n['name']][1]['body']):
            by[n['name']] = (f, n)
    # field definitions: the function whose template builds `idl::Field::new(<name>, <Ty as Type>::TYPE, comments)` - found by what it emits, the
    # interpolated variables are followed to their bindings whatever they are called
    tmpl = None
    for f, n, impl in fns:
        for m in A.macros(n['body']):
            mt = re.search(r'idl\s*::\s*Field\s*::\s*new\s*\(\s*#\s*(\w+)\s*,\s*<\s*#\s*(\w+)\s+as\s+#\s*\w+\s*::\s*introspect\s*::\s*Type\s*>\s*::\s*TYPE\s*,([^;]*)', m.get('tokens') or '')
            if mt and tmpl is None:
                tmpl = (f, n, m, mt)
    if tmpl is not None:
        f, n, m, mt = tmpl
        lets = {(y.get('pat') or '').replace('mut ', '').strip(): A.text(y.get('init')) for y in A.nodes(n['body']) if y.get('k') == 'let' and isinstance(y.get('init'), dict)}
        name_var, ty_var, rest = mt.group(1), mt.group(2), mt.group(3)
        name_src = lets.get(name_var, '')
        ty_src = lets.get(ty_var, '')
        # the identifier string as it is: unraw() + to_string() and nothing after that (a trimmed / replaced / re-cased name is not a member of the Rust type)
        NAME_EDIT = re.compile(r'\.\s*(trim\w*|strip_\w+|replace\w*|to_(ascii_)?(lower|upper)case|to_snake_case|to_\w+_case|split\w*|chars|rsplit\w*|truncate|pop|drain|get|trim_end_matches|trim_start_matches)\s*\(')
        edits = NAME_EDIT.findall(name_src)
        ok_name = 'to_string' in name_src and 'unraw' in name_src and not edits
        ok_ty = 'remove_lifetimes_from_type' in ty_src
        cvars = re.findall(r'#\s*(\w+)', rest)

        def from_docs(v, depth=0):
            src = lets.get(v, '')
            if 'extract_doc_comments' in src:
                return True
            return depth < 3 and any(from_docs(w, depth + 1) for w in re.findall(r'[A-Za-z_]\w*', src) if w in lets and w != v)
        ok_doc = any(from_docs(v) for v in cvars)
        rep.check(ok_name, 'R16.2', 'field-template|name', '%s:%s' % (f, n.get('line')), 'a field is described under the string of its (unraw\'d) identifier',
                  'the field-description template does not use the identifier string of the field as it is (source: %s%s)' % (name_src, '; the string is edited afterwards' if edits else ''))
        rep.check(ok_ty, 'R16.2', 'field-template|type', '%s:%s' % (f, n.get('line')), 'the type slot is <FieldTy as Type>::TYPE after lifetime erasure',
                  'the field-description template does not describe the field type as `<FieldTy as Type>::TYPE` of the declared type')
        rep.check(ok_doc, 'R16.2', 'field-template|comments', '%s:%s' % (f, n.get('line')), 'doc comments of the field become its comments', 'doc comments are not carried into the field description')
    else:
        rep.bad('R16.2', 'field-template|anchor', M, 'no template building idl::Field::new(name, <Ty as Type>::TYPE, comments) found in the introspection derives')
    # order preservation in every generator that walks fields / variants
    n_gen = 0
    for f, n, impl in fns:
        loops = [x for x in A.nodes(n['body']) if x.get('k') == 'for' and re.search(r'variants|named|unnamed|fields', re.sub(r'\s', '', x.get('iter') or ''))]
        chains = [x for x in A.nodes(n['body']) if x.get('k') == 'mcall' and x.get('method') == 'collect' and re.search(r'variants|named|unnamed|fields', A.text(x))]
        if not loops and not chains:
            continue
        n_gen += 1
        bad = []
        for lp in loops:
            cond_lists = set()
            for x, path in A.nodes_with_path(lp.get('body')):
                if x.get('k') == 'mcall' and x.get('method') == 'push':
                    # is this push inside a branch (match arm / if) of the loop body?  parallel lists filled on the same path are fine
                    branchy = any(p.get('k') in ('match', 'if') for p in path)
                    if branchy:
                        cond_lists.add(A.text(x.get('recv')))
            if len(cond_lists) > 1:
                bad.append('members are distributed over %d different lists %s depending on their kind, so their relative declaration order is lost' % (len(cond_lists), sorted(cond_lists)))
            breakers = [it for it in A.method_chain(lp.get('iter_node') or {})[1] if it in ORDER_BREAKERS] if lp.get('iter_node') else \
                [w for w in ORDER_BREAKERS if re.search(r'\.%s\(' % w, re.sub(r'\s', '', lp.get('iter') or ''))]
            if breakers:
                bad.append('the declaration is iterated through %s' % breakers)
        accs = set()
        for lp in loops:
            for x in A.nodes(lp.get('body')):
                if x.get('k') == 'mcall' and x.get('method') == 'push':
                    accs.add(A.text(x.get('recv')))
        for x in A.nodes(n['body']):
            if x.get('k') == 'mcall' and x.get('method') in ORDER_BREAKERS and A.text(x.get('recv')) in accs:
                bad.append('%s.%s(..)' % (A.text(x.get('recv')), x.get('method')))
        # members must not pass through a keyed container: equal keys collapse into one entry and the order becomes the key order
        keyed = []
        for x in A.nodes(n['body']):
            if x.get('k') == 'mcall' and x.get('method') in KEYED_METHODS:
                keyed.append('.%s(..)' % x.get('method'))
            if x.get('k') in ('call', 'path'):
                txt = re.sub(r'\s', '', (x.get('func') if isinstance(x.get('func'), str) else '') or x.get('text') or '')
                mm = re.match(r'(?:\w+::)*(BTreeMap|HashMap|BTreeSet|HashSet|IndexMap|IndexSet)(?:::<.*>)?::', txt)
                if mm:
                    keyed.append(mm.group(1))
        if keyed:
            bad.append('described members pass through a keyed / de-duplicating container (%s): members with equal keys collapse into one description and the order becomes the key order' % ', '.join(sorted(set(keyed))))
        for ch in chains:
            root, names = A.method_chain(ch)
            br = [m_ for m_ in names if m_ in ORDER_BREAKERS - {'filter'}]
            if br:
                bad.append('iterator chain uses %s' % br)
        rep.check(not bad, 'R16.2', 'declaration-order|%s|%s' % (f.split('/')[-1], n['name']), '%s:%s' % (f, n.get('line')),
                  'fields / variants are emitted in declaration order into one list',
                  'the described members are not emitted in declaration order: %s' % '; '.join(bad))
        # R16.7 every declared member is described: the walk over the declaration neither skips nor stops
        dropped = []
        for lp in loops:
            for x, path in A.nodes_with_path(lp.get('body')):
                if x.get('k') in ('continue', 'break') and not any(p.get('k') in ('for', 'while', 'loop', 'closure') for p in path):
                    dropped.append('`%s` at line %s in the loop over %s' % (x.get('k'), x.get('line', '?'), re.sub(r'\s', '', lp.get('iter') or '')[:40]))
            names = A.method_chain(lp.get('iter_node') or {})[1] if lp.get('iter_node') else \
                [w for w in MEMBER_DROPPERS if re.search(r'\.%s\(' % w, re.sub(r'\s', '', lp.get('iter') or ''))]
            for w in names:
                if w in MEMBER_DROPPERS:
                    dropped.append('.%s(..) on the loop over %s' % (w, re.sub(r'\s', '', lp.get('iter') or '')[:40]))
        for ch in chains:
            root, names = A.method_chain(ch)
            for w in names:
                if w in MEMBER_DROPPERS:
                    dropped.append('.%s(..) in the iterator chain at line %s' % (w, ch.get('line', '?')))
        rep.check(not dropped, 'R16.7', 'every-member-described|%s|%s' % (f.split('/')[-1], n['name']), '%s:%s' % (f, n.get('line')),
                  'the walk over the declared fields / variants neither skips nor stops early',
                  'a declared member can be left out of the description: %s' % '; '.join(dropped))
    if n_gen < 3:
        rep.bad('R16.2', 'declaration-order|floor', M, 'expected at least 3 generators walking fields / variants, found %d' % n_gen)


MEMBER_DROPPERS = {'filter', 'filter_map', 'skip', 'skip_while', 'take', 'take_while', 'step_by', 'find', 'find_map', 'nth', 'last', 'flat_map'}


def check(fx, rep, tier):
    rep.rule('R16.7', 'every declared field / variant is described: the generators\' walks over the declaration neither skip (`continue`, filter, skip, take ..) nor stop early')
    rep.rule('R16.1', 'every impl of introspect::Type builds the IDL constructor the statement prescribes for its Rust type (table), composite impls describe their own parameter')
    rep.rule('R16.2', 'derive templates: name = identifier string, type = <FieldTy as Type>::TYPE, doc comments carried, members emitted in declaration order into one list')
    rep.rule('R16.3', 'rendering / parsing of assembled interfaces: rules of C14')
    for cfg in ['full']:
        check_impls(fx, rep, fx.crate('zlink_core', cfg), cfg)
    check_templates(fx, rep)
    import engine, c14
    sub = engine.Report('C14', 'quick')
    c14.check(fx, sub, 'quick')
    kf = engine.load_known()
    known = {e['key'] for e in kf.get('findings', []) if e['property'] == 'C14'}
    for i in sub.insts:
        if not i.ok and i.full_key() in known:
            rep.ok('R16.3', i.rule + '|' + i.key, i.where, 'known finding of C14 (reported there): ' + i.msg[:120], nontrivial=False)
        else:
            (rep.ok if i.ok else rep.bad)('R16.3', i.rule + '|' + i.key, i.where, i.msg, i.detail)
    # R16.4 doc comments: every #[doc] attribute of the item is collected
    rep.rule('R16.4', 'doc comments become comments: the function that collects #[doc] attributes visits every attribute of the item (a filter over all of them) - no '
                      'take_while / skip_while / find / early exit that would drop doc lines standing after another attribute')
    rep.rule('R16.8', 'doc comments enter the description in the form that renders and parses back unchanged: leading blanks of the doc line are stripped (the parser skips them after `#`)')
    n4 = 0
    for fn, n, impl in A.all_fns(fx.tpl, 'zlink-macros/src'):
        body_nodes = list(A.nodes(n.get('body') or []))
        # private helpers of the same file that the collector hands the text to (`push_doc_lines(&mut out, lit.value())`) are part of it
        same_file = {it2['name']: it2 for fn2, it2, im2 in A.all_fns(fx.tpl, 'zlink-macros/src') if fn2 == fn and it2 is not n}
        called = {re.sub(r'.*::', '', (x.get('func') if isinstance(x.get('func'), str) else A.text(x.get('func')) or '')).strip() for x in body_nodes if x.get('k') == 'call'}
        called |= {re.sub(r'.*::', '', A.text(a)).strip() for x in body_nodes if x.get('k') == 'mcall' for a in (x.get('args') or []) if isinstance(a, dict) and a.get('k') == 'path'}
        helper_nodes = []
        for nm_ in called:
            if nm_ in same_file:
                helper_nodes += list(A.nodes(same_file[nm_].get('body') or []))
        is_doc = any(x.get('k') == 'mcall' and x.get('method') == 'is_ident' and any(a.get('k') == 'str' and a.get('value') == 'doc' for a in x.get('args') or []) for x in body_nodes)
        if not is_doc or 'Attribute' not in (n.get('sig') or ''):
            continue
        n4 += 1
        partial = sorted({x.get('method') for x in body_nodes if x.get('k') == 'mcall' and x.get('method') in
                          ('take_while', 'skip_while', 'map_while', 'find', 'find_map', 'position', 'take', 'skip', 'nth', 'first', 'last', 'next', 'step_by', 'split_first', 'split_last')})
        exits = [x for x in body_nodes if x.get('k') in ('break',)]
        loops_with_return = [x for x in body_nodes if x.get('k') in ('for', 'while', 'loop') and any(y.get('k') == 'return' for y in A.nodes(x.get('body') or []))]
        rep.check(not partial and not exits and not loops_with_return, 'R16.4', '%s|collects-every-doc-attribute' % n['name'], '%s:%s' % (fn, n.get('line')),
                  '%s looks at every attribute and keeps those named `doc`' % n['name'],
                  '%s does not visit every attribute of the item (%s): doc lines that stand after another attribute (`/// a`, `#[serde(..)]`, `/// b`) are dropped from the description'
                  % (n['name'], ', '.join(partial) or 'early exit from the loop'))
        # one comment per #[doc] attribute, text unchanged: the literal's value is pushed as it is - no splitting / filtering of its text (an empty doc line is
        # a comment line too, `.lines()` of an empty string yields nothing)
        vals = set()
        for x in body_nodes:
            if x.get('k') == 'let' and isinstance(x.get('init'), dict) and any(y.get('k') == 'mcall' and y.get('method') == 'value' for y in A.nodes(x['init'])):
                vals.add((x.get('pat') or '').replace('mut ', '').strip())
        RESHAPE = ('lines', 'split', 'splitn', 'rsplit', 'split_whitespace', 'split_terminator', 'split_once', 'chars', 'char_indices', 'bytes', 'filter', 'is_empty',
                   'retain', 'strip_prefix', 'strip_suffix', 'trim_matches', 'trim_start_matches', 'trim_end_matches', 'replace', 'get', 'find', 'truncate', 'pop', 'len')
        reshaped = []
        for x in helper_nodes:
            if x.get('k') == 'mcall' and x.get('method') in ('lines', 'split', 'splitn', 'split_terminator', 'split_whitespace', 'filter', 'retain', 'replace', 'truncate'):
                reshaped.append('%s() in a helper, line %s' % (x.get('method'), x.get('line')))
        for x in body_nodes:
            if x.get('k') == 'mcall' and x.get('method') in RESHAPE:
                rn = list(A.nodes(x.get('recv')))
                if any(y.get('k') == 'mcall' and y.get('method') == 'value' for y in rn) or any(y.get('k') == 'path' and (y.get('text') or '').strip() in vals for y in rn):
                    reshaped.append('%s() at line %s' % (x.get('method'), x.get('line')))
        rep.check(not reshaped, 'R16.4', '%s|doc-text-unchanged' % n['name'], '%s:%s' % (fn, n.get('line')),
                  '%s keeps the text of every doc attribute as one comment' % n['name'],
                  '%s splits, filters or rewrites the text of a doc attribute (%s): a doc line can vanish or change on the way into the description (an empty `///` line '
                  'is a comment line of its own)' % (n['name'], ', '.join(reshaped)))
        # R16.8 the text enters the description in the form that parses back: the parser drops every blank between `#` and the text, and rustdoc
        # hands `/// text` over as " text" - so the collected text must have its leading blanks stripped before it becomes a Comment
        STRIP = re.compile(r'\.\s*(trim|trim_start|trim_ascii|trim_ascii_start|trim_start_matches)\s*\(')
        lets = {}
        for x in body_nodes:
            if x.get('k') == 'let' and isinstance(x.get('init'), dict):
                lets[(x.get('pat') or '').replace('mut ', '').strip()] = A.text(x['init'])
        pushes = [x for x in body_nodes if x.get('k') == 'mcall' and x.get('method') in ('push', 'push_back', 'extend', 'insert')]
        maps = [x for x in body_nodes if x.get('k') == 'mcall' and x.get('method') in ('map', 'filter_map', 'flat_map') and 'value' in A.text(x)]
        unstripped = []
        for x in pushes + maps:
            txt = ' '.join(A.text(a) for a in x.get('args') or [])
            if 'value' not in txt and not any(re.search(r'\b%s\b' % re.escape(v), txt) for v in lets):
                continue
            srcs = [txt] + [lets[v] for v in lets if re.search(r'\b%s\b' % re.escape(v), txt)]
            if not any(STRIP.search(t) for t in srcs):
                unstripped.append('%s(..) at line %s' % (x.get('method'), x.get('line')))
        rep.check(not unstripped, 'R16.8', '%s|doc-text-without-leading-blanks' % n['name'], '%s:%s' % (fn, n.get('line')),
                  '%s strips the leading blanks of a doc line before it becomes a comment (`/// text` is the attribute " text"; the IDL parser reads `#  text` back as "text")' % n['name'],
                  '%s keeps the leading blank rustdoc puts in front of every `/// text` line (%s): the derived description carries " text", Display writes `#  text`, '
                  'and the parser - which skips all blanks after `#` - reads back "text": a description derived from an ordinarily documented type is not equal to '
                  'its own rendered-and-parsed form' % (n['name'], ', '.join(unstripped)))
    if not n4:
        rep.bad('R16.4', 'anchor', 'zlink-macros/src', 'no function collecting #[doc] attributes found')
    # R16.5 lifetimes: the derive names each field type inside a `static`, where the item's lifetime parameters are not in scope; the stripper that
    # erases them must reach every place of a syn::Type where a lifetime can stand
    rep.rule('R16.5', 'lifetimes: the function that erases lifetimes from a field type before it is named in the description recurses into every syn::Type '
                      'constructor that contains a type (Reference, Path, Tuple, Array, Slice, Ptr, Group, Paren)')
    import re as _re
    fns = {n['name']: (fn, n) for fn, n, impl in A.all_fns(fx.tpl, 'zlink-macros/src')}

    def type_arms(n):
        out = []
        for x in A.nodes(n.get('body') or []):
            if x.get('k') == 'match':
                for arm in x.get('arms') or []:
                    vs = _re.findall(r'\bType\s*::\s*(\w+)', arm.get('pat') or '')
                    if vs:
                        out.append((vs, arm))
        return out

    def erases(n):
        for x in A.nodes(n.get('body') or []):
            if x.get('k') == 'struct' and any(f.get('name') == 'lifetime' and A.text(f.get('value')).strip() == 'None' for f in x.get('fields') or []):
                return True
            if x.get('k') == 'assign' and A.text(x.get('l')).strip().endswith('.lifetime') and A.text(x.get('r')).strip() == 'None':
                return True
        return False
    roots = [name for name, (fn, n) in fns.items() if erases(n) and any('Reference' in vs for vs, _ in type_arms(n))]
    n5 = 0
    for root in roots:
        fam = {root}
        work = [root]
        while work:
            cur = work.pop()
            for x in A.nodes(fns[cur][1].get('body') or []):
                cal = None
                if x.get('k') == 'call' and isinstance(x.get('func'), str):
                    cal = x['func'].split('::')[-1]
                elif x.get('k') == 'path':
                    cal = (x.get('text') or '').split('::')[-1]
                if cal in fns and cal not in fam and type_arms(fns[cal][1]):
                    fam.add(cal)
                    work.append(cal)
        # callers that only wrap the stripper (clone + in-place walk) belong to the family too
        for name, (fn, n) in fns.items():
            if name not in fam and any(x.get('k') == 'call' and isinstance(x.get('func'), str) and x['func'].split('::')[-1] in fam for x in A.nodes(n.get('body') or [])) \
                    and 'Type' in (n.get('sig') or '') and len(list(A.nodes(n.get('body') or []))) < 40:
                fam.add(name)
        seen = {}
        for name in sorted(fam):
            for vs, arm in type_arms(fns[name][1]):
                rec = any((x.get('k') == 'call' and isinstance(x.get('func'), str) and x['func'].split('::')[-1] in fam) or
                          (x.get('k') == 'path' and (x.get('text') or '').split('::')[-1] in fam) for x in A.nodes(arm.get('body')))
                for v in vs:
                    seen[v] = seen.get(v, False) or rec
        need = ['Reference', 'Path', 'Tuple', 'Array', 'Slice', 'Ptr', 'Group', 'Paren']
        missing = [v for v in need if v not in seen]
        shallow = [v for v in need if v in seen and not seen[v]]
        n5 += 1
        fn0, nn = fns[root]
        rep.check(not missing and not shallow, 'R16.5', '%s|visits-every-type-constructor' % root, '%s:%s' % (fn0, nn.get('line')),
                  '%s (with %s) handles and recurses into %s' % (root, ', '.join(sorted(fam - {root})) or 'no helper', ', '.join(need)),
                  'the lifetime stripper %s does not reach every place a lifetime can stand: %s%s - a field of such a type (e.g. `&\'a [&\'a str]`) keeps its lifetime and the '
                  'derived description does not compile / is not produced' % (root, ('no arm for Type::' + ', Type::'.join(missing)) if missing else '',
                                                                             ('; no recursion in the arm of Type::' + ', Type::'.join(shallow)) if shallow else ''),
                  {'arms': sorted(seen), 'family': sorted(fam)})
    if not n5:
        rep.bad('R16.5', 'anchor', 'zlink-macros/src', 'no function erasing lifetimes from a syn::Type found')
    # R16.6 doc comments reach the description for every shape: the comment objects are `&Comment::new("..")` - calls of a const fn behind a reference.
    # The derive output is evaluated in a const context (`const VARIANTS`, `static FIELD_..`), where such a temporary lives for 'static only by
    # promotion, and a const fn call is promoted only in code that is certain to run (RFC 3027): not inside a `match` arm, an `if` / `else` branch or
    # a loop body.  A template that interpolates the comment list there compiles as long as the list is empty and fails (E0716) for the first item
    # that carries a doc comment.
    rep.rule('R16.6', 'doc comments of every shape: in the introspection derive templates the list of comment objects (`&Comment::new(..)`, promoted constants) '
                      'is interpolated only where promotion applies - not inside a match arm, an if / else branch or a loop body of the generated const expression')
    n6 = 0
    for fn, n, impl in A.all_fns(fx.tpl, 'zlink-macros/src/introspect'):
        for m in A.macros(n):
            toks = _re.findall(r"[A-Za-z_][A-Za-z0-9_]*|=>|::|\S", m.get('tokens') or '')
            if not any(t.endswith('comment_objects') for t in toks):
                continue
            stack = []          # (conditional?, keyword)
            last_kw = None
            window = []
            bad = None
            for i, t in enumerate(toks):
                if t in ('match', 'if', 'else', 'while', 'for', 'loop'):
                    window.append(t)
                elif t == '=>':
                    window.append('=>')
                elif t in (';', ','):
                    window = [w for w in window if w == 'match'] if False else []
                elif t == '{':
                    kw = window[-1] if window else None
                    inside_match = bool(stack) and stack[-1][1] == 'match'
                    stack.append((kw in ('match', 'if', 'else', 'while', 'for', 'loop', '=>') or inside_match, kw))
                    window = []
                elif t == '}':
                    if stack:
                        stack.pop()
                    window = []
                elif t.endswith('comment_objects'):
                    n6 += 1
                    cond = [kw or 'arm' for c, kw in stack if c]
                    # a match arm without braces: `pat => expr` directly inside the match body
                    if not cond and stack and stack[-1][1] == 'match':
                        cond = ['match arm']
                    if cond and bad is None:
                        bad = cond
            key = '%s|%s|comments-where-promotion-applies' % (n['name'], (m.get('tokens') or '')[:60].replace('|', '/'))
            rep.check(bad is None, 'R16.6', key, '%s:%s' % (fn, m.get('line')),
                      'the comment list of this template stands in unconditionally evaluated code of the generated constant',
                      'this template interpolates the comment objects inside conditionally executed code (%s) of the generated constant: `&Comment::new(..)` is not '
                      'promoted there, so the derive output fails to compile (E0716) for exactly the items that carry a doc comment - hoist the list into a `static` / '
                      '`const` item of the generated block, as the sibling templates do with FIELD_REFS' % ', '.join(bad or []))
    rep.floor('R16.6', 5, 'templates interpolating comment objects (struct, enum, field, variant, error variants)')
    return META
