"""Re-evaluation of another property's rules as a premise of this one (same rule code, instances re-keyed)."""
import engine


def cancel_safety(fx, rep, rule_id, why):
    """C07's R07.1-R07.3 (receive path is cancel-safe) as rule `rule_id` of the importing property"""
    import c07
    sub = engine.Report('C07', 'quick')
    c07.check(fx, sub, 'quick')
    n = 0
    for i in sub.insts:
        if i.rule in ('R07.1', 'R07.2', 'R07.3'):
            n += 1
            (rep.ok if i.ok else rep.bad)(rule_id, i.rule + '|' + i.key, i.where, i.msg if i.ok else i.msg + ' - ' + why, i.detail)
    for rule, (fl, what) in sub.floors.items():
        if rule in ('R07.1', 'R07.2', 'R07.3') and sub.count(rule) < fl:
            rep.bad(rule_id, 'floor|' + rule, '-', 'anchor lost in the imported cancel-safety rule %s: expected %d %s' % (rule, fl, what))
    if not n:
        rep.bad(rule_id, 'anchor', '-', 'cancel-safety instances not found')
    return n
