"""Re-evaluation of another property's rules as a premise of this one (same rule code, instances re-keyed)."""
import engine


def cancel_safety(fx, rep, rule_id, why):
    """C07's R07.1-R07.3 (receive path is cancel-safe) as rule `rule_id` of the importing property"""
    import c07
    sub = engine.Report('C07', 'quick')
    c07.check(fx, sub, 'quick')
    n = 0
    for i in sub.insts:
        if i.rule in ('R07.1', 'R07.2', 'R07.3'):
            n += 1
            (rep.ok if i.ok else rep.bad)(rule_id, i.rule + '|' + i.key, i.where, i.msg if i.ok else i.msg + ' - ' + why, i.detail)
    for rule, (fl, what) in sub.floors.items():
        if rule in ('R07.1', 'R07.2', 'R07.3') and sub.count(rule) < fl:
            rep.bad(rule_id, 'floor|' + rule, '-', 'anchor lost in the imported cancel-safety rule %s: expected %d %s' % (rule, fl, what))
    if not n:
        rep.bad(rule_id, 'anchor', '-', 'cancel-safety instances not found')
    return n


_SUB_CACHE = {}
_IN_PROGRESS = set()


def rules_of(fx, rep, pid, rules, rule_id, why, tier='quick'):
    """rules `rules` of property `pid` as rule `rule_id` of the importing property (instances re-keyed; known findings of the exporting
    property stay its own and are not repeated here)"""
    import importlib
    mod = importlib.import_module(pid.lower())
    ck = (id(fx), pid)
    if ck in _IN_PROGRESS:
        return 0        # mutual import: the outer evaluation of `pid` is the one that counts
    if ck not in _SUB_CACHE:
        sub = engine.Report(pid, tier)
        _IN_PROGRESS.add(ck)
        try:
            mod.check(fx, sub, tier)
        finally:
            _IN_PROGRESS.discard(ck)
        _SUB_CACHE[ck] = sub
    sub = _SUB_CACHE[ck]
    kf = engine.load_known()
    known = {e['key'] for e in kf.get('findings', []) if e['property'] == pid}
    n = 0
    if isinstance(rules, str):
        prefix = rules
        rules = {i.rule for i in sub.insts if i.rule.startswith(prefix)} | {r for r in sub.floors if r.startswith(prefix)}
    for i in sub.insts:
        if i.rule in rules:
            n += 1
            if not i.ok and i.full_key() in known:
                rep.ok(rule_id, i.rule + '|' + i.key, i.where, 'known finding of %s (reported there): %s' % (pid, i.msg[:120]), nontrivial=False)
            else:
                (rep.ok if i.ok else rep.bad)(rule_id, i.rule + '|' + i.key, i.where, i.msg if i.ok else i.msg + ' - ' + why, i.detail)
    for rule, (fl, what) in sub.floors.items():
        if rule in rules and sub.count(rule) < fl:
            rep.bad(rule_id, 'floor|' + rule, '-', 'anchor lost in the imported rule %s of %s: expected %d %s' % (rule, pid, fl, what))
    if not n:
        rep.bad(rule_id, 'anchor', '-', 'no instance of the imported rules %s of %s' % (sorted(rules), pid))
    return n


# ---- layering: a property whose behaviour passes through another layer of the library depends on that layer's structural clauses.
# (importing property) -> [(exporting property, rules (set or id prefix), rule id here, why the dependence is real)]
LAYERS = {
    'C01': [('C19', {'R19.9'}, 'R01.9', 'the receive path hands `buffer[read cursor..]` to ReadHalf::read and advances the cursor by the count it gets back: frames are recovered for every '
             'partition only if the transport delivers the socket\'s bytes in order, once, and keeps none of them to itself')],
    'C07': [('C19', {'R19.9'}, 'R07.6', 'cancel-safety of a receive is argued for the connection\'s own cursors: bytes a transport has taken from the socket into a buffer or a local of its read '
             'future are lost (or re-ordered) when the receive is dropped')],
    'C02': [('C19', {'R19.2'}, 'R02.10', 'a flush hands &buffer[..pos] to WriteHalf::write once: exactly those bytes reach the peer only if the transport writes every byte '
             'of the slice exactly once (a fast path that ignores a partial count truncates a frame and glues it to the next)')],
    'C06': [('C05', {'R05.9'}, 'R06.10', 'the chain counts a reply as owed exactly when `call.oneway()` is false, and the wire carries the flag from the field: an accessor that answers '
             'something else than the stored flag makes the count disagree with what the peer was told'),
            ('C02', 'R02.', 'R06.9', 'the calls of a chain are put on the wire by WriteConnection::enqueue, one document and one NUL each, and by one flush: a chain that dies in '
             'enqueue (a terminator stored past the buffer end) or leaves calls queued has sent other calls than its accounting says'),
            ('C19', {'R19.2'}, 'R06.7', 'the calls of a chain reach the peer through one WriteHalf::write of the whole batch: a transport that re-sends a prefix after a partial '
             'write makes the peer see other calls than were enqueued, and the replies no longer match the chain\'s accounting')],
    'C03': [('C19', {'R19.2'}, 'E9', 'the bytes of a frame reach the peer through WriteHalf::write: a transport that hands a prefix to the kernel twice emits other bytes than the encoding')],
    'C14': [('C16', {'R16.8'}, 'R14.16', 'descriptions produced by the derive macros are in C14\'s domain: their comment texts must be in the form the renderer and the parser agree on'),
            ('C03', {'E1', 'E2', 'E2b', 'E6'}, 'R14.12', 'GetInterfaceDescription carries the rendered text as a JSON string through the built-in serializer: an escaping or '
             'streaming defect there changes the text the client parses')],
    'C15': [('C12', {'R12.1b'}, 'R15.8', 'the renames the code generator writes as `#[zlink(rename = ..)]` reach the wire only if every proxy generator still sees them: a generator that strips '
             'the attributes from the shared signature leaves its successors with the Rust spelling'),
            ('C03', {'E1', 'E2', 'E2b', 'E3', 'E4', 'E5'}, 'R15.6', 'the values generated code sends are encoded by the built-in serializer: declared strings / numbers / keys must arrive as such')],
    'C17': [('C19', {'R19.9'}, 'R17.7', 'the limit bounds the connection\'s buffer: a transport with a read-ahead buffer of its own can drain an unterminated stream into memory the limit never sees'),
            ('C03', {'E6'}, 'R17.6', 'the only signal that makes the write buffer grow is BufferTooSmall from the slice writer: raised early (an over-estimate) it grows the buffer '
             'past what the message needs and refuses messages below the limit')],
    'C04': [('C01', 'R01.', 'R04.6', 'a reply is classified from the bytes handed to the decoder: only if these are exactly one frame is an error frame seen as an error frame'),
            ('C07', {'R07.1', 'R07.2', 'R07.3'}, 'R04.7', 'a receive_reply abandoned by a timeout / select and retried must decode the whole frame: with read progress held in the '
             'abandoned future the retry decodes a fragment, and a declared error comes back as a decode failure instead of the method\'s error')],
    'C05': [('C04', 'R04.', 'R05.8', 'a reply is decoded only through the classification in receive_reply: a second decode path, or a changed attempt order, makes legal '
             'success / error replies undecodable or misread, whatever the member order')],
    'C08': [('C19', {'R19.10'}, 'R08.14', 'a client whose connection was accepted by the kernel and then dropped inside a cancelled accept future is hung up on: its calls are never answered'),
            ('C01', 'R01.', 'R08.9', 'a call the server cannot frame exactly is answered zero or two times, or the next call is answered with its reply'),
            ('C02', 'R02.', 'R08.10', 'a reply that is not one document plus one NUL (or stays queued) is not "exactly one reply" for the client'),
            ('C05', {'R05.1', 'R05.2', 'R05.3', 'R05.9'}, 'R08.11', 'the server decides "no reply" from the decoded oneway flag: a flag lost or mixed up in the call envelope makes it answer a oneway call or stay silent on a normal one'),
            ('C09', {'R09.2', 'R09.2b', 'R09.2c'}, 'R08.12', 'every call of a connection is answered only while the connection stays in the server\'s lists: a cleanup that removes another entry than the failing one '
             '(wrong list, wrong index) silences a healthy connection - its later calls get no reply'),
            ('C10', {'R10.1a', 'R10.1b', 'R10.1c', 'R10.2'}, 'R08.13', 'a connection parked with its stream must come back to the call list when the stream ends, and items go to the connection of their own entry: '
             'otherwise later calls are never answered, or a client receives replies to calls it did not make')],
    'C09': [('C01', 'R01.', 'R09.7', 'a framing defect on the receive path turns one malformed or fragmented frame into lost or misattributed calls of that and later exchanges'),
            ('C02', 'R02.', 'R09.8', 'the handler awaits the send of every reply: a flush that loops, or leaves bytes queued, stalls the loop for every connection'),
            ('C18', {'R18.2'}, 'R09.9', 'a completed receive that the select drops is a call that is never answered on a healthy connection'),
            ('C20', {'R20.8', 'R20.9'}, 'R09.12', 'a service built on the notified State calls State::set from inside Service::handle, i.e. inside Server::run: a set() that panics when the last subscriber '
             'is gone (exactly what a dropped, unwritable subscription leaves behind) takes the server down for every connection'),
            ('C17', {'R17.1', 'R17.2', 'R17.3'}, 'R09.10', 'an oversized frame must end in BufferOverflow for that connection only, not in unbounded growth of the server process')],
    'C10': [('C01', 'R01.', 'R10.6', 'calls pipelined behind a streaming call are in the receive buffer: they are served in order only if framing is exact'),
            ('C02', 'R02.', 'R10.7', 'every stream item is one framed reply that is flushed when sent: an item left in the write buffer is not delivered while the stream is open'),
            ('C18', {'R18.2'}, 'R10.8', 'two streams ready in the same poll: the select must hand out one item and keep the other future pending, not drop its output'),
            ('C18', {'R18.3', 'R18.4'}, 'R10.11', 'the index the select hands back is used to pick the entry (`reply_streams[idx]`, `connections[idx]`): it names the entry that yielded the '
             'item only if the futures were handed to the select in list order and nothing reorders the list in between - otherwise an item, an end of stream or a write failure '
             'lands on another client\'s connection'),
            ('C08', {'R08.6'}, 'R10.10', 'the calls a client pipelined in front of a streaming call are answered before the connection is parked with its stream: a reply that the '
             'handler only enqueued stays in the write buffer for as long as the stream is silent'),
            ('C20', {'R20.10', 'R20.2', 'R20.4'}, 'R10.13', 'the items a service streams usually come from the notified State: they reach the subscriber only if a value set while the server is parked '
             'wakes the server - a reply stream that leaves no waker registered (or drops / never takes its subscription) delivers nothing until an unrelated event turns the loop'),
            ('C08', {'R08.1', 'R08.2'}, 'R10.12', 'a connection is parked with a stream only for a call that is owed replies: a oneway call answered with a stream would put items on the wire '
             'that the client does not wait for, ahead of the replies to the calls pipelined behind it')],
    'C12': [('C02', 'R02.', 'R12.12', 'every generated method hands its call to enqueue / send_call: one document, one NUL, also for the second call of a chain'),
            ('C04', 'R04.', 'R12.10', 'generated methods map replies "exactly as the low-level receive classifies them"'),
            ('C06', {'R06.1', 'R06.2', 'R06.3', 'R06.4', 'R06.5'}, 'R12.11', 'chain forms and streaming methods are built on Chain / ReplyStream: one item per owed reply up to the final one')],
    'C18': [('C01', {'R01.2', 'R01.3', 'R01.4', 'R01.6', 'R01.7', 'R01.9'}, 'R18.6', 'fairness presupposes that a complete call in the socket is recognised as complete by the receive path: '
             'a read loop that keeps reading (or stops early) leaves a waiting client unserved while others are'),
            ('C07', {'R07.1', 'R07.2', 'R07.3'}, 'R18.7', 'the select drops the losers\' receive futures on every turn: without cancel-safety a waiting call is corrupted instead of served next')],
    'C19': [('C07', {'R07.1', 'R07.2', 'R07.3', 'R07.4', 'R07.5'}, 'R19.7', 'a receive abandoned by a timeout / select and restarted later must lose nothing of a large message that arrives in several bursts')],
}


def layer(fx, rep, pid):
    n = 0
    for src, rules, rid, why in LAYERS.get(pid, []):
        rep.rule(rid, 'structural clauses of %s this property depends on (%s): %s' % (src, rules if isinstance(rules, str) else ', '.join(sorted(rules)), why))
        n += rules_of(fx, rep, src, rules, rid, why)
    return n
