"""Re-evaluation of another property's rules as a premise of this one (same rule code, instances re-keyed)."""
import engine


def cancel_safety(fx, rep, rule_id, why):
    """C07's R07.1-R07.3 (receive path is cancel-safe) as rule `rule_id` of the importing property"""
    import c07
    sub = engine.Report('C07', 'quick')
    c07.check(fx, sub, 'quick')
    n = 0
    for i in sub.insts:
        if i.rule in ('R07.1', 'R07.2', 'R07.3'):
            n += 1
            (rep.ok if i.ok else rep.bad)(rule_id, i.rule + '|' + i.key, i.where, i.msg if i.ok else i.msg + ' - ' + why, i.detail)
    for rule, (fl, what) in sub.floors.items():
        if rule in ('R07.1', 'R07.2', 'R07.3') and sub.count(rule) < fl:
            rep.bad(rule_id, 'floor|' + rule, '-', 'anchor lost in the imported cancel-safety rule %s: expected %d %s' % (rule, fl, what))
    if not n:
        rep.bad(rule_id, 'anchor', '-', 'cancel-safety instances not found')
    return n


_SUB_CACHE = {}
_IN_PROGRESS = set()


def rules_of(fx, rep, pid, rules, rule_id, why, tier='quick'):
    """rules `rules` of property `pid` as rule `rule_id` of the importing property (instances re-keyed; known findings of the exporting
    property stay its own and are not repeated here)"""
    import importlib
    mod = importlib.import_module(pid.lower())
    ck = (id(fx), pid)
    if ck in _IN_PROGRESS:
        return 0        # mutual import: the outer evaluation of `pid` is the one that counts
    if ck not in _SUB_CACHE:
        sub = engine.Report(pid, tier)
        _IN_PROGRESS.add(ck)
        try:
            mod.check(fx, sub, tier)
        finally:
            _IN_PROGRESS.discard(ck)
        _SUB_CACHE[ck] = sub
    sub = _SUB_CACHE[ck]
    kf = engine.load_known()
    known = {e['key'] for e in kf.get('findings', []) if e['property'] == pid}
    n = 0
    for i in sub.insts:
        if i.rule in rules:
            n += 1
            if not i.ok and i.full_key() in known:
                rep.ok(rule_id, i.rule + '|' + i.key, i.where, 'known finding of %s (reported there): %s' % (pid, i.msg[:120]), nontrivial=False)
            else:
                (rep.ok if i.ok else rep.bad)(rule_id, i.rule + '|' + i.key, i.where, i.msg if i.ok else i.msg + ' - ' + why, i.detail)
    for rule, (fl, what) in sub.floors.items():
        if rule in rules and sub.count(rule) < fl:
            rep.bad(rule_id, 'floor|' + rule, '-', 'anchor lost in the imported rule %s of %s: expected %d %s' % (rule, pid, fl, what))
    if not n:
        rep.bad(rule_id, 'anchor', '-', 'no instance of the imported rules %s of %s' % (sorted(rules), pid))
    return n
