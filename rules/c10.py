"""C10 - streaming replies are delivered in order and the connection resumes afterwards (R10.1 - R10.5)."""
import mir
from mir import op_place, op_str, place_is_local
import common as C
import srv
import pathsens as PS

META = {
    'level': 'other',
    'explanation': (
        'Ownership-flow and path-sensitive must-pass-through rules over the MIR of Server::run (flag variables followed by '
        'constant propagation): (R10.1a) whenever the handler returns a stream, every feasible path to the next iteration '
        'removes the calling connection from the call list with its own select index and pushes ReplyStream::new(that stream, '
        'that very connection) onto the stream list; (R10.1b) when a stream ends (item None) every path removes that entry '
        'from the stream list and pushes its connection back onto the call list; (R10.1c) delivering an item without error '
        'removes nothing and re-registers nothing (the stream stays open); a failed item send removes exactly that '
        'subscription (rule code shared with R09.2/R09.2b); (R10.2) the reply handed to send_reply is the item the stream '
        'select yielded, unchanged, it is written to the write half of the entry the select index names, and the send is '
        'awaited in the loop body (items of one stream go out in order); (R10.3) frames already buffered are served before '
        'the transport is read again (R01.2a, same rule code as C01); (R10.4) the receive path is cancel-safe (R07.1-R07.3, '
        'same rule code as C07) - the loop drops every pending receive future whenever a stream yields; (R10.5) the futures '
        'polled for items are `next()` on each entry\'s own stream. Not decided: global order under every interleaving.'),
    'assumptions': ['Stream::next futures of the service\'s stream type may be dropped and re-created without losing items (Stream contract)',
                    'ownership moves make "a connection is in exactly one list" a type fact'],
}


def slice_calls(body, op):
    q = op_place(op)
    if not q:
        return []
    locs, events = body.slice_back([q['l']])
    return [e[2] for e in events if e[0] == 'call']


def ref_target_local(body, q, depth=6):
    """local a reference operand points to, through `&x`, `&*r` reborrows and copies"""
    for _ in range(depth):
        if q.get('p') and q['p'] != ['*']:
            return None
        sd = body.single_def(q['l'])
        if not sd or sd[2] != 'assign':
            return None
        rv = sd[3]['rv']
        if rv['k'] == 'ref':
            if place_is_local(rv['place']):
                return rv['place']['l']
            q = rv['place']
        elif rv['k'] in ('use', 'cast') and op_place(rv['op']):
            q = op_place(rv['op'])
        else:
            return None
    return None


def entry_fields(crate):
    """(connection field, stream field) of the server's stream-list entry type: told apart by field type, not by name"""
    for p, a in crate.adts.items():
        if p.startswith('server::') and p.split('::')[-1].endswith('ReplyStream') and a.get('variants'):
            fs = a['variants'][0].get('fields') or []
            conn = [f['name'] for f in fs if 'connection::Connection<' in (f.get('ty') or '')]
            other = [f['name'] for f in fs if 'connection::Connection<' not in (f.get('ty') or '')]
            if len(conn) == 1 and len(other) == 1:
                return conn[0], other[0]
    return 'conn', 'stream'


def check_cfg(fx, rep, crate, cfg):
    S = srv.Srv(crate)
    if S.run is None or S.errors:
        rep.bad('R10.1', 'anchor|%s' % cfg, '-', 'Server::run anchors not found: %s' % S.errors)
        return
    run = S.run
    fk = run.path
    kc, arm_c = S.arm_of_kind('calls')
    ks, arm_s = S.arm_of_kind('streams')
    if arm_c is None or arm_s is None or arm_c.get('target') is None or arm_s.get('target') is None:
        rep.bad('R10.1', 'anchor-arms|%s' % cfg, run.where(), 'select arms for calls / streams not found')
        return
    idx_c, idx_s = S.index_locals(kc), S.index_locals(ks)
    items_s = S.payload_locals(ks)
    # classify list operations
    rm_conn, rm_stream, push_conn, push_stream = {}, {}, {}, {}
    for b, t in run.iter_terms('call'):
        nm = t['callee'].get('name')
        if not t['args']:
            continue
        v = S.vec_of_operand(run, t['args'][0])
        if v is None:
            continue
        if nm in ('swap_remove', 'remove'):
            (rm_conn if v == S.conn_vec else rm_stream)[b] = t
        elif nm == 'push':
            (push_conn if v == S.conn_vec else push_stream)[b] = t
    # ---- R10.1a provenance of the pushed ReplyStream
    for b, t in push_stream.items():
        tr = run.trace(t['args'][1])
        ok_conn = ok_stream = False
        det = {}
        parts = None
        if tr.get('kind') == 'call' and 'ReplyStream' in (tr['callee'].get('def') or ''):
            parts = tr['args']
        elif tr.get('kind') == 'aggr' and 'ReplyStream' in (tr['rv'].get('adt') or ''):
            parts = tr['rv'].get('ops') or []       # struct literal (or the constructor inlined)
        if parts is not None:
            # which argument is the connection: the one whose type mentions Connection
            for a in parts:
                q = op_place(a)
                ty = (q or {}).get('ty') or ''
                cs = slice_calls(run, a)
                if 'connection::Connection<' in ty:
                    src = run.trace(a)
                    ok_conn = src.get('kind') == 'call' and src['callee'].get('name') in ('swap_remove', 'remove') and \
                        S.vec_of_operand(run, src['args'][0]) == S.conn_vec and bool(op_place(src['args'][1])) and op_place(src['args'][1])['l'] in idx_c
                    det['connection_from'] = op_str(a)
                else:
                    ok_stream = any(c['callee'].get('def') == S.handle_call_fn or (c['callee'].get('resolved') or '').startswith(S.handle_call_fn or '#')
                                    for c in cs)
        rep.check(ok_conn and ok_stream, 'R10.1a', '%s|stream-entry-provenance|%s' % (fk, cfg), C.where(run, b),
                  'the entry pushed onto the stream list pairs the stream returned by the handler with the connection removed from the call list at the calling index',
                  'the entry pushed onto the stream list is not (stream returned by the handler, connection removed from the call list at the calling index): '
                  'connection ok=%s, stream ok=%s' % (ok_conn, ok_stream), det)
    rep.floor('R10.1a', 2, 'stream-list push provenance + hand-over paths')
    # ---- path-sensitive: calls arm
    handover_src = set()
    for b, i, s in run.iter_assigns():
        rv = s['rv']
        if rv['k'] == 'aggr' and rv.get('kind') == 'adt' and rv.get('variant') and rv.get('variant') not in ('Ok', 'Err', 'None', 'Ready', 'Pending') and len(rv.get('ops') or []) == 1 and not s.get('mac'):
            # `stream = Some(s)` or an outcome enum of the loop `Outcome::Stream(s)`: the handler's stream wrapped for the code below
            oty = ((op_place(rv['ops'][0]) or {}).get('ty') or '')
            if rv['variant'] != 'Some' and (oty.startswith(('std::result', 'core::result', 'std::option', 'core::option', 'error::Error')) or not oty):
                continue
            cs = slice_calls(run, rv['ops'][0])
            if any(c['callee'].get('def') == S.handle_call_fn or S.handle_call_fn and (c['callee'].get('resolved') or '').startswith(S.handle_call_fn)
                   for c in cs):
                handover_src.add(b)
    watch = {'src': handover_src, 'push_stream': set(push_stream), 'rm_conn_own': {b for b, t in rm_conn.items() if op_place(t['args'][1]) and op_place(t['args'][1])['l'] in idx_c},
             'rm_any': set(rm_conn) | set(rm_stream), 'push_conn': set(push_conn)}
    paths = [p for p in PS.explore(run, arm_c['target'], {S.loop_head}, watch) if p[0] == S.loop_head]
    hp = [p for p in paths if 'src' in p[1]]
    bad = [p for p in hp if not ('push_stream' in p[1] and 'rm_conn_own' in p[1])]
    rep.check(bool(hp) and not bad, 'R10.1a', '%s|handover-on-every-path|%s' % (fk, cfg), C.where(run, arm_c['target']),
              'every feasible path on which the handler returned a stream removes the connection from the call list and pushes the stream entry (%d path states)' % len(hp),
              'the handler returned a stream but a feasible path reaches the next iteration without parking the connection with its stream '
              '(the stream is dropped or the connection keeps being read)' if hp else 'no path on which the handler\'s stream is taken over was found',
              {'paths': len(hp), 'bad': len(bad)})
    np_ = [p for p in paths if 'src' not in p[1]]
    bad = [p for p in np_ if 'push_stream' in p[1]]
    rep.check(not bad, 'R10.1a', '%s|no-spurious-stream-entry|%s' % (fk, cfg), C.where(run, arm_c['target']),
              'no stream entry is created on a path where the handler returned no stream',
              'a stream entry is pushed although the handler returned no stream')
    # ---- path-sensitive: streams arm
    # item switch: discriminant of the Option item
    item_locals = {l for l, path in items_s.items() if tuple(x for x in path if x != 'Ok') == ('1',)}
    none_t = some_t = None
    for sw in range(run.n):
        if run.is_cleanup(sw) or run.term(sw)['k'] != 'switch':
            continue
        info = run.switch_info(sw)
        pl_ = info['place'] if info and info.get('kind') == 'discr' else None
        if pl_ is not None and pl_.get('p') == ['*']:
            # `if let Some(reply) = &reply`: the discriminant is read through a reference to the item
            sd = run.single_def(pl_['l'])
            if sd and sd[2] == 'assign' and sd[3]['rv']['k'] == 'ref' and not sd[3]['rv']['place'].get('p'):
                pl_ = sd[3]['rv']['place']
        if pl_ is not None and pl_['l'] in item_locals and not pl_.get('p'):
            none_t = info['arms'].get(0, info['otherwise'])
            some_t = info['arms'].get(1, info['otherwise'])
    if none_t is None:
        rep.bad('R10.1b', '%s|item-match|%s' % (fk, cfg), run.where(), 'match on the stream item (Some / None) not found')
    else:
        own_rm_s = {b for b, t in rm_stream.items() if op_place(t['args'][1]) and op_place(t['args'][1])['l'] in idx_s}
        # the connection pushed back must be the conn of the removed entry
        good_push = set()
        for b, t in push_conn.items():
            if b not in run.reachable(none_t):
                continue
            q = op_place(t['args'][1])
            tr = run.trace(t['args'][1])
            okp = False
            if tr.get('kind') == 'place':
                flds = [n for a, n in tr.get('fields', [])]
                base = tr.get('base')
                sd = run.single_def(base) if base is not None else None
                if flds and sd and sd[2] == 'call' and sd[3]['callee'].get('name') in ('swap_remove', 'remove') and \
                        S.vec_of_operand(run, sd[3]['args'][0]) == S.stream_vec:
                    okp = True
            if okp:
                good_push.add(b)
        watch = {'rm_stream_own': own_rm_s, 'push_conn_good': good_push, 'push_conn': set(push_conn), 'rm_any': set(rm_conn) | set(rm_stream)}
        ps_none = [p for p in PS.explore(run, none_t, {S.loop_head}, watch) if p[0] == S.loop_head]
        bad = [p for p in ps_none if not ('rm_stream_own' in p[1] and 'push_conn_good' in p[1])]
        rep.check(bool(ps_none) and not bad, 'R10.1b', '%s|stream-end-returns-connection|%s' % (fk, cfg), C.where(run, none_t),
                  'when a stream ends every path removes its entry and pushes that entry\'s connection back onto the call list (%d path states)' % len(ps_none),
                  'when a stream ends a feasible path does not hand the connection of the removed entry back to the call list: the client is never read again',
                  {'paths': len(ps_none), 'bad': len(bad)})
        # Some arm
        sends = {b: t for b, t in run.iter_terms('call') if t['callee'].get('name') in ('send_reply', 'enqueue_reply') and b in run.reachable(some_t, avoid={S.loop_head})}
        # error switch of the send
        err_t = set()
        for sw in run.reachable(some_t, avoid={S.loop_head}):
            if run.term(sw)['k'] != 'switch':
                continue
            info = run.switch_info(sw)
            if info and info.get('kind') == 'discr' and (info['place'].get('ty') or '').startswith(('std::result::Result<', 'core::result::Result<')) and \
                    run.term(sw).get('ds') != 'QuestionMark':
                e = info['arms'].get(1, info['otherwise'])
                if e is not None:
                    err_t.add(e)
        watch = {'send': set(sends), 'err': err_t, 'rm_stream_own': own_rm_s, 'rm_any': set(rm_conn) | set(rm_stream), 'push_conn': set(push_conn)}
        ps_some = [p for p in PS.explore(run, some_t, {S.loop_head}, watch) if p[0] == S.loop_head]
        nosend = [p for p in ps_some if 'send' not in p[1]]
        rep.check(bool(ps_some) and not nosend, 'R10.2', '%s|item-sent-on-every-path|%s' % (fk, cfg), C.where(run, some_t),
                  'every path from a yielded item to the next iteration passes through the send (%d path states)' % len(ps_some),
                  'a yielded stream item can be dropped without being sent')
        okp = [p for p in ps_some if 'err' not in p[1]]
        bad = [p for p in okp if 'rm_any' in p[1] or 'push_conn' in p[1]]
        rep.check(bool(okp) and not bad, 'R10.1c', '%s|delivered-item-keeps-stream-open|%s' % (fk, cfg), C.where(run, some_t),
                  'an item delivered without error removes nothing and re-registers nothing (%d path states)' % len(okp),
                  'after a successfully delivered item the stream entry is removed or its connection re-registered: the stream ends early / the connection is read while streaming')
        ep = [p for p in ps_some if 'err' in p[1]]
        bad = [p for p in ep if 'rm_stream_own' not in p[1]]
        back = [p for p in ep if 'push_conn' in p[1]]
        rep.check(bool(ep) and not bad and not back, 'R10.1c', '%s|failed-item-drops-subscription|%s' % (fk, cfg), C.where(run, some_t),
                  'a failed item send removes exactly that subscription on every path and does not hand the connection back to the call list (%d path states)' % len(ep),
                  ('after a failed item send the connection is pushed back onto the call list although its stream has not ended: the calls pipelined behind the streaming '
                   'call are served while the subscription is still owed items (only the end of the stream returns a connection)' if back and not bad else
                   'a failed item send does not remove that subscription from the stream list') if ep else 'no path handling a failed item send found')
        # R10.2 the item and the writer
        for b, t in sends.items():
            aq = op_place(t['args'][1])
            item_ok = False
            l = ref_target_local(run, aq) if aq else None
            if l is not None:
                path = tuple(x for x in items_s.get(l, ('?',)) if x != 'Ok')
                item_ok = path in (('1', 'Some'), ('1', 'Some', '0'))
            elif aq:
                # `if let Some(reply) = &item`: the operand is `&((*r) as Some).0` with r = &item
                q_ = aq
                for _ in range(4):
                    sd = run.single_def(q_['l']) if not q_.get('p') else None
                    if sd and sd[2] == 'assign' and sd[3]['rv']['k'] in ('use', 'cast') and op_place(sd[3]['rv']['op']):
                        q_ = op_place(sd[3]['rv']['op'])
                        continue
                    if sd and sd[2] == 'assign' and sd[3]['rv']['k'] == 'ref' and sd[3]['rv']['place'].get('p') == ['*']:
                        q_ = {'l': sd[3]['rv']['place']['l']}       # reborrow `&*r`
                        continue
                    break
                sd = run.single_def(q_['l']) if not q_.get('p') else None
                if sd and sd[2] == 'assign' and sd[3]['rv']['k'] == 'ref':
                    pp = sd[3]['rv']['place']
                    pr = pp.get('p') or []
                    if pr[:1] == ['*'] and len(pr) == 3 and isinstance(pr[1], dict) and pr[1].get('dc') == 'Some' and isinstance(pr[2], dict) and pr[2].get('f') == 0:
                        base = ref_target_local(run, {'l': pp['l']})
                        if base is not None:
                            item_ok = tuple(x for x in items_s.get(base, ('?',)) if x != 'Ok') == ('1',)
            rep.check(item_ok, 'R10.2', '%s|sent-item-is-yielded-item|%s' % (fk, cfg), C.where(run, b),
                      'the reply handed to the send is the item yielded by the stream select, unchanged (same local, by reference)',
                      'the reply sent to the subscriber is not the item the stream yielded (rebuilt or different value: continues flag / parameters may differ)')
            tr = run.trace(t['args'][0])
            w_ok = False
            if tr.get('kind') == 'call' and tr['callee'].get('name') == 'write_mut':
                t2 = run.trace(tr['args'][0])
                if t2.get('kind') == 'place' and [n for a, n in t2.get('fields', [])][-1:] == [entry_fields(crate)[0]]:
                    sd = run.single_def(t2['base'])
                    if sd and sd[2] == 'call' and sd[3]['callee'].get('name') in ('index_mut', 'get_mut'):
                        iq = op_place(sd[3]['args'][1])
                        w_ok = S.vec_of_operand(run, sd[3]['args'][0]) == S.stream_vec and bool(iq) and iq['l'] in idx_s
            rep.check(w_ok, 'R10.2', '%s|item-goes-to-its-subscriber|%s' % (fk, cfg), C.where(run, b),
                      'the item is written to reply_streams[i].conn.write_mut(), i = index returned with the item',
                      'the stream item is not written to the connection of the entry that yielded it')
            awaited = any(tt['callee'].get('name') == 'into_future' and tt.get('ds') == 'Await' and op_place(tt['args'][0]) and
                          op_place(tt['args'][0])['l'] == t['dest']['l'] for _, tt in run.iter_terms('call'))
            rep.check(awaited, 'R10.2', '%s|send-awaited-in-loop|%s' % (fk, cfg), C.where(run, b),
                      'the item send is awaited in the loop body (items of a stream go out in yield order)',
                      'the item send is not awaited in place: items may overtake each other')
    rep.floor('R10.2', 4, 'item-send obligations')
    rep.floor('R10.1b', 1, 'stream-end obligations')
    rep.floor('R10.1c', 2, 'item delivery obligations')
    # ---- R10.5 polled futures are next() on each entry's own stream
    ok5 = False
    for cb in C.nested(crate, run):
        if cb.mac:
            continue
        for b, t in cb.iter_terms('call'):
            if t['callee'].get('name') == 'next' and 'StreamExt' in (t['callee'].get('def') or '') + (t['callee'].get('trait') or ''):
                tr = cb.trace(t['args'][0])
                if tr.get('kind') == 'place' and [n for a, n in tr.get('fields', [])][-1:] == [entry_fields(crate)[1]] and t['dest']['l'] == 0:
                    ok5 = True
    rep.check(ok5, 'R10.5', '%s|item-futures-are-next-of-entry-stream|%s' % (fk, cfg), run.where(),
              'the futures polled for stream items are StreamExt::next on each entry\'s own `stream` field',
              'the futures polled for stream items are not StreamExt::next on the entries\' own streams')
    # ---- R10.9 priority of the biased select: a stream whose next item is always ready (a backlog, a non-ending stream - both in the
    # property's quantifier) must not shut out the other event sources; `select_biased!` polls its arms in textual order and takes the
    # first ready one, so the stream arm has to come after the accept arm and the call arm (`select!` shuffles: no order to check)
    shuffles = any(t['callee'].get('name') == 'shuffle' for cb in [run] + list(C.nested(crate, run)) for _, t in cb.iter_terms('call'))
    ka, _arm_a = S.arm_of_kind('accept')
    order = {'accept': ka, 'calls': kc, 'streams': ks}
    ok9 = shuffles or (ks is not None and kc is not None and ks > kc and (ka is None or ks > ka))
    rep.check(ok9, 'R10.9', '%s|stream-arm-has-lowest-priority|%s' % (fk, cfg), run.where(),
              'the select polls the stream arm after the accept and call arms (arm order %s%s)' % (order, ', shuffled' if shuffles else ''),
              'the biased select of the server loop polls the reply-stream arm before the %s arm (arm order %s): a stream that has an item ready '
              'at every poll wins every iteration, other clients\' calls are not read and new connections not accepted while it is open'
              % ('call' if (kc is not None and ks is not None and ks < kc) else 'accept', order), order)


def import_rules(fx, rep, tier, cfg):
    import engine
    import c01, c07
    sub = engine.Report('C01', rep.tier)
    c01.check_crate(fx, sub, fx.crate('zlink_core', cfg), cfg)
    n = 0
    for i in sub.insts:
        if (i.rule == 'R01.2' and 'a-buffered-frames-first' in i.key) or i.rule == 'R01.6':
            n += 1
            (rep.ok if i.ok else rep.bad)('R10.3', i.key, i.where, i.msg if i.ok else i.msg + ' - calls pipelined behind a streaming call would wait for new bytes', i.detail)
    if not n:
        rep.bad('R10.3', 'anchor|%s' % cfg, '-', 'R01.2a instance (buffered frames first) not found')
    if cfg == 'full':
        import imports
        imports.cancel_safety(fx, rep, 'R10.4', 'the server loop drops pending receive futures whenever a stream yields')


def check(fx, rep, tier):
    rep.rule('R10.1a', 'a stream returned by the handler is parked with the calling connection (removed from the call list) on every feasible path; never otherwise')
    rep.rule('R10.1b', 'when a stream ends, its entry is removed and its connection goes back to the call list on every feasible path')
    rep.rule('R10.1c', 'a delivered item leaves both lists untouched; a failed item send removes exactly that subscription')
    rep.rule('R10.2', 'the yielded item is sent unchanged, to the connection of the entry that yielded it, awaited in place, on every path')
    rep.rule('R10.3', 'frames already buffered are served before the transport is read again (R01.2a)')
    rep.rule('R10.4', 'the receive path is cancel-safe (R07.1-R07.3): the select loop drops pending receive futures on every stream item')
    rep.rule('R10.5', 'the futures polled for items are next() on each entry\'s own stream')
    rep.rule('R10.9', 'other clients are served while a stream is open: in the biased select the reply-stream arm comes after the accept arm and the call arm')
    for cfg in ['full'] + (['ws'] if tier == 'thorough' else []):
        check_cfg(fx, rep, fx.crate('zlink_core', cfg), cfg)
        import_rules(fx, rep, tier, cfg)
    import imports as _imp
    _imp.layer(fx, rep, 'C10')
    return META
