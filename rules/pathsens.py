"""Small path-sensitive exploration of a MIR body: constant propagation of bool locals and Option/enum variant tags,
pruning switch edges that contradict the known facts.  Used where the source steers control with flag variables
(`let mut remove = true; ... if stream.is_some() || remove {..}`), which a path-insensitive must-pass-through rule
cannot follow."""
from mir import op_place, place_is_local, op_is_const


def _pkey(p):
    """fact key of a place: the local, or (local, field index) for a single field projection (tuple element)"""
    pr = p.get('p') or []
    if not pr:
        return p['l']
    if len(pr) == 1 and isinstance(pr[0], dict) and 'f' in pr[0]:
        return (p['l'], pr[0]['f'])
    return None


def _fact_of_rv(body, rv, facts):
    k = rv['k']
    if k == 'use':
        op = rv['op']
        if op.get('k') == 'const':
            v = op.get('val')
            if isinstance(v, bool) or (op.get('ty') == 'bool' and v in (0, 1)):
                return ('bool', bool(v))
            if op.get('ty') == 'bool' and op.get('s') in ('true', 'false', 'const true', 'const false'):
                return ('bool', 'true' in op['s'])
            if isinstance(v, int) and not isinstance(v, bool):
                return ('int', v)
            return None
        q = op_place(op)
        if q:
            key = _pkey(q)
            return facts.get(key) if key is not None else None
        return None
    if k == 'aggr' and rv.get('kind') == 'adt' and rv.get('variant'):
        return ('variant', rv['variant'], rv.get('adt'))
    return None


def step_block(body, b, facts, variants_of=None):
    """apply the statements + terminator of block b to facts (dict local->fact); returns (facts_out, successors)"""
    f = dict(facts)
    for s in body.stmts(b):
        if s['k'] != 'assign':
            continue
        p = s['place']
        if place_is_local(p):
            for kk in [x for x in f if isinstance(x, tuple) and x[0] == p['l']]:
                f.pop(kk, None)
            rv = s['rv']
            if rv['k'] == 'aggr' and rv.get('kind') == 'tuple':
                f.pop(p['l'], None)
                for i_, o in enumerate(rv.get('ops') or []):
                    sub = _fact_of_rv(body, {'k': 'use', 'op': o}, f)
                    if sub is not None:
                        f[(p['l'], i_)] = sub
                continue
            nf = _fact_of_rv(body, rv, f)
            if nf is None:
                f.pop(p['l'], None)
            else:
                f[p['l']] = nf
        else:
            f.pop(p['l'], None)
    t = body.term(b)
    k = t['k']
    succ = list(body.succ(b))
    if k == 'call':
        d = t['dest']
        nm = t['callee'].get('name')
        newf = None
        if nm in ('is_some', 'is_none', 'is_ok', 'is_err') and t['args']:
            q = op_place(t['args'][0])
            src = None
            if q:
                # &local
                sd = body.single_def(q['l'])
                if place_is_local(q) and sd and sd[2] == 'assign' and sd[3]['rv']['k'] == 'ref' and place_is_local(sd[3]['rv']['place']):
                    src = sd[3]['rv']['place']['l']
                elif place_is_local(q):
                    src = q['l']
            ff = f.get(src) if src is not None else None
            if ff and ff[0] == 'variant':
                newf = ('bool', {'is_some': ff[1] == 'Some', 'is_none': ff[1] == 'None', 'is_ok': ff[1] == 'Ok', 'is_err': ff[1] == 'Err'}[nm])
        # emptiness of a Vec accumulator: Vec::new() is empty, push makes it non-empty, is_empty() reads the abstract state
        def _ref_target(a):
            q = op_place(a)
            if not q or not place_is_local(q):
                return None
            sd = body.single_def_at(q['l'], q.get('@'), q.get('@i')) if hasattr(body, 'single_def_at') else body.single_def(q['l'])
            if sd and sd[2] == 'assign' and sd[3]['rv']['k'] == 'ref' and place_is_local(sd[3]['rv']['place']):
                return sd[3]['rv']['place']['l']
            return None
        skip_pop = set()
        cdef = (t['callee'].get('def') or '') + (t['callee'].get('impl_self') or '')
        if nm in ('new', 'with_capacity') and 'Vec' in cdef and place_is_local(d):
            newf = ('vec', 'empty')
        elif nm in ('push', 'insert', 'extend_from_slice') and 'Vec' in cdef and t['args']:
            tgt = _ref_target(t['args'][0])
            if tgt is not None:
                f[tgt] = ('vec', 'nonempty')
                skip_pop.add(tgt)
        elif nm == 'is_empty' and t['args'] and newf is None:
            tgt = _ref_target(t['args'][0])
            ff = f.get(tgt) if tgt is not None else None
            if ff and ff[0] == 'vec':
                newf = ('bool', ff[1] == 'empty')
        if place_is_local(d):
            if newf:
                f[d['l']] = newf
            else:
                f.pop(d['l'], None)
        # a call taking &mut local may change it
        for a in t['args']:
            if _ref_target(a) in skip_pop:
                continue
            q = op_place(a)
            if q and place_is_local(q):
                sd = body.single_def(q['l'])
                if sd and sd[2] == 'assign' and sd[3]['rv']['k'] == 'ref' and sd[3]['rv'].get('mut') and place_is_local(sd[3]['rv']['place']):
                    f.pop(sd[3]['rv']['place']['l'], None)
    elif k == 'yield':
        d = t.get('resume_arg')
        if d and place_is_local(d):
            f.pop(d['l'], None)
    elif k == 'switch':
        q = op_place(t['op'])
        arms = {a[0]: a[1] for a in t['arms']}
        if q and not place_is_local(q) and _pkey(q) is not None:
            ff = f.get(_pkey(q))
            if ff and ff[0] == 'bool' and t.get('op_ty') == 'bool':
                succ = [arms.get(1 if ff[1] else 0, t['otherwise'])]
        if q and place_is_local(q):
            ff = f.get(q['l'])
            if ff and ff[0] == 'bool' and t.get('op_ty') == 'bool':
                v = 1 if ff[1] else 0
                succ = [arms.get(v, t['otherwise'])]
            else:
                # discriminant(local) ?
                sd = body.single_def(q['l'])
                if sd and sd[2] == 'assign' and sd[3]['rv']['k'] == 'discr' and _pkey(sd[3]['rv']['place']) is not None:
                    src = _pkey(sd[3]['rv']['place'])
                    ff = f.get(src)
                    if ff and ff[0] == 'variant':
                        idx = {'None': 0, 'Some': 1, 'Ok': 0, 'Err': 1, 'Pending': 1, 'Ready': 0, 'Continue': 0, 'Break': 1}.get(ff[1])
                        if idx is None and len(ff) > 2 and ff[2]:
                            # an enum of the crate itself (`enum Outcome { Keep, Close, Stream(s) }` steering the control flow)
                            for ap, a in getattr(body.crate, 'adts', {}).items():
                                if ap == ff[2] or ap.endswith('::' + ff[2].split('::')[-1]) and ff[2].split('::')[-1] == ap.split('::')[-1]:
                                    names = [v['name'] for v in a.get('variants', [])]
                                    if ff[1] in names:
                                        idx = names.index(ff[1])
                                        break
                        if idx is not None:
                            succ = [arms.get(idx, t['otherwise'])]
    return f, succ


def explore(body, start, stops, watch, facts0=None, avoid=(), limit=200000):
    """All feasible path states from `start`.  `stops`: set of blocks where a path ends (reported, not expanded).
    `watch`: dict name -> set(blocks); the set of names whose blocks were visited is carried along each path.
    Returns list of (stop_block_or_None_for_return, frozenset(passed names), facts dict).  Paths ending in
    return / unreachable / diverging calls are reported with their last block and kind."""
    out = []
    seen = set()
    work = [(start, tuple(sorted((facts0 or {}).items(), key=repr)), frozenset())]
    n = 0
    avoid = set(avoid)
    while work:
        b, ft, passed = work.pop()
        if b in avoid:
            continue
        for nm, bl in watch.items():
            if b in bl:
                passed = passed | {nm}
        key = (b, ft, passed)
        if key in seen:
            continue
        seen.add(key)
        n += 1
        if n > limit:
            raise RuntimeError('path-sensitive exploration exceeded its state limit')
        if b in stops and (b != start or n > 1):
            out.append((b, passed, dict(ft)))
            continue
        t = body.term(b)
        f2, succ = step_block(body, b, dict(ft))
        if t['k'] in ('return', 'unreachable', 'coroutine_drop') or not succ:
            out.append((('end', t['k'], b), passed, f2))
            continue
        ft2 = tuple(sorted(f2.items(), key=repr))
        for s in succ:
            work.append((s, ft2, passed))
    return out
