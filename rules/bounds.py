"""Engine F (bounds): discharge of slice index / range sites by dominating guards, over MIR.

Facts are of the form  key < len(S)  (and the derived  cursor <= len(S)):  they come from the edges of comparisons with
`S.len()`, `S.is_empty()`, `S.starts_with(<literal>)`; a fact proves a site when its edge dominates the site and neither
the index local nor the slice S is redefined on the way.  Cursors (`let mut pos = c; ... pos += 1`) are proved `<= len`
inductively: every increment must itself be covered by a live `pos < len(S)` fact."""
import mir
from mir import op_place, place_is_local


class Bounds:
    def __init__(self, body):
        self.b = body
        self.alias = {}
        for l in body.locals:
            sd = body.single_def(l['i'])
            if sd and sd[2] == 'assign' and sd[3]['rv']['k'] == 'use':
                q = op_place(sd[3]['rv']['op'])
                if q and q.get('p') == ['*'] and 1 <= q['l'] <= body.arg_count:
                    self.alias[l['i']] = q['l']      # X = *arg  (a copy of the slice reference)
        self._facts = None

    # ---- identities
    def slice_id(self, p):
        """identity of the slice a place denotes: root argument local of `(*(*_1))`, `(*_2)` with _2 = *_1, or a local slice ref"""
        if p is None:
            return None
        pr = [e for e in (p.get('p') or [])]
        if any(not (e == '*') for e in pr):
            return None
        l = p['l']
        if l in self.alias and len(pr) == 1:
            return ('arg', self.alias[l])
        if 1 <= l <= self.b.arg_count and len(pr) == 2:
            return ('arg', l)
        if len(pr) == 1:
            # reference local: follow to its origin
            tr = self.ref_origin(l)
            return tr
        return None

    def ref_origin(self, l, depth=8):
        b = self.b
        for _ in range(depth):
            if l in self.alias:
                return ('arg', self.alias[l])
            if 1 <= l <= b.arg_count:
                return ('argref', l)
            sd = b.single_def(l)
            if not sd:
                return ('local', l)
            if sd[2] == 'assign':
                rv = sd[3]['rv']
                if rv['k'] in ('ref', 'rawptr'):
                    sid = self.slice_id(rv['place'])
                    if sid:
                        return sid
                    if place_is_local(rv['place']):
                        l = rv['place']['l']
                        continue
                    return ('local', l)
                if rv['k'] in ('use', 'cast') and op_place(rv['op']):
                    q = op_place(rv['op'])
                    sid = self.slice_id(q) if q.get('p') else None
                    if sid:
                        return sid
                    if place_is_local(q):
                        l = q['l']
                        continue
                return ('local', l)
            return ('local', l)
        return ('local', l)

    def key_of(self, op):
        """index value identity: ('const', v) or ('local', l) of the (possibly mutable) variable it is a copy of"""
        if op is None:
            return None
        if op.get('k') == 'const':
            return ('const', op.get('val'))
        q = op_place(op)
        if not q or q.get('p'):
            return None
        l = q['l']
        b = self.b
        for _ in range(6):
            sd = b.single_def(l)
            if b.local_name(l) or not sd:
                return ('local', l)
            if sd[2] == 'assign' and sd[3]['rv']['k'] == 'use':
                o = sd[3]['rv']['op']
                if o.get('k') == 'const':
                    return ('const', o.get('val'))
                q2 = op_place(o)
                if q2 and not q2.get('p'):
                    l = q2['l']
                    continue
            return ('local', l)
        return ('local', l)

    def len_of(self, op):
        """if operand is S.len() return slice id of S"""
        b = self.b
        tr = b.trace(op)
        if tr.get('kind') == 'call' and tr['callee'].get('name') == 'len' and tr['args']:
            q = op_place(tr['args'][0])
            return self.ref_origin(q['l']) if q and not q.get('p') else None
        if tr.get('kind') == 'un' and tr.get('op') == 'PtrMetadata':
            t2 = b.trace(tr['a'])
            if t2.get('kind') == 'place':
                return self.slice_id(t2['place'])
        return None

    # ---- guard facts
    def facts(self):
        """list of (switch block, proving edge target, other edge target, key, slice id)  meaning  key < len(slice)"""
        if self._facts is not None:
            return self._facts
        b = self.b
        out = []
        for sw in range(b.n):
            if b.is_cleanup(sw) or b.term(sw)['k'] != 'switch':
                continue
            info = b.switch_info(sw)
            if not info:
                continue
            if info.get('kind') == 'cmp' and info['op'] in ('Lt', 'Le', 'Gt', 'Ge', 'Eq', 'Ne'):
                la, lb = self.len_of(info['a_op']), self.len_of(info['b_op'])
                ka, kb = self.key_of(info['a_op']), self.key_of(info['b_op'])
                op = info['op']
                if lb and ka and not la:       # key OP len
                    if op == 'Lt':
                        out.append((sw, info['true'], info['false'], ka, lb))
                    elif op == 'Ge':
                        out.append((sw, info['false'], info['true'], ka, lb))
                    elif op in ('Eq',) and ka[0] == 'const':
                        pass
                elif la and kb and not lb:     # len OP key
                    if op == 'Gt':
                        out.append((sw, info['true'], info['false'], kb, la))
                    elif op == 'Le':
                        out.append((sw, info['false'], info['true'], kb, la))
                    elif op == 'Eq' and kb == ('const', 0):
                        out.append((sw, info['false'], info['true'], ('const', 0), la))
                    elif op == 'Ne' and kb == ('const', 0):
                        out.append((sw, info['true'], info['false'], ('const', 0), la))
            elif info.get('kind') == 'bool':
                src = info['src']
                if src.get('kind') == 'call' and src['args']:
                    nm = src['callee'].get('name')
                    q = op_place(src['args'][0])
                    sid = self.ref_origin(q['l']) if q and not q.get('p') else None
                    if nm == 'is_empty' and sid:
                        out.append((sw, info['false'], info['true'], ('const', 0), sid))
                    elif nm == 'starts_with' and sid and len(src['args']) >= 2:
                        tr = b.trace(src['args'][1])
                        n = None
                        if tr.get('kind') == 'const':
                            o = tr['op']
                            if 'bytes' in o:
                                n = len(o['bytes'])
                            elif 'str' in o:
                                n = len(o['str'].encode())
                        if n:
                            out.append((sw, info['true'], info['false'], ('const', n - 1), sid))
        self._facts = out
        return out

    def kill_blocks(self, key, sid):
        """blocks that redefine the index local or store a new slice into S"""
        b = self.b
        out = set()
        if key and key[0] == 'local':
            for (blk, i, kind, payload) in b.defs().get(key[1], []):
                out.add(blk)
        if sid and sid[0] == 'arg':
            for blk, i, s in b.iter_assigns():
                p = s['place']
                if p['l'] == sid[1] and p.get('p') == ['*']:
                    out.add(blk)
        return out

    def proves(self, site_block, key, sid, strict=True, at_def_of=None):
        """is  key < len(sid)  (strict)  established at the entry of site_block?"""
        b = self.b
        for sw, good, other, k2, s2 in self.facts():
            if s2 != sid:
                continue
            if k2 != key:
                if not (k2[0] == 'const' and key and key[0] == 'const' and isinstance(k2[1], int) and isinstance(key[1], int) and key[1] <= k2[1]):
                    continue
            if not b.dominates(sw, site_block) or sw == site_block:
                continue
            if site_block not in b.reachable(good):
                continue
            if good != other and site_block in b.reachable(other, avoid={sw}):
                continue
            # not killed between the edge and the site
            kills = self.kill_blocks(key, sid) - {site_block}
            killed = False
            for kb in kills:
                if kb == sw:
                    continue
                if kb in b.reachable(good, avoid={sw}) and site_block in b.reachable(kb, avoid={sw}) and kb != site_block:
                    # a redefinition inside a loop that re-enters through the guard is fine (avoid={sw}); this one is not
                    killed = True
            if not killed:
                return True, {'guard_line': b.term(sw).get('line')}
        return False, {}

    def cursor_le_len(self, l, sid):
        """inductive proof of  local l <= len(sid)  at every point: defs are constants covered by a guard, or +1 under a live l < len"""
        b = self.b
        det = []
        for (blk, i, kind, payload) in b.defs().get(l, []):
            if kind != 'assign':
                return False, ['defined by a %s' % kind]
            rv = payload['rv']
            if rv['k'] == 'use' and rv['op'].get('k') == 'const':
                c = rv['op'].get('val')
                if c == 0:
                    continue
                ok, d = self.proves(blk, ('const', c - 1), sid)
                if not ok:
                    return False, ['initialised to %s without a guard len >= %s' % (c, c)]
                continue
            if rv['k'] == 'use':
                tr = b.trace(rv['op'])
                if tr.get('kind') == 'bin' and tr['op'] == 'Add':
                    ka = self.key_of(tr['a'])
                    cb = tr['b'].get('val') if tr['b'].get('k') == 'const' else None
                    if ka == ('local', l) and cb == 1:
                        ok, d = self.proves(tr.get('block', blk), ('local', l), sid)
                        if ok:
                            continue
                        return False, ['incremented at line %s without a live `%s < len` guard' % (payload.get('line'), b.local_name(l) or l)]
            return False, ['assigned from something other than a constant or +1 at line %s' % payload.get('line')]
        return True, det
