"""Coroutine-state (cancel-safety) analysis over pre-state-transform MIR."""
import mir
from mir import op_place
import common as C


def param_copies(body):
    """named locals that are plain copies of captured parameters (upvars `_1.k`) -> set of local indices"""
    out = set()
    for l in body.locals:
        i = l['i']
        if not l.get('name'):
            continue
        sd = body.single_def(i)
        if sd and sd[2] == 'assign':
            rv = sd[3]['rv']
            if rv['k'] == 'use':
                p = op_place(rv['op'])
                if p and p['l'] == 1 and p.get('p') and len(p['p']) == 1 and isinstance(p['p'][0], dict) and 'f' in p['p'][0]:
                    out.add(i)
    return out


def after_yield_blocks(body):
    """blocks reachable from the resume target of any Yield"""
    out = set()
    for b in body.yields():
        out |= body.reachable(body.term(b)['t'])
    return out


def pre_yield_region(body):
    """blocks executed before the first awaited future is polled: reachable from entry without passing
    through a Yield or through the `poll` call of an `.await` (what runs there is re-executed every time
    the operation is restarted after a cancellation; code after a completed await is not)"""
    seen, work = set(), [0]
    while work:
        x = work.pop()
        if x in seen:
            continue
        seen.add(x)
        t = body.term(x)
        if t['k'] == 'yield':
            continue
        if t['k'] == 'call' and t.get('ds') == 'Await' and t['callee'].get('name') == 'poll':
            continue
        work.extend(body.succ(x))
    return seen


def progress_locals(body):
    """saved, named, non-parameter locals that are (re)assigned after a suspension point:
    progress that lives only in the future and is lost when the future is dropped.
    returns list of dicts {name, local, def_lines}"""
    if not body.is_coroutine or body.saved is None:
        return []
    saved_names = {s.get('name') for s in body.saved if s.get('name')}
    params = param_copies(body)
    after = after_yield_blocks(body)
    defs = body.defs()
    out = []
    for l in body.locals:
        i = l['i']
        name = l.get('name')
        if not name or name not in saved_names or name in ('__awaitee', '_task_context') or i in params or i <= body.arg_count:
            continue
        if not l.get('user', False):
            continue
        dl = []
        for (b, idx, kind, payload) in defs.get(i, []):
            if b in after:
                dl.append(payload.get('line'))
        if dl:
            # a local that is written back to the connection before every later suspension is a working copy, not progress held in the future
            import eqfacts
            try:
                if eqfacts.mirrored_at_suspensions(body, 'ReadConnection', i) or eqfacts.mirrored_at_suspensions(body, 'WriteConnection', i):
                    continue
            except Exception:
                pass
            out.append({'name': name, 'local': i, 'def_lines': sorted(set(x for x in dl if x)), 'ty': l.get('ty')})
    return out


def awaited(crate, body):
    """(block, term, callee_coroutine_or_None) for every call whose result is awaited in this coroutine:
    calls to workspace async fns (their {closure#0} coroutine exists) and trait async methods."""
    out = []
    for b, t in body.iter_terms('call'):
        c = t['callee']
        d = c.get('def')
        if not d:
            continue
        if c.get('name') in ('into_future', 'poll', 'new_unchecked', 'get_context', 'branch', 'from_residual'):
            continue
        co = crate.by_path.get(d + '::{closure#0}')
        if co is not None and co.is_coroutine:
            out.append((b, t, co))
    return out


def await_leaves(body):
    """trait-method calls that produce an awaited future without a workspace body (e.g. ReadHalf::read)"""
    out = []
    for b, t in body.iter_terms('call'):
        c = t['callee']
        if c.get('trait') and t.get('ds') is None:
            # is its result awaited?  dest flows into into_future with ds=Await
            dl = t['dest']['l']
            for b2, t2 in body.iter_terms('call'):
                if t2['callee'].get('name') == 'into_future' and t2.get('ds') == 'Await':
                    p = op_place(t2['args'][0])
                    if p and p['l'] == dl:
                        out.append((b, t))
    return out


def reaches_leaf(crate, start, trait_sub, name, memo=None):
    """set of coroutine bodies (paths) from `start` (a coroutine) through which a trait leaf call is awaited"""
    memo = {} if memo is None else memo

    def go(body, stack):
        if body.path in memo:
            return memo[body.path]
        if body.path in stack:
            return False
        hit = any((t['callee'].get('trait') and trait_sub in t['callee']['trait'] and t['callee'].get('name') == name)
                  for b, t in await_leaves(body))
        for b, t, co in awaited(crate, body):
            if go(co, stack | {body.path}):
                hit = True
        memo[body.path] = hit
        return hit

    go(start, frozenset())
    return memo


def suspension_follows(body, b):
    """a suspension point can still be reached after block b: what b did can be left behind by dropping the future there"""
    ys = set(body.yields())
    if not ys:
        return False
    r = body.reach_from_succ(b)
    return bool(ys & r)


def stores_before_first_yield(crate, body, adt_sub, depth=3):
    """field stores to ADT `adt_sub` executed before the first suspension of coroutine `body` and followed by a suspension
    (directly, or through non-async workspace helpers called there, to `depth`).  A store on a path that suspends nowhere
    (e.g. the frame is already buffered: parse, update the cursors, return) runs to completion and is not at stake."""
    region = pre_yield_region(body)
    out = []
    for b, i, s in C.field_stores(body, adt_sub):
        if b in region and suspension_follows(body, b):
            out.append((body, b, i, s))

    def helper_stores(fnbody, d):
        r = []
        for b, i, s in C.field_stores(fnbody, adt_sub):
            r.append((fnbody, b, i, s))
        if d > 0:
            for b, t in fnbody.iter_terms('call'):
                cd = t['callee'].get('def')
                cb = crate.by_path.get(cd) if cd else None
                if cb is not None and not crate.by_path.get(cd + '::{closure#0}'):
                    r.extend(helper_stores(cb, d - 1))
        return r

    for b, t in body.iter_terms('call'):
        if b not in region or not suspension_follows(body, b):
            continue
        cd = t['callee'].get('def')
        cb = crate.by_path.get(cd) if cd else None
        if cb is not None and crate.by_path.get(cd + '::{closure#0}') is None and cb.kind in ('AssocFn', 'Fn'):
            out.extend(helper_stores(cb, depth))
    return out


PURE_ACCESS = {'index', 'index_mut', 'deref', 'deref_mut', 'as_mut_slice', 'as_slice', 'len', 'is_empty', 'capacity', 'iter', 'iter_mut', 'get', 'get_mut', 'as_ref', 'as_mut',
               'first', 'last', 'contains', 'starts_with', 'ends_with', 'as_ptr', 'borrow', 'borrow_mut', 'position', 'split_at', 'split_at_mut'}


def mutating_calls_before_first_yield(crate, body, adt_sub):
    """calls executed before the first suspension that receive `&mut <field of adt_sub>` and are not pure element access / the awaited
    leaf itself (e.g. Vec::truncate / clear / shrink_to_fit on the receive buffer): they are re-executed whenever the operation is restarted"""
    region = pre_yield_region(body)
    out = []
    for b, t in body.iter_terms('call'):
        if b not in region or not suspension_follows(body, b):
            continue
        nm = t['callee'].get('name')
        if nm in PURE_ACCESS or t.get('mac'):
            continue
        if t['callee'].get('trait') and t.get('ds') is None and any(b2 == b for b2, _ in await_leaves(body)):
            continue
        for a in t['args'][:1]:
            q = op_place(a)
            if not q:
                continue
            ty = q.get('ty') or body.local_ty(q['l']) or ''
            if not ty.startswith('&mut'):
                continue
            tr = body.trace(a)
            fl = tr.get('fields', []) if tr.get('kind') == 'place' else []
            fl = [(adt, n) for adt, n in fl if adt and not str(adt).startswith('upvars')]
            if any(adt and adt_sub in adt for adt, n in fl):
                # the receiver is a field of the connection (not the connection itself: that is a sub-operation analysed on its own)
                out.append((b, t, [n for adt, n in fl if adt and adt_sub in adt][-1]))
    return out
