"""Rule-instance bookkeeping, known findings, evidence files, verdict lines."""
import os, sys, json, time, hashlib

VERIF = os.path.dirname(os.path.dirname(os.path.abspath(__file__)))


class Inst:
    __slots__ = ('rule', 'key', 'ok', 'where', 'msg', 'detail', 'nontrivial')

    def __init__(self, rule, key, ok, where, msg, detail=None, nontrivial=True):
        self.rule, self.key, self.ok, self.where, self.msg = rule, key, ok, where, msg
        self.detail, self.nontrivial = detail, nontrivial

    def full_key(self):
        return '%s|%s' % (self.rule, self.key)

    def to_json(self):
        d = {'rule': self.rule, 'key': self.key, 'verdict': 'holds' if self.ok else 'VIOLATED',
             'site': self.where, 'obligation': self.msg}
        if self.detail is not None:
            d['detail'] = self.detail
        return d


class Report:
    def __init__(self, pid, tier):
        self.pid = pid
        self.tier = tier
        self.insts = []
        self.floors = {}
        self.notes = []
        self.rules_doc = {}
        self.t0 = time.time()
        self.analysed = {}

    # -- recording
    def rule(self, rid, text):
        self.rules_doc[rid] = text

    def ok(self, rule, key, where, msg, detail=None, nontrivial=True):
        self.insts.append(Inst(rule, key, True, where, msg, detail, nontrivial))

    def bad(self, rule, key, where, msg, detail=None):
        self.insts.append(Inst(rule, key, False, where, msg, detail, True))

    def check(self, cond, rule, key, where, msg_ok, msg_bad=None, detail=None):
        if cond:
            self.ok(rule, key, where, msg_ok, detail)
        else:
            self.bad(rule, key, where, msg_bad or ('NOT: ' + msg_ok), detail)
        return cond

    def floor(self, rule, n, what):
        """fail closed when fewer than n instances of `rule` were found (anchor lost)"""
        self.floors[rule] = (n, what)

    def note(self, s):
        self.notes.append(s)

    def count(self, rule):
        return sum(1 for i in self.insts if i.rule == rule)

    # -- finishing
    def finish(self, level, explanation, assumptions, trusted_base=None, extra=None, replay=None):
        kf = load_known()
        for rule, (n, what) in self.floors.items():
            c = self.count(rule)
            if c < n:
                self.bad(rule, 'floor', '-', 'anchor lost: expected at least %d %s, found %d' % (n, what, c))
        viol = [i for i in self.insts if not i.ok]
        known, new = [], []
        known_keys = {(e['property'], e['key']): e for e in kf.get('findings', [])}
        seen = set()
        for v in viol:
            fk = v.full_key()
            if fk in seen:
                continue
            seen.add(fk)
            if (self.pid, fk) in known_keys:
                known.append((v, known_keys[(self.pid, fk)]))
            else:
                new.append(v)
        out = []
        for v, e in known:
            out.append('KNOWN-FINDING: property=%s %s [%s at %s]' % (self.pid, e.get('what', v.msg), fk_short(v), v.where))
        vdir = os.path.join(VERIF, 'violations') if os.environ.get('ZL_REPO', '/repo') == '/repo' else '/tmp/zlmut/violations'
        os.makedirs(vdir, exist_ok=True)
        for v in new:
            h = hashlib.sha1(v.full_key().encode()).hexdigest()[:12]
            path = os.path.join(vdir, '%s-%s.json' % (self.pid, h))
            with open(path, 'w') as f:
                json.dump({'property': self.pid, 'key': v.full_key(), 'instance': v.to_json(),
                           'rule_text': self.rules_doc.get(v.rule, '')}, f, indent=1)
            out.append('VIOLATION property=%s replay=%s' % (self.pid, path))
            out.append('  rule %s: %s' % (v.rule, self.rules_doc.get(v.rule, '')))
            out.append('  at %s: %s' % (v.where, v.msg))
            if v.detail:
                out.append('  detail: %s' % (json.dumps(v.detail)[:600]))
        # evidence
        nontrivial_keys = {i.full_key() for i in self.insts if i.nontrivial}
        per_rule = {}
        for i in self.insts:
            d = per_rule.setdefault(i.rule, {'instances': 0, 'violated': 0})
            d['instances'] += 1
            if not i.ok:
                d['violated'] += 1
        samples = []
        seen_rules = {}
        for i in self.insts:
            c = seen_rules.get(i.rule, 0)
            if c < 3 or not i.ok:
                samples.append(i.to_json())
                seen_rules[i.rule] = c + 1
        cov = {
            'explanation': explanation,
            'evaluations': len(self.insts),
            'distinct_nontrivial': len(nontrivial_keys),
            'rule': 'one evaluation = one rule instance (rule id x program construct found by its anchor in the current '
                    'MIR/AST of /repo); non-trivial = the obligation was actually evaluated on a construct (not a vacuous '
                    'pass); distinct = distinct line-free instance keys',
            'samples': samples[:60],
            'rules': {k: {'text': self.rules_doc.get(k, ''), **v} for k, v in per_rule.items()},
            'floors': {k: {'min_instances': v[0], 'of': v[1], 'found': self.count(k)} for k, v in self.floors.items()},
            'analysed': self.analysed,
            'known_findings_matched': [v.full_key() for v, _ in known],
            'notes': self.notes,
            'exhaustive': True,
        }
        if level == 'proof':
            obligations = len({i.full_key() for i in self.insts})
            discharged = len({i.full_key() for i in self.insts if i.ok})
            cov.update({'obligations': obligations, 'discharged': discharged,
                        'checker_cmd': './check %s --tier %s' % (self.pid, self.tier),
                        'trusted_base': trusted_base or []})
        if extra:
            cov.update(extra)
        ev = {
            'property_id': self.pid,
            'tier': self.tier,
            'seed': int(os.environ.get('VERIF_SEED', '0') or 0),
            'level': level,
            'coverage': cov,
            'assumptions': assumptions,
            'wall_s': round(time.time() - self.t0, 3),
            'violations': len(new),
        }
        # evidence of runs against a scratch tree (ZL_REPO set, checker self-tests) never lands in /verif/evidence
        evdir = os.path.join(VERIF, 'evidence') if os.environ.get('ZL_REPO', '/repo') == '/repo' else '/tmp/zlmut/evidence'
        os.makedirs(evdir, exist_ok=True)
        tmp = os.path.join(evdir, '%s.json.tmp%d' % (self.pid, os.getpid()))
        with open(tmp, 'w') as f:
            json.dump(ev, f, indent=1)
        os.rename(tmp, os.path.join(evdir, '%s.json' % self.pid))
        return out, len(new)


def fk_short(v):
    return v.full_key()


def load_known():
    p = os.path.join(VERIF, 'known_findings.json')
    if os.path.exists(p):
        with open(p) as f:
            return json.load(f)
    return {'findings': [], 'fixed': []}
